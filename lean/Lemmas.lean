/-
Lemma schemas used as axioms on the SMT side of the tangermeme verification (DESIGN.md §2.5).
Each is instantiated at the terms of an obligation by vf/ (the correspondence between an SMT
instance and the statement here is by construction of the instantiation code and is part of the
trusted base).  Checked by `lean lean/Lemmas.lean` in setup / the thorough tier.
-/
import Mathlib

open Finset BigOperators

/-- equal summands on the range ⇒ equal sums (the engine's rule for `Sum = Sum` goals; on the SMT
    side it is obtained from array extensionality of the summand lambda). -/
theorem sum_congr_range (n : ℕ) (f g : ℕ → ℝ) (h : ∀ k, k < n → f k = g k) :
    ∑ k ∈ range n, f k = ∑ k ∈ range n, g k :=
  Finset.sum_congr rfl (fun k hk => h k (Finset.mem_range.mp hk))

/-- split off the last term (accumulator loops; unfolding axiom of recursive partial-sum specs,
    e.g. PS(k,l,i,j+1) = PS(k,l,i,j) + term j in contracts/fimo_c.py). -/
theorem sum_range_succ' (n : ℕ) (f : ℕ → ℝ) :
    ∑ k ∈ range (n + 1), f k = ∑ k ∈ range n, f k + f n :=
  Finset.sum_range_succ f n

/-- a sum is invariant under a permutation of its index set: a region that is a permutation of
    the input region contains the same number of each character (C02 composition). -/
theorem sum_perm (n : ℕ) (σ : Equiv.Perm (Fin n)) (g : Fin n → ℝ) :
    ∑ i, g (σ i) = ∑ i, g i :=
  Equiv.sum_comp σ g

/-- counting form of `sum_perm`: the number of positions carrying character `c` is preserved. -/
theorem count_perm (n : ℕ) (σ : Equiv.Perm (Fin n)) (x : Fin n → ℕ) (c : ℕ) :
    (Finset.univ.filter (fun i => x (σ i) = c)).card = (Finset.univ.filter (fun i => x i = c)).card := by
  apply Finset.card_bij (fun i _ => σ i)
  · intro i hi; simpa using hi
  · intro i _ j _ h; exact σ.injective h
  · intro j hj
    refine ⟨σ.symm j, ?_, by simp⟩
    simpa using hj

/-- mixed-radix uniqueness used by reshape, `itertools.product` iterators and the guarded
    quotient/remainder registry: e*n + j with 0 ≤ j < n determines e and j. -/
theorem divmod_unique (e j e' j' n : ℤ) (hn : 0 < n) (hj : 0 ≤ j ∧ j < n) (hj' : 0 ≤ j' ∧ j' < n)
    (h : e * n + j = e' * n + j') : e = e' ∧ j = j' := by
  have h1 : (e - e') * n = j' - j := by ring_nf; linarith
  have : e - e' = 0 := by
    by_contra hne
    rcases lt_or_gt_of_ne hne with hlt | hgt
    · have : (e - e') * n ≤ -1 * n := by nlinarith
      nlinarith
    · have : (e - e') * n ≥ 1 * n := by nlinarith
      nlinarith
  constructor
  · linarith
  · have : (e - e') * n = 0 := by rw [this]; ring
    linarith

/-- the instance form used by the product-iterator ghost facts: quotient and remainder of
    e*n + j (0 ≤ j < n) by n are e and j (Euclidean division on ℤ, as z3's div/mod). -/
theorem ediv_emod_of_decomp (e j n : ℤ) (hn : 0 < n) (hj0 : 0 ≤ j) (hjn : j < n) :
    (e * n + j) / n = e ∧ (e * n + j) % n = j := by
  constructor
  · rw [add_comm, Int.add_mul_ediv_right _ _ (ne_of_gt hn), Int.ediv_eq_zero_of_lt hj0 hjn, zero_add]
  · rw [add_comm, Int.add_mul_emod_self_right, Int.emod_eq_of_lt hj0 hjn]

/-- one-hot selection: Σ_c x_c * g c = g k for a one-hot column x = e_k (C04/C05 aggregation). -/
theorem sum_onehot_select (A : ℕ) (k : Fin A) (g : Fin A → ℝ) :
    ∑ c, (if c = k then (1 : ℝ) else 0) * g c = g k := by
  simp [Finset.sum_ite_eq']
