"""Bounded stand-in for C09 (saturation mutagenesis) -- never counted as proved.

Every case calls the REAL ism.saturation_mutagenesis and compares with explicit single-row forward
passes of the same model on mutants built here at the index level (position p of example n set to
character c), plus an exact (integer / Fraction) re-computation of the documented attribution
    attr[n,c,q] = mean_{selected targets}( d[n,c,q,.] - mean_c' d[n,c',q,.] ),  d = y_hat - y0,
masked by the observed character X[n,c,start+q] unless `hypothetical`.

Models are integer-valued float64 and strictly row-wise:
  'rec'  parameter-free recording model: every output is a packed record of the input row (all L
         character codes) and of the extra-argument rows it was called with, so a mix-up of rows /
         arguments / (character, position) layout cannot cancel (see RecModel);
  'lin'  a small integer-weight relu network with float64 parameters (predict casts X to float64).

Window convention.  `end >= 1` is the exclusive end.  For negative `end` the package's own
convention (ism._edit_distance_one, ersatz.shuffle) is end' = L + 1 + end, i.e. the default -1
means "to the end of the sequence"; that is demanded for end = -1 (documented default).  For
end < -1 the statement does not say which convention holds, so the window [start, L+end) is
accepted as well, as long as the returned values are those of the window actually returned; what
is not accepted is an exception or a result that belongs to no window.
Attributions are only checked for single-tensor outputs (documented restriction).

Input classes beyond "fresh contiguous one-hot int8 X, 1-3 examples" (added by the audit):
  * unknown positions: a sequence entry -1 is an all-zero column of X.  "position p set to character c"
    is then the one-hot column c, and "masked by the observed character" leaves no entry (attribution 0
    at that position unless `hypothetical`);
  * many examples (4-40, in particular > 32 = predict's default batch size, used for y0) with short
    windows and batch sizes that are multiples of A*W (several examples fit in one batch);
  * X as a non-contiguous view (permuted / slice of a larger tensor filled with ones / strided), extra
    arguments as non-contiguous views, extra arguments given as a list, X of dtype uint8 / int32 / int64 /
    bool / float16, device given as torch.device, verbose=True (progress bar sent to a string buffer);
  * raw_outputs=True together with `target` / `hypothetical` (both must be ignored: the statement fixes
    what y0 and y_hat are "with raw outputs");
  * outputs without any trailing dimension (shape (N,), raw only) and outputs carrying a constant offset
    2**30+1 (not representable in float32: a silent down-cast of the stacked predictions is visible);
  * target slices with open (None) and negative bounds.
The references are computed from copies of X / args taken BEFORE the call.
"""
import contextlib
import io
import itertools
import random
from fractions import Fraction

import torch

from tangermeme.ism import saturation_mutagenesis

SCOPE = {
    'quick': 'alphabets 2-5; exhaustive: lengths 1-6 x every window 0<=start<end<=L x {2-D tensor, 3-D tensor, tuple} outputs '
             '(raw; attribution with target/hypothetical rotated) plus every negative-end spelling (end=-1..-L, default call) for lengths 1-5; '
             '600 seeded random cases: lengths 1-30, 1-3 examples, batch sizes in 1..A*W+1 (edges 1, A, W, A*W-1, A*W, A*W+1), '
             'recording and integer relu models, tensor/tuple outputs with 0-2 trailing dims, 0-2 per-example args of rank 1-3, '
             'int/negative int/slice/stepped slice/None targets, raw / attribution / hypothetical, int8/float32/float64 X; '
             'each random case additionally draws independently: unknown (all-zero) positions, identical sequences with different args, '
             'X as permuted/sliced/strided view, strided args, args as list, X dtype uint8/int32/int64/bool/float16, torch.device, verbose, '
             'raw with target/hypothetical passed, 1-D outputs (raw), output offset 2**30+1, open/negative slice bounds, batch sizes '
             '2*A*W, 2*A*W+1, 3*A*W, N*A*W, 10**6; 300 such cases with lengths 1-6 and 1-4 examples run first; then 100 cases with 4-40 examples '
             '(31-34 emphasised), lengths 1-4, windows of width 1-3; the rotations of the exhaustive parts are drawn independently '
             '(examples, batch size, model, args, mode, target no longer correlated)',
    'thorough': 'alphabets 2-5; exhaustive: lengths 1-9 x every window x 3 output kinds x {raw, attr, hyp} plus every negative-end '
                'spelling for lengths 1-8; 20000 seeded random cases as in quick (lengths 1-30) with the same independently drawn options; '
                '2000 short-option cases first, then 800 cases with 4-40 examples',
}

F64 = torch.float64


# ----------------------------------------------------------------------------- models
def _prod(shape):
    p = 1
    for s in shape:
        p *= s
    return p


class RecModel(torch.nn.Module):
    """parameter-free, row-wise, integer-valued recording model.
    feature vector f = [character codes 1..A of the row at every position, every value of every extra
    argument row]; packed[s] = base-10 packing of 4 consecutive features; an output with P flat slots is
        P >= S:  o[j] = packed[j % S] * (1 + j // S) + 7 j + 3 k          (every packed slot appears verbatim)
        P <  S:  o[j] = sum_{s = j mod P} packed[s] * w(s // P) + 7 j + 3 k
    with w(t) = 7**t when `exact` (raw mode, compared with torch.equal: two different single-character
    mutants never share an output, since 7 does not divide digit differences * powers of 10) and
    w(t) = 1 + t otherwise (attribution modes: keeps magnitudes ~1e5 so that float64 rounding of the
    function under test stays far below the smallest possible mix-up)."""

    def __init__(self, A, shapes, as_tuple, exact=True, offset=0):
        super().__init__()
        self.A, self.shapes, self.as_tuple, self.exact = A, [tuple(s) for s in shapes], as_tuple, exact
        self.offset = float(offset)          # constant added to every output (2**30+1: lost by a float32 down-cast)
        self._M = {}

    def forward(self, X, *args):
        B = X.shape[0]
        Xf = X.to(F64)
        codes = (Xf * torch.arange(1, self.A + 1, dtype=F64)[None, :, None]).sum(dim=1)
        f = torch.cat([codes] + [a.reshape(B, -1).to(F64) for a in args], dim=1)
        pad = (-f.shape[1]) % 4
        if pad:
            f = torch.cat([f, torch.zeros(B, pad, dtype=F64)], dim=1)
        w = torch.tensor([10.0 ** i for i in range(4)], dtype=F64)
        packed = (f.reshape(B, -1, 4) * w).sum(dim=2)
        S = packed.shape[1]
        outs = []
        for k, shp in enumerate(self.shapes):
            P = _prod(shp)
            M = self._M.get((S, k))
            if M is None:
                M = torch.zeros(S, P, dtype=F64)
                if P >= S:
                    for j in range(P):
                        M[j % S, j] = 1 + j // S
                else:
                    for s_ in range(S):
                        M[s_, s_ % P] = float(7 ** (s_ // P)) if self.exact else float(1 + s_ // P)
                self._M[(S, k)] = M
            o = packed @ M + 7.0 * torch.arange(P, dtype=F64) + 3.0 * k + self.offset
            outs.append(o.reshape(B, *shp))
        return tuple(outs) if self.as_tuple else outs[0]


class LinModel(torch.nn.Module):
    """integer-weight relu network with float64 parameters (row-wise, exact in float64)"""

    def __init__(self, A, L, shapes, as_tuple, n_arg_feats, seed, offset=0):
        super().__init__()
        self.offset = float(offset)
        g = random.Random(seed)
        H = 6
        self.shapes, self.as_tuple = [tuple(s) for s in shapes], as_tuple

        def mat(r, c, lo, hi):
            return torch.nn.Parameter(torch.tensor([[float(g.randint(lo, hi)) for _ in range(c)] for _ in range(r)],
                                                   dtype=F64).reshape(r, c), requires_grad=False)
        self.W1 = mat(H, A * L, -3, 3)
        self.b1 = mat(1, H, -2, 2)
        self.Wa = mat(H, max(n_arg_feats, 1), -2, 2)
        self.W2 = torch.nn.ParameterList([mat(_prod(s), H, -3, 3) for s in self.shapes])
        self.n_arg_feats = n_arg_feats

    def forward(self, X, *args):
        B = X.shape[0]
        h = X.reshape(B, -1).to(F64) @ self.W1.T + self.b1
        if self.n_arg_feats:
            a = torch.cat([x.reshape(B, -1).to(F64) for x in args], dim=1)
            h = h + a @ self.Wa.T
        h = torch.relu(h)
        outs = [(h @ w.T + self.offset).reshape(B, *s) for w, s in zip(self.W2, self.shapes)]
        return tuple(outs) if self.as_tuple else outs[0]


def _x_storage(layout, N, A, L, dt):
    """a zero (N, A, L) tensor of the requested dtype whose storage is laid out as `layout`; for the views the
    surrounding storage is filled with ones, so that reading outside the view is visible"""
    if layout == 'perm':
        return torch.zeros(N, L, A, dtype=dt).permute(0, 2, 1)
    if layout == 'slice':
        big = torch.ones(N + 2, A + 1, L + 3, dtype=dt)
        X = big[1:N + 1, :A, 2:L + 2]
        X[...] = 0
        return X
    if layout == 'step':
        big = torch.ones(N, A, 2 * L, dtype=dt)
        X = big[:, :, ::2]
        X[...] = 0
        return X
    return torch.zeros(N, A, L, dtype=dt)


def build(case):
    A, seqs = case['A'], case['seqs']
    N, L = len(seqs), len(seqs[0])
    X = _x_storage(case.get('xlayout', 'contig'), N, A, L, getattr(torch, case.get('xdtype', 'int8')))
    for n, s in enumerate(seqs):
        for p, c in enumerate(s):
            if c >= 0:                       # -1: unknown character, all-zero column
                X[n, c, p] = 1
    g = random.Random(case['seed'])
    args = []
    for shp, dt in case.get('args', []):
        numel = N * _prod(shp)
        t = torch.tensor([g.randint(0, 9) for _ in range(numel)], dtype=getattr(torch, dt)).reshape(N, *shp)
        if case.get('arglayout') == 'strided':
            big = torch.full((N, *shp, 2), 7, dtype=t.dtype)
            big[..., 0] = t
            t = big[..., 0]
        args.append(t)
    n_arg_feats = sum(_prod(shp) for shp, _ in case.get('args', []))
    m = case['model']
    if m['type'] == 'rec':
        model = RecModel(A, m['shapes'], m['tuple'], exact=(case['mode'] == 'raw'), offset=m.get('offset', 0))
    else:
        model = LinModel(A, L, m['shapes'], m['tuple'], n_arg_feats, case['seed'], offset=m.get('offset', 0))
    return X, tuple(args), model


def _target(case):
    t = case.get('target')
    if t is None:
        return None
    if t[0] == 'int':
        return t[1]
    return slice(t[1], t[2], t[3])


def _windows_allowed(L, start, end):
    """list of admissible exclusive ends for the (start, end) spelling (see module docstring)"""
    if end is None or end == -1:
        return [L]
    if end >= 0:
        return [end]
    return [e for e in (L + 1 + end, L + end) if e > start]


# ----------------------------------------------------------------------------- the check
def check_ism(case):
    out = []
    X, args, model = build(case)
    N, A, L = X.shape
    mode = case['mode']                      # 'raw' | 'attr' | 'hyp'
    as_tuple = case['model']['tuple']
    shapes = [tuple(s) for s in case['model']['shapes']]
    kw = dict(device='cpu', batch_size=case['batch_size'])
    start = 0
    if case.get('window') != 'default':
        kw['start'], kw['end'] = case['start'], case['end']
        start = case['start']
    if case.get('device_obj'):
        kw['device'] = torch.device('cpu')
    if case.get('verbose'):
        kw['verbose'] = True
    # references are computed from copies taken before the call
    Xin, argsin = X, args
    X = Xin.clone(memory_format=torch.contiguous_format)
    args = tuple(a.clone(memory_format=torch.contiguous_format) for a in argsin)
    if args:
        kw['args'] = list(argsin) if case.get('args_list') else argsin
    if mode == 'raw' and case.get('raw_extra'):
        # must be ignored with raw outputs
        kw['target'] = _target({'target': case['raw_extra'].get('target')})
        kw['hypothetical'] = bool(case['raw_extra'].get('hyp'))
    if mode != 'raw':
        kw['target'] = _target(case)
        kw['hypothetical'] = (mode == 'hyp')
        if case.get('explicit_raw_false'):
            kw['raw_outputs'] = False
    else:
        kw['raw_outputs'] = True
    ends = _windows_allowed(L, start, kw.get('end'))
    try:
        with contextlib.redirect_stderr(io.StringIO()):
            res = saturation_mutagenesis(model, Xin, **kw)
    except Exception as e:
        return ['saturation_mutagenesis raised an exception on a valid request (window inside the sequence, batch size >= 1): %s; start=%s end=%s L=%d %s outputs: %s'
                % (type(e).__name__, kw.get('start', 'default'), kw.get('end', 'default'), L, 'tuple' if as_tuple else 'tensor', str(e)[:90])]

    # ---- window actually returned
    if mode == 'raw':
        if not (isinstance(res, tuple) and len(res) == 2):
            return ['raw_outputs=True did not return (y0, y_hat)']
        y0, y_hat = res
        if as_tuple:
            if not isinstance(y0, (list, tuple)) or not isinstance(y_hat, (list, tuple)) or len(y0) != len(shapes) or len(y_hat) != len(shapes):
                return ['tuple-output model: y0 / y_hat are not sequences of %d tensors' % len(shapes)]
            y0s, yhs = list(y0), list(y_hat)
        else:
            if not isinstance(y0, torch.Tensor) or not isinstance(y_hat, torch.Tensor):
                return ['tensor-output model: y0 / y_hat are not tensors']
            y0s, yhs = [y0], [y_hat]
        Wobs = yhs[0].shape[2] if yhs[0].dim() >= 3 else None
    else:
        if not isinstance(res, torch.Tensor) or res.dim() != 3:
            return ['attribution is not a 3-D tensor: %s' % (tuple(res.shape) if isinstance(res, torch.Tensor) else type(res).__name__,)]
        Wobs = res.shape[2]
    end = None
    for e in ends:
        if Wobs == e - start:
            end = e
    if end is None:
        return ['the number of positions returned does not match the requested window [start, end) under any accepted convention: got %s, expected %s for start=%s end=%s L=%d' % (Wobs, [e - start for e in ends], start, kw.get('end'), L)]
    W = end - start

    # ---- explicit forward passes (single rows), built at the index level
    def fwd(x, n):
        with torch.no_grad():
            r = model(x.unsqueeze(0), *[a[n:n + 1] for a in args])
        return list(r) if as_tuple else [r]

    ref0 = [fwd(X[n], n) for n in range(N)]                     # [n][o] -> (1, *shape)
    ref = {}
    for n in range(N):
        for q in range(W):
            for c in range(A):
                x = X[n].clone()
                x[:, start + q] = 0
                x[c, start + q] = 1
                ref[(n, c, q)] = fwd(x, n)

    if mode == 'raw':
        for o, shp in enumerate(shapes):
            if tuple(y0s[o].shape) != (N,) + shp:
                out.append('y0[%d] shape %s != %s' % (o, tuple(y0s[o].shape), (N,) + shp))
                continue
            if tuple(yhs[o].shape) != (N, A, W) + shp:
                out.append('y_hat[%d] shape %s != %s' % (o, tuple(yhs[o].shape), (N, A, W) + shp))
                continue
            for n in range(N):
                if not torch.equal(y0s[o][n].to(F64), ref0[n][o][0]):
                    out.append('y0[%d][%d] is not the model on original sequence %d (with its own args)' % (o, n, n))
            bad = [(n, c, q) for (n, c, q), r in ref.items() if not torch.equal(yhs[o][n, c, q].to(F64), r[o][0])]
            if bad:
                n, c, q = bad[0]
                # say which mutant it actually is, if any
                who = [k for k, r in ref.items() if torch.equal(yhs[o][n, c, q].to(F64), r[o][0])]
                out.append('y_hat[n,c,p-start] is not the model output on example n with position p set to character c: '
                           'output %d, y_hat[n=%d,c=%d,p-start=%d] should be example %d with position %d set to character %d '
                           '(%d of %d entries wrong; that entry equals mutant (n,c,q)=%s)'
                           % (o, n, c, q, n, start + q, c, len(bad), len(ref), who[:2] if who else 'none'))
        return out

    # ---- attribution: exact recomputation from the explicit passes
    if tuple(res.shape) != (N, A, W):
        return ['attribution shape %s != %s' % (tuple(res.shape), (N, A, W))]
    tgt = _target(case)
    def sel(t):                                  # t: (1, T, *D) -> flat python ints of the selected targets
        v = t[0]
        v = v if tgt is None else v[tgt]
        return [int(z) for z in v.reshape(-1).tolist()]
    got = res.to(F64)
    nbad, first, scale = 0, None, 1
    for n in range(N):
        b0 = sel(ref0[n][0])
        K = len(b0)
        if K == 0:
            return ['harness: empty target selection']
        for q in range(W):
            d = [[v - b for v, b in zip(sel(ref[(n, c, q)][0]), b0)] for c in range(A)]
            colsum = [sum(d[c][k] for c in range(A)) for k in range(K)]
            scale = max(1, max(abs(z) for row in d for z in row))
            for c in range(A):
                exp = Fraction(sum(A * d[c][k] - colsum[k] for k in range(K)), A * K)
                if mode == 'attr' and int(X[n, c, start + q]) != 1:
                    exp = Fraction(0)
                g = float(got[n, c, q])
                # float64 rounding of the function under test: a few ulp of the largest magnitude per term
                if not abs(g - float(exp)) <= 64 * 2.3e-16 * max(1.0, float(scale)) * (K + A):
                    nbad += 1
                    if first is None:
                        first = (n, c, q, g, float(exp))
    if nbad:
        out.append('attribution differs from mean over selected targets of (d - mean_c d), d = y_hat - y0, masked unless hypothetical: '
                   'attr[n=%d,c=%d,p-start=%d] = %r, documented value %r (%d of %d entries wrong; mode=%s target=%s)'
                   % (first + (nbad, N * A * W, mode, case.get('target'))))
    return out


def replay(case):
    if case.get('kind') == 'ism':
        return check_ism(case)
    return ['unknown replay kind']


# ----------------------------------------------------------------------------- enumeration
def _classify(case, viol):
    """stable finding key: re-run the same case with the window spelled with its positive end; if that
    passes, the negative-end spelling is what breaks; otherwise name the output kind."""
    L = len(case['seqs'][0])
    neg = case.get('window') == 'default' or case['end'] < 0
    if neg and not (case.get('window') == 'default' or (case['start'] == 0 and case['end'] == -1)):
        c2 = dict(case)
        c2['end'] = L + 1 + case['end']
        if c2['end'] > c2['start'] and not check_ism(c2):
            return 'negative-end-window-raises' if any('raised' in v for v in viol) else 'negative-end-window-wrong'
    if case['model']['tuple']:
        return 'tuple-output-reshape'
    if case['mode'] != 'raw':
        return 'attribution-mismatch'
    return 'tensor-output-mismatch'


def _do(rep, case, key, section, sample=False):
    viol = check_ism(case)
    rep.case(key, nontrivial=True, sample=case if sample else None, section=section)
    if viol:
        f = _classify(case, viol)
        for v in viol[:3]:
            rep.violation(v, case, finding=f)


_OUT_KINDS = (
    ('t2', dict(shapes=[[3]], tuple=False)),
    ('t3', dict(shapes=[[2, 3]], tuple=False)),
    ('tu', dict(shapes=[[2], [3, 2]], tuple=True)),
)


def _rand_target(g, T):
    r = g.random()
    if r < 0.25:
        return None
    if r < 0.5:
        return ['int', g.randrange(T)]
    if r < 0.58:
        return ['int', -g.randint(1, T)]
    if r < 0.72:
        # open / negative bounds (always a non-empty selection)
        return g.choice([['slice', None, None, None], ['slice', None, g.randint(1, T), None], ['slice', g.randrange(T), None, None],
                         ['slice', -g.randint(1, T), None, None], ['slice', None, -g.randint(1, T - 1) if T > 1 else None, None],
                         ['slice', None, None, 2], ['slice', -T, T, g.choice([None, 2])]])
    a = g.randrange(T)
    b = g.randint(a + 1, T)
    step = g.choice([None, None, 1, 2])
    return ['slice', a, b, step]


_XDT_OLD = ['int8', 'int8', 'float32', 'float64']
_XDT_NEW = ['uint8', 'int32', 'int64', 'bool', 'float16']
_MANY_N = [4, 5, 7, 8, 9, 16, 31, 32, 33, 33, 34, 40]


def _rand_case(g, flavour='long'):
    """one seeded random case.  flavour: 'long' lengths 1-30 and 1-3 examples; 'short' lengths 1-6, 1-4 examples,
    every option drawn with a higher probability; 'many' 4-40 examples, lengths 1-4, windows of width <= 3"""
    hi = flavour != 'long'                   # options more likely
    A = g.randint(2, 5)
    if flavour == 'many':
        L, N = g.randint(1, 4), g.choice(_MANY_N)
    elif flavour == 'short':
        L, N = g.randint(1, 6), g.randint(1, 4)
    else:
        L = g.choice([1, 2, 3, 30]) if g.random() < 0.15 else g.randint(1, 30)
        N = g.randint(1, 3)
    unknown = g.random() < (0.4 if hi else 0.25)
    seqs = [[(-1 if unknown and g.random() < 0.3 else g.randrange(A)) for _ in range(L)] for _ in range(N)]
    if N > 1 and g.random() < 0.12:
        seqs = [list(seqs[0]) for _ in range(N)]          # identical sequences: only the args tell the examples apart
    case = {'kind': 'ism', 'A': A, 'seqs': seqs, 'seed': g.randrange(10 ** 6),
            'xdtype': g.choice(_XDT_NEW) if g.random() < (0.4 if hi else 0.25) else g.choice(_XDT_OLD)}
    r = g.random()
    if r < 0.12:
        case['window'] = 'default'
        start, end = 0, L
    elif r < 0.3:
        start = g.randrange(L)
        e_abs = g.randint(start + 1, L)
        case['start'], case['end'] = start, e_abs - L - 1
        end = e_abs
    else:
        start = g.randrange(L)
        end = g.randint(start + 1, L if flavour != 'many' else min(L, start + 3))
        if g.random() < 0.2 and flavour != 'many':
            end = L
        case['start'], case['end'] = start, end
    W = end - start
    bss = [1, 2, A, W, A * W - 1, A * W, A * W + 1, g.randint(1, A * L + 1), g.randint(1, A * L + 1),
           2 * A * W, 2 * A * W + 1, 3 * A * W, N * A * W, 10 ** 6]
    case['batch_size'] = max(1, g.choice(bss[9:] if (flavour == 'many' and g.random() < 0.5) else bss))
    as_tuple = g.random() < 0.35
    n_out = g.randint(1, 3) if as_tuple else 1
    shapes = []
    for _ in range(n_out):
        T = g.randint(1, 4)
        shapes.append([T] + [g.randint(1, 3) for _ in range(g.choice([0, 0, 1, 1, 2]))])
    case['model'] = {'type': g.choice(['rec', 'rec', 'lin']), 'shapes': shapes, 'tuple': as_tuple}
    if g.random() < 0.3:
        case['model']['offset'] = 2 ** 30 + 1
    p_args = [0, 0, 1, 2] if flavour == 'long' else [0, 1, 1, 2]
    case['args'] = [[[g.randint(1, 3) for _ in range(g.randint(0, 2))], g.choice(['float64', 'int64'])] for _ in range(g.choice(p_args))]
    if case['args']:
        if g.random() < 0.3:
            case['arglayout'] = 'strided'
        if g.random() < 0.3:
            case['args_list'] = True
    if g.random() < 0.35:
        case['xlayout'] = g.choice(['perm', 'slice', 'step'])
    if g.random() < 0.25:
        case['device_obj'] = True
    if g.random() < 0.04:
        case['verbose'] = True
    if as_tuple:
        case['mode'] = 'raw'
    else:
        case['mode'] = g.choice(['raw', 'attr', 'hyp'])
        if case['mode'] != 'raw':
            case['target'] = _rand_target(g, shapes[0][0])
            case['explicit_raw_false'] = g.random() < 0.3
    if case['mode'] == 'raw':
        if g.random() < 0.3:
            case['raw_extra'] = {'target': _rand_target(g, min(sh[0] for sh in shapes)), 'hyp': g.random() < 0.5}
        elif g.random() < 0.12:
            # outputs without any trailing dimension: (N,) per output
            k = g.randrange(len(shapes))
            case['model']['shapes'][k] = []
    return case


def run(rep):
    torch.set_num_threads(1)
    thorough = rep.tier == 'thorough'
    g = rep.rng
    maxL_ex = 9 if thorough else 6
    maxL_neg = 8 if thorough else 5
    # -- cheap cases of the classes added by the audit first: short sequences with every option, then many examples
    for k in range(2000 if thorough else 300):
        if rep.out_of_time():
            rep.note('time budget reached after %d short-option cases' % k)
            return
        _do(rep, _rand_case(g, 'short'), ('opt', k), 'short-options', sample=(k < 1))
    for k in range(800 if thorough else 100):
        if rep.out_of_time():
            rep.note('time budget reached after %d many-example cases' % k)
            return
        _do(rep, _rand_case(g, 'many'), ('many', k), 'many-examples', sample=(k < 1))
    rot = 0
    # -- exhaustive small scope: every window, every output kind (the other coordinates drawn independently)
    for A in range(2, 6):
        for L in range(1, maxL_ex + 1):
            for start in range(0, L):
                for end in range(start + 1, L + 1):
                    for ok, om in _OUT_KINDS:
                        if rep.out_of_time():
                            rep.note('time budget reached inside the exhaustive window part')
                            return
                        N = g.randint(1, 2)
                        seqs = [[g.randrange(A) for _ in range(L)] for _ in range(N)]
                        W = end - start
                        bs = g.choice([1, A, W, A * W - 1, A * W, A * W + 1, 32])
                        bs = max(1, bs)
                        base = {'kind': 'ism', 'A': A, 'seqs': seqs, 'start': start, 'end': end, 'batch_size': bs,
                                'model': dict(om, type='rec' if g.random() < 2 / 3 else 'lin'),
                                'args': [[[2], 'float64']] if g.random() < 0.25 else [],
                                'seed': g.randrange(10 ** 6), 'xdtype': 'int8'}
                        modes = ['raw']
                        if not om['tuple']:
                            modes = ['raw', 'attr', 'hyp'] if thorough else ['raw', g.choice(['attr', 'hyp'])]
                        for mode in modes:
                            case = dict(base, mode=mode)
                            if mode != 'raw':
                                case['target'] = g.choice([None, ['int', g.randrange(om['shapes'][0][0])], ['slice', 0, 2, None]])
                            _do(rep, case, ('ex', A, L, start, end, ok, mode), 'exhaustive-windows', sample=(rot == 5))
                        rot += 1
    rep.mark_exhaustive('every window 0<=start<end<=L for lengths 1-%d, alphabets 2-5, three output kinds' % maxL_ex)
    # -- every negative-end spelling + the default call
    for A in (2, 4, 5) if not thorough else range(2, 6):
        for L in range(1, maxL_neg + 1):
            spellings = [('default', None, None)] + [('neg', s, e) for s in range(L) for e in range(-1, -L - 1, -1) if L + 1 + e > s]
            for ok, om in _OUT_KINDS:
                for (wk, s, e) in spellings:
                    if rep.out_of_time():
                        rep.note('time budget reached inside the negative-end part')
                        return
                    N = g.randint(1, 2)
                    seqs = [[g.randrange(A) for _ in range(L)] for _ in range(N)]
                    case = {'kind': 'ism', 'A': A, 'seqs': seqs, 'batch_size': g.choice([1, 3, 32]),
                            'model': dict(om, type='rec'), 'args': [], 'seed': g.randrange(10 ** 6), 'xdtype': 'int8',
                            'mode': 'raw' if (om['tuple'] or g.random() < 0.5) else g.choice(['attr', 'hyp']), 'target': None}
                    if wk == 'default':
                        case['window'] = 'default'
                    else:
                        case['start'], case['end'] = s, e
                    _do(rep, case, ('neg', A, L, wk, s, e, ok), 'negative-end-and-default')
                    rot += 1
    rep.mark_exhaustive('every negative-end spelling and the default call for lengths 1-%d' % maxL_neg)
    # -- seeded random larger cases
    n_rand = 20000 if thorough else 600
    for k in range(n_rand):
        if rep.out_of_time():
            rep.note('time budget reached after %d random cases' % k)
            break
        _do(rep, _rand_case(g, 'long'), ('rnd', k), 'random', sample=(k < 2))
