"""Bounded stand-in for C09 (saturation mutagenesis) -- never counted as proved.

Every case calls the REAL ism.saturation_mutagenesis and compares with explicit single-row forward
passes of the same model on mutants built here at the index level (position p of example n set to
character c), plus an exact (integer / Fraction) re-computation of the documented attribution
    attr[n,c,q] = mean_{selected targets}( d[n,c,q,.] - mean_c' d[n,c',q,.] ),  d = y_hat - y0,
masked by the observed character X[n,c,start+q] unless `hypothetical`.

Models are integer-valued float64 and strictly row-wise:
  'rec'  parameter-free recording model: every output is a packed record of the input row (all L
         character codes) and of the extra-argument rows it was called with, so a mix-up of rows /
         arguments / (character, position) layout cannot cancel (see RecModel);
  'lin'  a small integer-weight relu network with float64 parameters (predict casts X to float64).

Window convention.  `end >= 1` is the exclusive end.  For negative `end` the package's own
convention (ism._edit_distance_one, ersatz.shuffle) is end' = L + 1 + end, i.e. the default -1
means "to the end of the sequence"; that is demanded for end = -1 (documented default).  For
end < -1 the statement does not say which convention holds, so the window [start, L+end) is
accepted as well, as long as the returned values are those of the window actually returned; what
is not accepted is an exception or a result that belongs to no window.
Attributions are only checked for single-tensor outputs (documented restriction).
"""
import itertools
import random
from fractions import Fraction

import torch

from tangermeme.ism import saturation_mutagenesis

SCOPE = {
    'quick': 'alphabets 2-5; exhaustive: lengths 1-6 x every window 0<=start<end<=L x {2-D tensor, 3-D tensor, tuple} outputs '
             '(raw; attribution with target/hypothetical rotated) plus every negative-end spelling (end=-1..-L, default call) for lengths 1-5; '
             '600 seeded random cases: lengths 1-30, 1-3 examples, batch sizes in 1..A*W+1 (edges 1, A, W, A*W-1, A*W, A*W+1), '
             'recording and integer relu models, tensor/tuple outputs with 0-2 trailing dims, 0-2 per-example args of rank 1-3, '
             'int/negative int/slice/stepped slice/None targets, raw / attribution / hypothetical, int8/float32/float64 X',
    'thorough': 'alphabets 2-5; exhaustive: lengths 1-9 x every window x 3 output kinds x {raw, attr, hyp} plus every negative-end '
                'spelling for lengths 1-8; 20000 seeded random cases as in quick (lengths 1-30)',
}

F64 = torch.float64


# ----------------------------------------------------------------------------- models
def _prod(shape):
    p = 1
    for s in shape:
        p *= s
    return p


class RecModel(torch.nn.Module):
    """parameter-free, row-wise, integer-valued recording model.
    feature vector f = [character codes 1..A of the row at every position, every value of every extra
    argument row]; packed[s] = base-10 packing of 4 consecutive features; an output with P flat slots is
        P >= S:  o[j] = packed[j % S] * (1 + j // S) + 7 j + 3 k          (every packed slot appears verbatim)
        P <  S:  o[j] = sum_{s = j mod P} packed[s] * w(s // P) + 7 j + 3 k
    with w(t) = 7**t when `exact` (raw mode, compared with torch.equal: two different single-character
    mutants never share an output, since 7 does not divide digit differences * powers of 10) and
    w(t) = 1 + t otherwise (attribution modes: keeps magnitudes ~1e5 so that float64 rounding of the
    function under test stays far below the smallest possible mix-up)."""

    def __init__(self, A, shapes, as_tuple, exact=True):
        super().__init__()
        self.A, self.shapes, self.as_tuple, self.exact = A, [tuple(s) for s in shapes], as_tuple, exact

    def forward(self, X, *args):
        B = X.shape[0]
        Xf = X.to(F64)
        codes = (Xf * torch.arange(1, self.A + 1, dtype=F64)[None, :, None]).sum(dim=1)
        f = torch.cat([codes] + [a.reshape(B, -1).to(F64) for a in args], dim=1)
        pad = (-f.shape[1]) % 4
        if pad:
            f = torch.cat([f, torch.zeros(B, pad, dtype=F64)], dim=1)
        w = torch.tensor([10.0 ** i for i in range(4)], dtype=F64)
        packed = (f.reshape(B, -1, 4) * w).sum(dim=2)
        S = packed.shape[1]
        outs = []
        for k, shp in enumerate(self.shapes):
            P = _prod(shp)
            M = torch.zeros(S, P, dtype=F64)
            if P >= S:
                for j in range(P):
                    M[j % S, j] = 1 + j // S
            else:
                for s_ in range(S):
                    M[s_, s_ % P] = float(7 ** (s_ // P)) if self.exact else float(1 + s_ // P)
            o = packed @ M + 7.0 * torch.arange(P, dtype=F64) + 3.0 * k
            outs.append(o.reshape(B, *shp))
        return tuple(outs) if self.as_tuple else outs[0]


class LinModel(torch.nn.Module):
    """integer-weight relu network with float64 parameters (row-wise, exact in float64)"""

    def __init__(self, A, L, shapes, as_tuple, n_arg_feats, seed):
        super().__init__()
        g = random.Random(seed)
        H = 6
        self.shapes, self.as_tuple = [tuple(s) for s in shapes], as_tuple

        def mat(r, c, lo, hi):
            return torch.nn.Parameter(torch.tensor([[float(g.randint(lo, hi)) for _ in range(c)] for _ in range(r)],
                                                   dtype=F64).reshape(r, c), requires_grad=False)
        self.W1 = mat(H, A * L, -3, 3)
        self.b1 = mat(1, H, -2, 2)
        self.Wa = mat(H, max(n_arg_feats, 1), -2, 2)
        self.W2 = torch.nn.ParameterList([mat(_prod(s), H, -3, 3) for s in self.shapes])
        self.n_arg_feats = n_arg_feats

    def forward(self, X, *args):
        B = X.shape[0]
        h = X.reshape(B, -1).to(F64) @ self.W1.T + self.b1
        if self.n_arg_feats:
            a = torch.cat([x.reshape(B, -1).to(F64) for x in args], dim=1)
            h = h + a @ self.Wa.T
        h = torch.relu(h)
        outs = [(h @ w.T).reshape(B, *s) for w, s in zip(self.W2, self.shapes)]
        return tuple(outs) if self.as_tuple else outs[0]


def build(case):
    A, seqs = case['A'], case['seqs']
    N, L = len(seqs), len(seqs[0])
    X = torch.zeros(N, A, L, dtype=getattr(torch, case.get('xdtype', 'int8')))
    for n, s in enumerate(seqs):
        for p, c in enumerate(s):
            X[n, c, p] = 1
    g = random.Random(case['seed'])
    args = []
    for shp, dt in case.get('args', []):
        numel = N * _prod(shp)
        t = torch.tensor([g.randint(0, 9) for _ in range(numel)], dtype=getattr(torch, dt)).reshape(N, *shp)
        args.append(t)
    n_arg_feats = sum(_prod(shp) for shp, _ in case.get('args', []))
    m = case['model']
    if m['type'] == 'rec':
        model = RecModel(A, m['shapes'], m['tuple'], exact=(case['mode'] == 'raw'))
    else:
        model = LinModel(A, L, m['shapes'], m['tuple'], n_arg_feats, case['seed'])
    return X, tuple(args), model


def _target(case):
    t = case.get('target')
    if t is None:
        return None
    if t[0] == 'int':
        return t[1]
    return slice(t[1], t[2], t[3])


def _windows_allowed(L, start, end):
    """list of admissible exclusive ends for the (start, end) spelling (see module docstring)"""
    if end is None or end == -1:
        return [L]
    if end >= 0:
        return [end]
    return [e for e in (L + 1 + end, L + end) if e > start]


# ----------------------------------------------------------------------------- the check
def check_ism(case):
    out = []
    X, args, model = build(case)
    N, A, L = X.shape
    mode = case['mode']                      # 'raw' | 'attr' | 'hyp'
    as_tuple = case['model']['tuple']
    shapes = [tuple(s) for s in case['model']['shapes']]
    kw = dict(device='cpu', batch_size=case['batch_size'])
    start = 0
    if case.get('window') != 'default':
        kw['start'], kw['end'] = case['start'], case['end']
        start = case['start']
    if args:
        kw['args'] = args
    if mode != 'raw':
        kw['target'] = _target(case)
        kw['hypothetical'] = (mode == 'hyp')
        if case.get('explicit_raw_false'):
            kw['raw_outputs'] = False
    else:
        kw['raw_outputs'] = True
    ends = _windows_allowed(L, start, kw.get('end'))
    try:
        res = saturation_mutagenesis(model, X, **kw)
    except Exception as e:
        return ['saturation_mutagenesis raised an exception on a valid request (window inside the sequence, batch size >= 1): %s; start=%s end=%s L=%d %s outputs: %s'
                % (type(e).__name__, kw.get('start', 'default'), kw.get('end', 'default'), L, 'tuple' if as_tuple else 'tensor', str(e)[:90])]

    # ---- window actually returned
    if mode == 'raw':
        if not (isinstance(res, tuple) and len(res) == 2):
            return ['raw_outputs=True did not return (y0, y_hat)']
        y0, y_hat = res
        if as_tuple:
            if not isinstance(y0, (list, tuple)) or not isinstance(y_hat, (list, tuple)) or len(y0) != len(shapes) or len(y_hat) != len(shapes):
                return ['tuple-output model: y0 / y_hat are not sequences of %d tensors' % len(shapes)]
            y0s, yhs = list(y0), list(y_hat)
        else:
            if not isinstance(y0, torch.Tensor) or not isinstance(y_hat, torch.Tensor):
                return ['tensor-output model: y0 / y_hat are not tensors']
            y0s, yhs = [y0], [y_hat]
        Wobs = yhs[0].shape[2] if yhs[0].dim() >= 3 else None
    else:
        if not isinstance(res, torch.Tensor) or res.dim() != 3:
            return ['attribution is not a 3-D tensor: %s' % (tuple(res.shape) if isinstance(res, torch.Tensor) else type(res).__name__,)]
        Wobs = res.shape[2]
    end = None
    for e in ends:
        if Wobs == e - start:
            end = e
    if end is None:
        return ['the number of positions returned does not match the requested window [start, end) under any accepted convention: got %s, expected %s for start=%s end=%s L=%d' % (Wobs, [e - start for e in ends], start, kw.get('end'), L)]
    W = end - start

    # ---- explicit forward passes (single rows), built at the index level
    def fwd(x, n):
        with torch.no_grad():
            r = model(x.unsqueeze(0), *[a[n:n + 1] for a in args])
        return list(r) if as_tuple else [r]

    ref0 = [fwd(X[n], n) for n in range(N)]                     # [n][o] -> (1, *shape)
    ref = {}
    for n in range(N):
        for q in range(W):
            for c in range(A):
                x = X[n].clone()
                x[:, start + q] = 0
                x[c, start + q] = 1
                ref[(n, c, q)] = fwd(x, n)

    if mode == 'raw':
        for o, shp in enumerate(shapes):
            if tuple(y0s[o].shape) != (N,) + shp:
                out.append('y0[%d] shape %s != %s' % (o, tuple(y0s[o].shape), (N,) + shp))
                continue
            if tuple(yhs[o].shape) != (N, A, W) + shp:
                out.append('y_hat[%d] shape %s != %s' % (o, tuple(yhs[o].shape), (N, A, W) + shp))
                continue
            for n in range(N):
                if not torch.equal(y0s[o][n].to(F64), ref0[n][o][0]):
                    out.append('y0[%d][%d] is not the model on original sequence %d (with its own args)' % (o, n, n))
            bad = [(n, c, q) for (n, c, q), r in ref.items() if not torch.equal(yhs[o][n, c, q].to(F64), r[o][0])]
            if bad:
                n, c, q = bad[0]
                # say which mutant it actually is, if any
                who = [k for k, r in ref.items() if torch.equal(yhs[o][n, c, q].to(F64), r[o][0])]
                out.append('y_hat[n,c,p-start] is not the model output on example n with position p set to character c: '
                           'output %d, y_hat[n=%d,c=%d,p-start=%d] should be example %d with position %d set to character %d '
                           '(%d of %d entries wrong; that entry equals mutant (n,c,q)=%s)'
                           % (o, n, c, q, n, start + q, c, len(bad), len(ref), who[:2] if who else 'none'))
        return out

    # ---- attribution: exact recomputation from the explicit passes
    if tuple(res.shape) != (N, A, W):
        return ['attribution shape %s != %s' % (tuple(res.shape), (N, A, W))]
    tgt = _target(case)
    def sel(t):                                  # t: (1, T, *D) -> flat python ints of the selected targets
        v = t[0]
        v = v if tgt is None else v[tgt]
        return [int(z) for z in v.reshape(-1).tolist()]
    got = res.to(F64)
    nbad, first, scale = 0, None, 1
    for n in range(N):
        b0 = sel(ref0[n][0])
        K = len(b0)
        if K == 0:
            return ['harness: empty target selection']
        for q in range(W):
            d = [[v - b for v, b in zip(sel(ref[(n, c, q)][0]), b0)] for c in range(A)]
            colsum = [sum(d[c][k] for c in range(A)) for k in range(K)]
            scale = max(1, max(abs(z) for row in d for z in row))
            for c in range(A):
                exp = Fraction(sum(A * d[c][k] - colsum[k] for k in range(K)), A * K)
                if mode == 'attr' and int(X[n, c, start + q]) != 1:
                    exp = Fraction(0)
                g = float(got[n, c, q])
                # float64 rounding of the function under test: a few ulp of the largest magnitude per term
                if not abs(g - float(exp)) <= 64 * 2.3e-16 * max(1.0, float(scale)) * (K + A):
                    nbad += 1
                    if first is None:
                        first = (n, c, q, g, float(exp))
    if nbad:
        out.append('attribution differs from mean over selected targets of (d - mean_c d), d = y_hat - y0, masked unless hypothetical: '
                   'attr[n=%d,c=%d,p-start=%d] = %r, documented value %r (%d of %d entries wrong; mode=%s target=%s)'
                   % (first + (nbad, N * A * W, mode, case.get('target'))))
    return out


def replay(case):
    if case.get('kind') == 'ism':
        return check_ism(case)
    return ['unknown replay kind']


# ----------------------------------------------------------------------------- enumeration
def _classify(case, viol):
    """stable finding key: re-run the same case with the window spelled with its positive end; if that
    passes, the negative-end spelling is what breaks; otherwise name the output kind."""
    L = len(case['seqs'][0])
    neg = case.get('window') == 'default' or case['end'] < 0
    if neg and not (case.get('window') == 'default' or (case['start'] == 0 and case['end'] == -1)):
        c2 = dict(case)
        c2['end'] = L + 1 + case['end']
        if c2['end'] > c2['start'] and not check_ism(c2):
            return 'negative-end-window-raises' if any('raised' in v for v in viol) else 'negative-end-window-wrong'
    if case['model']['tuple']:
        return 'tuple-output-reshape'
    if case['mode'] != 'raw':
        return 'attribution-mismatch'
    return 'tensor-output-mismatch'


def _do(rep, case, key, section, sample=False):
    viol = check_ism(case)
    rep.case(key, nontrivial=True, sample=case if sample else None, section=section)
    if viol:
        f = _classify(case, viol)
        for v in viol[:3]:
            rep.violation(v, case, finding=f)


_OUT_KINDS = (
    ('t2', dict(shapes=[[3]], tuple=False)),
    ('t3', dict(shapes=[[2, 3]], tuple=False)),
    ('tu', dict(shapes=[[2], [3, 2]], tuple=True)),
)


def _rand_target(g, T):
    r = g.random()
    if r < 0.25:
        return None
    if r < 0.5:
        return ['int', g.randrange(T)]
    if r < 0.58:
        return ['int', -g.randint(1, T)]
    a = g.randrange(T)
    b = g.randint(a + 1, T)
    step = g.choice([None, None, 1, 2])
    return ['slice', a, b, step]


def run(rep):
    thorough = rep.tier == 'thorough'
    g = rep.rng
    maxL_ex = 9 if thorough else 6
    maxL_neg = 8 if thorough else 5
    rot = 0
    # -- exhaustive small scope: every window, every output kind
    for A in range(2, 6):
        for L in range(1, maxL_ex + 1):
            for start in range(0, L):
                for end in range(start + 1, L + 1):
                    for ok, om in _OUT_KINDS:
                        if rep.out_of_time():
                            rep.note('time budget reached inside the exhaustive window part')
                            return
                        N = 1 + (rot % 2)
                        seqs = [[g.randrange(A) for _ in range(L)] for _ in range(N)]
                        W = end - start
                        bs = [1, A, W, A * W - 1, A * W, A * W + 1, 32][rot % 7]
                        bs = max(1, bs)
                        base = {'kind': 'ism', 'A': A, 'seqs': seqs, 'start': start, 'end': end, 'batch_size': bs,
                                'model': dict(om, type='rec' if rot % 3 else 'lin'), 'args': [[[2], 'float64']] if rot % 4 == 1 else [],
                                'seed': g.randrange(10 ** 6), 'xdtype': 'int8'}
                        modes = ['raw']
                        if not om['tuple']:
                            modes = ['raw', 'attr', 'hyp'] if thorough else ['raw', ('attr', 'hyp')[rot % 2]]
                        for mode in modes:
                            case = dict(base, mode=mode)
                            if mode != 'raw':
                                case['target'] = [None, ['int', rot % om['shapes'][0][0]], ['slice', 0, 2, None]][rot % 3]
                            _do(rep, case, ('ex', A, L, start, end, ok, mode), 'exhaustive-windows', sample=(rot == 5))
                        rot += 1
    rep.mark_exhaustive('every window 0<=start<end<=L for lengths 1-%d, alphabets 2-5, three output kinds' % maxL_ex)
    # -- every negative-end spelling + the default call
    for A in (2, 4, 5) if not thorough else range(2, 6):
        for L in range(1, maxL_neg + 1):
            spellings = [('default', None, None)] + [('neg', s, e) for s in range(L) for e in range(-1, -L - 1, -1) if L + 1 + e > s]
            for ok, om in _OUT_KINDS:
                for (wk, s, e) in spellings:
                    if rep.out_of_time():
                        rep.note('time budget reached inside the negative-end part')
                        return
                    N = 1 + (rot % 2)
                    seqs = [[g.randrange(A) for _ in range(L)] for _ in range(N)]
                    case = {'kind': 'ism', 'A': A, 'seqs': seqs, 'batch_size': [1, 3, 32][rot % 3],
                            'model': dict(om, type='rec'), 'args': [], 'seed': g.randrange(10 ** 6), 'xdtype': 'int8',
                            'mode': 'raw' if (om['tuple'] or rot % 2) else ('attr', 'hyp')[(rot // 2) % 2], 'target': None}
                    if wk == 'default':
                        case['window'] = 'default'
                    else:
                        case['start'], case['end'] = s, e
                    _do(rep, case, ('neg', A, L, wk, s, e, ok), 'negative-end-and-default')
                    rot += 1
    rep.mark_exhaustive('every negative-end spelling and the default call for lengths 1-%d' % maxL_neg)
    # -- seeded random larger cases
    n_rand = 20000 if thorough else 600
    for k in range(n_rand):
        if rep.out_of_time():
            rep.note('time budget reached after %d random cases' % k)
            break
        A = g.randint(2, 5)
        L = g.choice([1, 2, 3, 30]) if g.random() < 0.15 else g.randint(1, 30)
        N = g.randint(1, 3)
        seqs = [[g.randrange(A) for _ in range(L)] for _ in range(N)]
        r = g.random()
        case = {'kind': 'ism', 'A': A, 'seqs': seqs, 'seed': g.randrange(10 ** 6), 'xdtype': g.choice(['int8', 'int8', 'float32', 'float64'])}
        if r < 0.12:
            case['window'] = 'default'
            start, end = 0, L
        elif r < 0.3:
            start = g.randrange(L)
            e_abs = g.randint(start + 1, L)
            case['start'], case['end'] = start, e_abs - L - 1
            end = e_abs
        else:
            start = g.randrange(L)
            end = g.randint(start + 1, L)
            if g.random() < 0.2:
                end = L
            case['start'], case['end'] = start, end
        W = end - start
        case['batch_size'] = max(1, g.choice([1, 2, A, W, A * W - 1, A * W, A * W + 1, g.randint(1, A * L + 1), g.randint(1, A * L + 1)]))
        as_tuple = g.random() < 0.35
        n_out = g.randint(1, 3) if as_tuple else 1
        shapes = []
        for _ in range(n_out):
            T = g.randint(1, 4)
            shapes.append([T] + [g.randint(1, 3) for _ in range(g.choice([0, 0, 1, 1, 2]))])
        case['model'] = {'type': g.choice(['rec', 'rec', 'lin']), 'shapes': shapes, 'tuple': as_tuple}
        case['args'] = [[[g.randint(1, 3) for _ in range(g.randint(0, 2))], g.choice(['float64', 'int64'])] for _ in range(g.choice([0, 0, 1, 2]))]
        if as_tuple:
            case['mode'] = 'raw'
        else:
            case['mode'] = g.choice(['raw', 'attr', 'hyp'])
            if case['mode'] != 'raw':
                case['target'] = _rand_target(g, shapes[0][0])
                case['explicit_raw_false'] = g.random() < 0.3
        _do(rep, case, ('rnd', k), 'random', sample=(k < 2))
