"""Bounded stand-in for C18 (annotation and k-mer counting) — never counted as proved.

Every check calls the REAL function and compares with brute-force Python counting written from the
property statement.

 count      count_annotations: y[e, a] == #{rows r : (example_r, annotation_r) == (e, a)}; dim=0 is the
            vector of column sums, dim=1 the vector of row sums; the result has the requested dtype and
            the shape (max example + 1, max annotation + 1) or the explicit `shape` (>= the observed
            maxima; smaller shapes are not exercised).  Input forms: (n, 2) tensor, tuple / list of two
            vectors (tensor, numpy array, pandas Series).
 pair       pairwise_annotations, symmetric=True: y[a, b] == y[b, a] == number of unordered pairs of
            distinct rows of one example whose annotations are {a, b}; y[a, a] counts each such pair
            once.  symmetric=False: only y[a, b] + y[b, a] (a != b) and y[a, a] are compared with the
            unordered count (which triangle receives a pair is not fixed by the statement).
 spacing    pairwise_annotations_spacing: for an unordered pair of rows of one example the left
            annotation is the one with the smaller start, gap d = right.start - left.end; the pair adds
            one to y[a, b, d] (and to y[b, a, d] when a != b) iff 0 <= d < max_distance; overlapping
            (d < 0: nested, coincident, partially overlapping) and farther pairs add nothing and must
            not raise.  symmetric=False as above (sum of the two triangles).  Input forms: (n, 4) tensor
            [example, annotation, start, end], DataFrame with those four columns, tuple (3 columns
            [example, start, end] as DataFrame / array / tensor, annotation vector) — the tuple layout
            is the one the function documents implicitly through its column permutation [0, 3, 1, 2].
            The output dtype is chosen so that every expected count fits ("counts kept within dtype range").
 kmers      kmers(X, k): row i, entry j == number of windows of sequence i that spell the j-th k-mer; with
            scores the sum over those windows of the summed score of the window's k positions (integer
            scores, exact in float32).  "j-th k-mer" is accepted in either positional convention (first
            letter least significant, as the pinned tree does, or most significant), but the same one for the
            whole call.  Sequences shorter than k (no window; the pinned tree raises in conv1d) and sequences
            with all-zero columns are outside the statement's quantifier and are not exercised.
"""
import itertools
import random

import numpy
import pandas
import torch

from tangermeme.annotate import count_annotations, pairwise_annotations, pairwise_annotations_spacing
from tangermeme.kmers import kmers

SCOPE = {
    'quick': 'count_annotations: 1500 random tables (1-200 rows, 1-8 examples, 1-10 annotation types, skewed and uniform), 5 input forms, '
             '6 dtypes, dim None/0/1, shape None or >= observed; pairwise_annotations: 600 tables (1-200 rows, pair count <= 3000), '
             'symmetric True/False, shape None or larger; pairwise_annotations_spacing: every 2-row table with starts 0-8, lengths 1-4, '
             'max_distance 1-5 (all relative positions: abutting, overlapping, nested, coincident, gap == max_distance, farther), '
             '4 x 400 random tables (classes: disjoint without gap == max_distance / with overlaps / with gap == max_distance / free; '
             '1-200 rows, pair count <= 3000), tensor / DataFrame / tuple forms, max_distance 1-60; kmers: every sequence of length k..6 over 4 letters '
             'for k 1-4 (and over 2, 3 letters), with and without integer scores, 300 random batches (1-4 sequences, length <= 300, '
             '1-5 letters, k 1-4)',
    'thorough': 'as quick with 6000 / 4000 / 4 x 2500 random tables (pair count <= 20000), 2-row tables with starts 0-11, lengths 1-5, '
                'max_distance 1-7; every 3-row table with starts 0-4, lengths 1-2, max_distance 1-3; kmers 3000 random batches',
}

DT = {'uint8': torch.uint8, 'int8': torch.int8, 'int16': torch.int16, 'int32': torch.int32, 'int64': torch.int64,
      'float32': torch.float32, 'float64': torch.float64}
DT_MAX = {'uint8': 255, 'int8': 127, 'int16': 32767, 'int32': 2 ** 31 - 1, 'int64': 2 ** 63 - 1, 'float32': 2 ** 24, 'float64': 2 ** 53}
MAX_PER_FINDING = 20


def _exc(e):
    return '%s: %s' % (type(e).__name__, str(e)[:90])


class _Lim:
    def __init__(self, rep):
        self.rep, self.n = rep, {}

    def report(self, viol, case, finding):
        for what in viol:
            k = self.n.get(finding, 0)
            self.n[finding] = k + 1
            if k < MAX_PER_FINDING:
                self.rep.violation(what, case, finding=finding)

    def finish(self):
        for f, k in self.n.items():
            if k > MAX_PER_FINDING:
                self.rep.note('finding %s: %d failed clauses in total, first %d stored' % (f, k, MAX_PER_FINDING))


def _vec(vals, kind, idt='int64'):
    if kind == 'tensor':
        return torch.tensor(vals, dtype=getattr(torch, idt))
    if kind == 'numpy':
        return numpy.array(vals, dtype=idt)
    return pandas.Series(numpy.array(vals, dtype=idt))


def _pair_input(rows, form, idt):
    """(n, 2) annotation table in the requested input form"""
    e, a = [r[0] for r in rows], [r[1] for r in rows]
    if form == 'tensor':
        return torch.tensor(rows, dtype=getattr(torch, idt)).reshape(-1, 2)
    if form == 'tuple-tensor':
        return (_vec(e, 'tensor', idt), _vec(a, 'tensor', idt))
    if form == 'tuple-numpy':
        return (_vec(e, 'numpy', idt), _vec(a, 'numpy', idt))
    if form == 'tuple-series':
        return (_vec(e, 'series', idt), _vec(a, 'series', idt))
    if form == 'list-mixed':
        return [_vec(e, 'series', idt), _vec(a, 'tensor', idt)]
    raise ValueError(form)


PAIR_FORMS = ['tensor', 'tuple-tensor', 'tuple-numpy', 'tuple-series', 'list-mixed']


# ----------------------------------------------------------------------------------------------
# count_annotations
# ----------------------------------------------------------------------------------------------

def check_count(case):
    """case: {'kind': 'count', 'rows': [[e, a]], 'form', 'idtype', 'dtype', 'shape': None|[E, A], 'dim': None|0|1}"""
    out = []
    rows, dim, shape = case['rows'], case['dim'], case['shape']
    E = max(r[0] for r in rows) + 1
    A = max(r[1] for r in rows) + 1
    if shape is not None:
        assert shape[0] >= E and shape[1] >= A
        E, A = shape
    full = [[0] * A for _ in range(E)]
    for e, a in rows:
        full[e][a] += 1
    if dim is None:
        exp = full
    elif dim == 0:
        exp = [sum(full[e][a] for e in range(E)) for a in range(A)]
    else:
        exp = [sum(full[e]) for e in range(E)]
    X = _pair_input(rows, case['form'], case['idtype'])
    try:
        y = count_annotations(X, dtype=DT[case['dtype']], shape=None if shape is None else tuple(shape), dim=dim)
    except Exception as e:
        return ['count_annotations raised %s' % _exc(e)]
    if not isinstance(y, torch.Tensor):
        return ['count_annotations returned %s' % type(y).__name__]
    eshape = (E, A) if dim is None else ((A,) if dim == 0 else (E,))
    if tuple(y.shape) != eshape:
        return ['count_annotations shape %s, expected %s (dim=%s, shape=%s)' % (tuple(y.shape), eshape, dim, shape)]
    if y.dtype != DT[case['dtype']]:
        out.append('count_annotations dtype %s, requested %s' % (y.dtype, case['dtype']))
    got = y.to(torch.float64).tolist()
    want = [[float(v) for v in r] for r in exp] if dim is None else [float(v) for v in exp]
    if got != want:
        out.append('count_annotations (dim=%s) differs from direct counting: got %s expected %s' % (dim, got, exp))
    return out


def _rand_pairs(rng, n_rows, n_ex, n_an):
    skew = rng.random() < 0.4
    rows = []
    for _ in range(n_rows):
        e = rng.randrange(n_ex)
        a = min(int(rng.expovariate(1.0)), n_an - 1) if skew else rng.randrange(n_an)
        rows.append([e, a])
    return rows


def _run_count(rep, lim):
    rng, thorough = rep.rng, rep.tier == 'thorough'
    dts = ['uint8', 'int16', 'int32', 'int64', 'float32', 'float64']
    for k in range(6000 if thorough else 1500):
        if rep.out_of_time():
            return
        n_rows = rng.choice([1, 2, 3, 200, rng.randint(1, 200), rng.randint(1, 30)])
        n_ex, n_an = rng.randint(1, 8), rng.randint(1, 10)
        rows = _rand_pairs(rng, n_rows, n_ex, n_an)
        shape = None
        if rng.random() < 0.4:
            E = max(r[0] for r in rows) + 1
            A = max(r[1] for r in rows) + 1
            shape = [E + rng.choice([0, 0, 1, 3]), A + rng.choice([0, 0, 1, 4])]
        case = {'kind': 'count', 'rows': rows, 'form': PAIR_FORMS[k % len(PAIR_FORMS)], 'idtype': rng.choice(['int64', 'int64', 'int32']),
                'dtype': dts[k % len(dts)] if k % 3 else 'uint8', 'shape': shape, 'dim': rng.choice([None, None, 0, 1])}
        v = check_count(case)
        rep.case(('count', k, repr(rows)), nontrivial=n_rows > 1, sample=case if n_rows <= 6 else None, section='count_annotations')
        lim.report([x[:400] for x in v], case, None)


# ----------------------------------------------------------------------------------------------
# pairwise_annotations
# ----------------------------------------------------------------------------------------------

def _unordered_pairs(rows):
    """{(a, b) with a <= b: number of unordered pairs of distinct rows in one example with annotations {a, b}}"""
    U = {}
    for r in range(len(rows)):
        for s in range(r + 1, len(rows)):
            if rows[r][0] == rows[s][0]:
                a, b = sorted((rows[r][1], rows[s][1]))
                U[(a, b)] = U.get((a, b), 0) + 1
    return U


def check_pair(case):
    """case: {'kind': 'pair', 'rows': [[e, a]], 'form', 'idtype', 'dtype', 'symmetric', 'shape': None|int}"""
    out = []
    rows = case['rows']
    A = max(r[1] for r in rows) + 1
    if case['shape'] is not None:
        assert case['shape'] >= A
        A = case['shape']
    U = _unordered_pairs(rows)
    X = _pair_input(rows, case['form'], case['idtype'])
    try:
        y = pairwise_annotations(X, dtype=DT[case['dtype']], symmetric=case['symmetric'], shape=case['shape'])
    except Exception as e:
        return ['pairwise_annotations raised %s' % _exc(e)]
    if not isinstance(y, torch.Tensor) or tuple(y.shape) != (A, A):
        return ['pairwise_annotations shape %s, expected %s' % (tuple(getattr(y, 'shape', ())), (A, A))]
    if y.dtype != DT[case['dtype']]:
        out.append('pairwise_annotations dtype %s, requested %s' % (y.dtype, case['dtype']))
    g = y.to(torch.float64).tolist()
    for a in range(A):
        for b in range(a, A):
            u = U.get((a, b), 0)
            if case['symmetric']:
                if g[a][b] != u or g[b][a] != u:
                    out.append('pairwise_annotations[%d, %d] = %s, [%d, %d] = %s, expected %d unordered pairs (both entries)' % (a, b, g[a][b], b, a, g[b][a], u))
            else:
                tot = g[a][b] if a == b else g[a][b] + g[b][a]
                if tot != u or g[a][b] < 0 or g[b][a] < 0:
                    out.append('pairwise_annotations(symmetric=False): entries (%d, %d) and (%d, %d) hold %s pairs in total, expected %d' % (a, b, b, a, tot, u))
            if len(out) > 5:
                return out
    return out


def _n_pairs(rows):
    c = {}
    for r in rows:
        c[r[0]] = c.get(r[0], 0) + 1
    return sum(v * (v - 1) // 2 for v in c.values())


def _run_pair(rep, lim):
    rng, thorough = rep.rng, rep.tier == 'thorough'
    max_pairs = 20000 if thorough else 3000
    dts = ['int64', 'int64', 'int32', 'float64', 'int16']
    for k in range(4000 if thorough else 600):
        if rep.out_of_time():
            return
        while True:
            n_rows = rng.choice([1, 2, 3, 200, rng.randint(1, 200), rng.randint(1, 40)])
            n_ex, n_an = rng.randint(1, 8), rng.randint(1, 10)
            rows = _rand_pairs(rng, n_rows, n_ex, n_an)
            if _n_pairs(rows) <= max_pairs:
                break
        shape = None
        if rng.random() < 0.3:
            shape = max(r[1] for r in rows) + 1 + rng.choice([0, 1, 3])
        case = {'kind': 'pair', 'rows': rows, 'form': PAIR_FORMS[k % len(PAIR_FORMS)], 'idtype': rng.choice(['int64', 'int64', 'int32']),
                'dtype': dts[k % len(dts)], 'symmetric': rng.random() < 0.75, 'shape': shape}
        v = check_pair(case)
        rep.case(('pair', k, repr(rows)), nontrivial=_n_pairs(rows) > 0, sample=case if n_rows <= 6 else None, section='pairwise_annotations')
        lim.report([x[:400] for x in v], case, None)


# ----------------------------------------------------------------------------------------------
# pairwise_annotations_spacing
# ----------------------------------------------------------------------------------------------

def _gap(r, s):
    """gap between two rows [e, a, start, end] of one example: (left row, right row, d)"""
    left, right = (r, s) if r[2] < s[2] else ((s, r) if s[2] < r[2] else (r, s))
    return left, right, right[2] - left[3]


def _spacing_expected(rows, max_distance):
    """U[(a, b, d)] with a <= b: unordered pairs with annotations {a, b} at gap d, 0 <= d < max_distance"""
    U = {}
    for i in range(len(rows)):
        for j in range(i + 1, len(rows)):
            r, s = rows[i], rows[j]
            if r[0] != s[0]:
                continue
            _, _, d = _gap(r, s)
            if 0 <= d < max_distance:
                a, b = sorted((r[1], s[1]))
                U[(a, b, d)] = U.get((a, b, d), 0) + 1
    return U


def _spacing_input(rows, form, idt):
    if form == 'tensor':
        return torch.tensor(rows, dtype=getattr(torch, idt)).reshape(-1, 4)
    if form == 'df':
        return pandas.DataFrame(numpy.array(rows, dtype=idt).reshape(-1, 4), columns=['example_idx', 'motif_idx', 'start', 'end'])
    three = numpy.array([[r[0], r[2], r[3]] for r in rows], dtype=idt).reshape(-1, 3)
    ann = numpy.array([r[1] for r in rows], dtype=idt)
    if form == 'tuple-df':
        return (pandas.DataFrame(three, columns=['example_idx', 'start', 'end']), ann)
    if form == 'tuple-numpy':
        return (three, ann)
    if form == 'tuple-tensor':
        return (torch.from_numpy(three), torch.from_numpy(ann))
    raise ValueError(form)


SPACING_FORMS = ['tensor', 'df', 'tuple-df', 'tuple-numpy', 'tuple-tensor']


def check_spacing(case):
    """case: {'kind': 'spacing', 'rows': [[e, a, start, end]], 'form', 'idtype', 'dtype', 'max_distance', 'symmetric',
    'shape': None|int}"""
    out = []
    rows, md = case['rows'], case['max_distance']
    assert all(r[2] < r[3] for r in rows)
    A = max(r[1] for r in rows) + 1
    if case['shape'] is not None:
        assert case['shape'] >= A
        A = case['shape']
    U = _spacing_expected(rows, md)
    assert max(list(U.values()) + [0]) * 2 <= DT_MAX[case['dtype']]
    X = _spacing_input(rows, case['form'], case['idtype'])
    try:
        y = pairwise_annotations_spacing(X, max_distance=md, dtype=DT[case['dtype']], symmetric=case['symmetric'], shape=case['shape'])
    except Exception as e:
        return ['pairwise_annotations_spacing raised %s (every pair must either be counted at its gap or contribute nothing)' % _exc(e)]
    if not isinstance(y, torch.Tensor) or tuple(y.shape) != (A, A, md):
        return ['pairwise_annotations_spacing shape %s, expected %s' % (tuple(getattr(y, 'shape', ())), (A, A, md))]
    if y.dtype != DT[case['dtype']]:
        out.append('pairwise_annotations_spacing dtype %s, requested %s' % (y.dtype, case['dtype']))
    g = y.to(torch.float64)
    exp = torch.zeros(A, A, md, dtype=torch.float64)
    for (a, b, d), u in U.items():
        exp[a, b, d] += u
        if a != b:
            exp[b, a, d] += u
    if case['symmetric']:
        got = g
    else:
        # only the total of the two triangles is fixed by the statement
        got = g + g.transpose(0, 1)
        idx = torch.arange(A)
        got[idx, idx] = g[idx, idx]
        if bool((g < 0).any()):
            out.append('pairwise_annotations_spacing(symmetric=False) has negative entries')
    if not torch.equal(got, exp):
        bad = (got != exp).nonzero().tolist()
        a, b, d = bad[0]
        out.append('pairwise_annotations_spacing differs from direct counting at %d entries; first: entry (%d, %d, d=%d) = %s, expected %s%s'
                   % (len(bad), a, b, d, got[a, b, d].item(), exp[a, b, d].item(), '' if case['symmetric'] else ' (sum of both triangles)'))
    return out


def _classify(rows, md):
    """(first overlapping pair, first pair with gap == max_distance) among same-example pairs"""
    ov = eq = None
    for i in range(len(rows)):
        for j in range(i + 1, len(rows)):
            if rows[i][0] != rows[j][0]:
                continue
            _, _, d = _gap(rows[i], rows[j])
            if d < 0 and ov is None:
                ov = (i, j)
            if d == md and eq is None:
                eq = (i, j)
            if ov is not None and eq is not None:
                return ov, eq
    return ov, eq


def _gen_spacing_rows(rng, cls, n_rows, n_ex, n_an, md):
    """cls: 'clean' (disjoint, no gap == md), 'overlap' (overlaps, no gap == md), 'eq' (disjoint, some gap == md), 'free'"""
    for attempt in range(50):
        rows = []
        if cls in ('clean', 'eq'):
            pos = {}
            for _ in range(n_rows):
                e = rng.randrange(n_ex)
                p = pos.get(e, rng.randint(0, 3))
                ln = rng.randint(1, 6)
                rows.append([e, rng.randrange(n_an), p, p + ln])
                g = rng.choice([0, 0, 1, md - 1, md, md + 1, rng.randint(0, 2 * md + 2), rng.randint(0, md)])
                g = max(g, 0)
                pos[e] = p + ln + g
            rng.shuffle(rows)
        else:
            R = rng.choice([5, 10, 30, 100, 3 * n_rows + 5])
            for _ in range(n_rows):
                e = rng.randrange(n_ex)
                s = rng.randint(0, R)
                rows.append([e, rng.randrange(n_an), s, s + rng.randint(1, rng.choice([2, 6, 15]))])
            if rng.random() < 0.5 and len(rows) > 1:
                # plant coincident and nested spans
                r = rng.choice(rows)
                rows[rng.randrange(len(rows))] = [r[0], rng.randrange(n_an), r[2], r[3]]
                r = rng.choice(rows)
                if r[3] - r[2] >= 3:
                    rows[rng.randrange(len(rows))] = [r[0], rng.randrange(n_an), r[2] + 1, r[3] - 1]
        ov, eq = _classify(rows, md)
        if cls == 'clean' and ov is None and eq is None:
            return rows
        if cls == 'overlap' and eq is None and ov is not None:
            return rows
        if cls == 'eq' and ov is None and eq is not None:
            return rows
        if cls == 'free':
            return rows
        if cls in ('clean', 'overlap') and eq is not None and attempt > 20:
            # remove one row of every pair at exactly max_distance
            while eq is not None and len(rows) > 1:
                rows.pop(eq[1])
                ov, eq = _classify(rows, md)
            if (cls == 'clean' and ov is None) or (cls == 'overlap' and ov is not None):
                return rows
    return None


def _pick_dtype(rng, U):
    m = max(list(U.values()) + [0]) * 2
    ok = [d for d in ('uint8', 'uint8', 'int16', 'int32', 'int64', 'float32') if DT_MAX[d] >= m]
    return rng.choice(ok)


def _report_spacing(lim, case, v):
    """attribute a failing table to 2-row sub-tables: an overlapping pair / a pair at gap == max_distance"""
    if not v:
        return
    rows, md = case['rows'], case['max_distance']
    ov, eq = _classify(rows, md)
    explained = False
    for pair, key in ((ov, 'spacing-overlapping-pair-indexed-by-negative-gap'), (eq, 'spacing-gap-equal-max_distance-raises')):
        if pair is None:
            continue
        sub = dict(case, rows=[rows[pair[0]], rows[pair[1]]])
        if sub['shape'] is not None:
            sub['shape'] = max(sub['shape'], max(r[1] for r in sub['rows']) + 1)
        sv = check_spacing(sub)
        if sv:
            # control: the same two rows with the right one moved to a countable gap must pass
            left, right, _ = _gap(sub['rows'][0], sub['rows'][1])
            g = 0 if pair is ov else md - 1
            ctrl = dict(sub, rows=[list(left), [right[0], right[1], left[3] + g, left[3] + g + right[3] - right[2]]])
            if not check_spacing(ctrl):
                lim.report(sv, sub, key)
                explained = True
    if not explained:
        lim.report([x[:400] for x in v], case, None)
    elif len(rows) > 2:
        # is there anything left once the offending rows are gone?  drop rows until no overlap / eq pair remains
        rest = [list(r) for r in rows]
        o, q = _classify(rest, md)
        while (o is not None or q is not None) and len(rest) > 1:
            rest.pop((o or q)[1])
            o, q = _classify(rest, md)
        rc = dict(case, rows=rest)
        rv = check_spacing(rc)
        if rv:
            lim.report([x[:400] for x in rv], rc, None)


def _run_spacing(rep, lim):
    rng, thorough = rep.rng, rep.tier == 'thorough'
    # exhaustive two-row tables: every relative position
    smax, lmax, mdmax = (11, 5, 7) if thorough else (8, 4, 5)
    n = 0
    for md in range(1, mdmax + 1):
        for l0 in range(1, lmax + 1):
            for l1 in range(1, lmax + 1):
                for s0 in range(0, smax + 1):
                    for s1 in range(0, smax + 1):
                        if rep.out_of_time():
                            rep.note('time budget reached in the two-row spacing enumeration')
                            return
                        n += 1
                        a0, a1 = [(0, 1), (1, 0), (1, 1), (0, 0)][n % 4]
                        rows = [[0, a0, s0, s0 + l0], [0, a1, s1, s1 + l1]]
                        case = {'kind': 'spacing', 'rows': rows, 'form': SPACING_FORMS[n % len(SPACING_FORMS)], 'idtype': 'int64',
                                'dtype': ['uint8', 'int32', 'int64'][n % 3], 'max_distance': md, 'symmetric': n % 7 != 0, 'shape': None}
                        v = check_spacing(case)
                        _, _, d = _gap(rows[0], rows[1])
                        rep.case(('sp2', md, l0, l1, s0, s1), nontrivial=True, sample=case,
                                 section='spacing-2rows-%s' % ('overlap' if d < 0 else 'gap<md' if d < md else 'gap==md' if d == md else 'gap>md'))
                        _report_spacing(lim, case, v)
    rep.mark_exhaustive('pairwise_annotations_spacing on every two-row table with starts 0-%d, lengths 1-%d, max_distance 1-%d' % (smax, lmax, mdmax))
    if thorough:
        spans = [(s, s + l) for s in range(0, 5) for l in (1, 2)]
        for md in (1, 2, 3):
            for trip in itertools.product(spans, repeat=3):
                if rep.out_of_time():
                    return
                n += 1
                rows = [[0, (n + i) % 2, sp[0], sp[1]] for i, sp in enumerate(trip)]
                case = {'kind': 'spacing', 'rows': rows, 'form': SPACING_FORMS[n % len(SPACING_FORMS)], 'idtype': 'int64',
                        'dtype': 'int32', 'max_distance': md, 'symmetric': True, 'shape': None}
                v = check_spacing(case)
                rep.case(('sp3', md, trip), sample=None, section='spacing-3rows')
                _report_spacing(lim, case, v)
        rep.mark_exhaustive('pairwise_annotations_spacing on every three-row table with starts 0-4, lengths 1-2, max_distance 1-3')
    per = 2500 if thorough else 400
    max_rows = 200
    max_pairs = 20000 if thorough else 3000
    for cls in ('clean', 'overlap', 'eq', 'free'):
        for k in range(per):
            if rep.out_of_time():
                rep.note('time budget reached in the random spacing tables (%s, %d)' % (cls, k))
                return
            md = rng.choice([1, 2, 3, 5, 10, 20, rng.randint(1, 60)])
            for _ in range(20):
                n_rows = rng.choice([2, 3, 5, rng.randint(1, 30), rng.randint(1, max_rows)])
                n_ex, n_an = rng.randint(1, 8), rng.randint(1, 10)
                rows = _gen_spacing_rows(rng, cls, n_rows, n_ex, n_an, md)
                if rows is not None and _n_pairs(rows) <= max_pairs:
                    break
            else:
                continue
            U = _spacing_expected(rows, md)
            shape = None
            if rng.random() < 0.25:
                shape = max(r[1] for r in rows) + 1 + rng.choice([0, 1, 2])
            case = {'kind': 'spacing', 'rows': rows, 'form': SPACING_FORMS[k % len(SPACING_FORMS)], 'idtype': rng.choice(['int64', 'int64', 'int32']),
                    'dtype': _pick_dtype(rng, U), 'max_distance': md, 'symmetric': rng.random() < 0.75, 'shape': shape}
            v = check_spacing(case)
            rep.case(('sp', cls, k, repr(rows)), nontrivial=len(U) > 0, sample=case if len(rows) <= 5 else None, section='spacing-random-%s' % cls)
            _report_spacing(lim, case, v)


# ----------------------------------------------------------------------------------------------
# kmers
# ----------------------------------------------------------------------------------------------

def _kmer_expected(seq, n, k, scores, big_endian):
    exp = [0] * (n ** k)
    for p in range(len(seq) - k + 1):
        win = seq[p:p + k]
        j = 0
        for i, c in enumerate(win):
            j += c * (n ** ((k - 1 - i) if big_endian else i))
        exp[j] += 1 if scores is None else sum(scores[p:p + k])
    return exp


def _kmer_seqs(case):
    n = case['n']
    if case.get('all'):
        return [list(t) for t in itertools.product(range(n), repeat=case['L'])]
    return [[int(ch) for ch in s] for s in case['seqs']]


def _kmer_scores(case, seqs):
    if case.get('scores') is not None:
        return case['scores']
    if case.get('score_seed') is None:
        return None
    r = random.Random(('kmer-scores', case['score_seed']).__repr__())
    return [[r.randint(-5, 5) for _ in s] for s in seqs]


def check_kmers(case):
    """case: {'kind': 'kmers', 'n': letters, 'k', 'xdtype', and either 'all': True, 'L' (every sequence of length L) or
    'seqs': [digit strings of equal length]; 'scores': None | [[int]] or 'score_seed'}"""
    n, k = case['n'], case['k']
    seqs = _kmer_seqs(case)
    L = len(seqs[0])
    assert L >= k and all(len(s) == L for s in seqs)
    scores = _kmer_scores(case, seqs)
    X = torch.zeros(len(seqs), n, L, dtype=getattr(torch, case.get('xdtype', 'int8')))
    idx = torch.tensor(seqs, dtype=torch.int64)
    X.scatter_(1, idx[:, None, :], 1)
    X0 = X.clone()
    try:
        if scores is None:
            y = kmers(X, k)
        else:
            y = kmers(X, k, scores=torch.tensor(scores, dtype=torch.float32))
    except Exception as e:
        return ['kmers raised %s' % _exc(e)]
    if not isinstance(y, torch.Tensor) or tuple(y.shape) != (len(seqs), n ** k):
        return ['kmers shape %s, expected %s' % (tuple(getattr(y, 'shape', ())), (len(seqs), n ** k))]
    out = []
    if not torch.equal(X, X0):
        out.append('kmers modified its input')
    g = y.to(torch.float64).tolist()
    for be in (False, True):
        bad = None
        for i, s in enumerate(seqs):
            e = _kmer_expected(s, n, k, None if scores is None else scores[i], be)
            if g[i] != [float(v) for v in e]:
                bad = (i, e)
                break
        if bad is None:
            return out
        if not be:
            first_bad = bad
    i, e = first_bad
    out.append('kmers row differs from direct counting (either positional convention): sequence %s%s k=%d got %s expected %s'
               % (''.join(map(str, seqs[i])), '' if scores is None else ' scores %s' % scores[i], k, g[i], e))
    return out


def _report_kmers(lim, case, v):
    if not v:
        return
    seqs = _kmer_seqs(case)
    if len(seqs) > 1:
        scores = _kmer_scores(case, seqs)
        for i, s in enumerate(seqs):
            sub = {'kind': 'kmers', 'n': case['n'], 'k': case['k'], 'xdtype': case.get('xdtype', 'int8'),
                   'seqs': [''.join(map(str, s))], 'scores': None if scores is None else [scores[i]]}
            sv = check_kmers(sub)
            if sv:
                lim.report([x[:400] for x in sv], sub, None)
                return
    small = dict(case)
    lim.report([x[:400] for x in v], small, None)


def _run_kmers(rep, lim):
    rng, thorough = rep.rng, rep.tier == 'thorough'
    xd = ['int8', 'float32', 'int64', 'int32']
    c = 0
    for n, maxL in ((4, 6), (2, 6), (3, 6)):
        for k in range(1, 5):
            for L in range(k, maxL + 1):
                for sc in (None, 1):
                    if rep.out_of_time():
                        return
                    c += 1
                    case = {'kind': 'kmers', 'n': n, 'k': k, 'L': L, 'all': True, 'xdtype': xd[c % 4],
                            'score_seed': None if sc is None else rep.seed * 100000 + c}
                    v = check_kmers(case)
                    for _ in range(1):
                        rep.case(('kmers-all', n, k, L, sc), sample=case, section='kmers-exhaustive')
                    rep.sections['kmers-exhaustive-sequences'] = rep.sections.get('kmers-exhaustive-sequences', 0) + n ** L
                    _report_kmers(lim, case, v)
    rep.mark_exhaustive('kmers on every sequence of length k..6 over 4, 3 and 2 letters for k = 1..4, with and without scores')
    for j in range(3000 if thorough else 300):
        if rep.out_of_time():
            return
        n = rng.choice([4, 4, 4, 1, 2, 3, 5])
        k = rng.randint(1, 4)
        L = rng.choice([k, k + 1, 7, 20, rng.randint(k, 300)])
        L = max(L, k)
        B = rng.randint(1, 4)
        seqs = [''.join(str(rng.randrange(n)) for _ in range(L)) for _ in range(B)]
        if rng.random() < 0.3:
            seqs[0] = str(rng.randrange(n)) * L          # homopolymer
        scores = None
        if rng.random() < 0.5:
            scores = [[rng.randint(-9, 9) for _ in range(L)] for _ in range(B)]
        case = {'kind': 'kmers', 'n': n, 'k': k, 'seqs': seqs, 'scores': scores, 'xdtype': xd[j % 4]}
        v = check_kmers(case)
        rep.case(('kmers', j, tuple(seqs)), sample=case if L <= 8 else None, section='kmers-random')
        _report_kmers(lim, case, v)


def run(rep):
    lim = _Lim(rep)
    _run_kmers(rep, lim)
    _run_count(rep, lim)
    _run_pair(rep, lim)
    _run_spacing(rep, lim)
    lim.finish()


def replay(case):
    k = case.get('kind')
    if k == 'count':
        return check_count(case)
    if k == 'pair':
        return check_pair(case)
    if k == 'spacing':
        return check_spacing(case)
    if k == 'kmers':
        return check_kmers(case)
    return ['unknown replay kind']
