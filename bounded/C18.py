"""Bounded stand-in for C18 (annotation and k-mer counting) — never counted as proved.

Every check calls the REAL function and compares with brute-force Python counting written from the
property statement.

 count      count_annotations: y[e, a] == #{rows r : (example_r, annotation_r) == (e, a)}; dim=0 is the
            vector of column sums, dim=1 the vector of row sums; the result has the requested dtype and
            the shape (max example + 1, max annotation + 1) or the explicit `shape` (>= the observed
            maxima; smaller shapes are not exercised).  Input forms: (n, 2) tensor, tuple / list of two
            vectors (tensor, numpy array, pandas Series).
 pair       pairwise_annotations, symmetric=True: y[a, b] == y[b, a] == number of unordered pairs of
            distinct rows of one example whose annotations are {a, b}; y[a, a] counts each such pair
            once.  symmetric=False: only y[a, b] + y[b, a] (a != b) and y[a, a] are compared with the
            unordered count (which triangle receives a pair is not fixed by the statement).
 spacing    pairwise_annotations_spacing: for an unordered pair of rows of one example the left
            annotation is the one with the smaller start, gap d = right.start - left.end; the pair adds
            one to y[a, b, d] (and to y[b, a, d] when a != b) iff 0 <= d < max_distance; overlapping
            (d < 0: nested, coincident, partially overlapping) and farther pairs add nothing and must
            not raise.  symmetric=False as above (sum of the two triangles).  Input forms: (n, 4) tensor
            [example, annotation, start, end], DataFrame with those four columns, tuple (3 columns
            [example, start, end] as DataFrame / array / tensor, annotation vector) — the tuple layout
            is the one the function documents implicitly through its column permutation [0, 3, 1, 2].
            The output dtype is chosen so that every expected count fits ("counts kept within dtype range").
 kmers      kmers(X, k): row i, entry j == number of windows of sequence i that spell the j-th k-mer; with
            scores the sum over those windows of the summed score of the window's k positions (integer
            scores, exact in float32).  "j-th k-mer" is accepted in either positional convention (first
            letter least significant, as the pinned tree does, or most significant), but the same one for the
            whole call.  Sequences shorter than k (no window; the pinned tree raises in conv1d) and sequences
            with all-zero columns are outside the statement's quantifier and are not exercised.

Coverage added by the audit of this driver (every new key of a case dict has a default, so stored cases of the
older layout replay unchanged):
 defaults   every function is also called with its keyword arguments OMITTED (case key 'omit': None-valued
            options are not passed at all): count_annotations(X), pairwise_annotations(X) (must be the symmetric
            count), pairwise_annotations_spacing(X) (symmetric, max_distance 100 -> last axis of length 100).  Only
            the counts are compared then (the statement fixes no default dtype); tables are chosen so that every
            expected count fits the documented default dtype.
 layouts    index tensors that are not contiguous (every second column of a wider tensor, a transposed view),
            float32 tensors holding integers (the form the repository's own test uses, count_annotations only),
            small integer dtypes for the indices (int16 / int8 / uint8, where all values fit), pandas Series with a
            permuted non-default index, DataFrames with anonymous integer column names and a non-default index with
            repeated labels (the columns are positional in the docstring), the tuple form with the annotation vector
            given as an (n, 1) int32 tensor (what annotate_seqlets returns) and as a list instead of a tuple.
 shapes     explicit shapes far wider than the observed maxima (up to +40 rows / +60 columns, so that the flattened
            cell index exceeds the range of the small index dtypes), shape given as a list.
 edges      the corners of the quantifier: 200 rows in one cell, a single row in cell (7, 9), 200 rows of one
            example (19900 pairs) for pairwise_annotations and pairwise_annotations_spacing.
 coords     pairwise_annotations_spacing on tables translated by genomic offsets (1e6, 248956422, 3e9) and onto the
            boundaries 2^15, 2^16, 2^31, 2^32 (some spans below, some above; int64 input where needed); the gaps and hence
            the expected tensor are those of the untranslated table.
 triples    (quick tier too) every three-row table over spans with starts 0-3, lengths 1-2 in every listing order,
            so that two pairs of one anchor row fall into one cell in each order.
 kmers      one-hot input as a permuted (batch, length, letters) view and as every second position of a longer
            tensor, uint8 / float64 one-hot, scores as int64 / int32 / float64 tensors and as a strided view, integer
            scores of magnitude up to 3000 (sums exact in float32), sequences of length 5000 and 40000
            (homopolymers and near-homopolymers: one k-mer counted ~40000 times).
"""
import itertools
import random

import numpy
import pandas
import torch

from tangermeme.annotate import count_annotations, pairwise_annotations, pairwise_annotations_spacing
from tangermeme.kmers import kmers

SCOPE = {
    'quick': 'count_annotations: corner tables (200 rows in one cell, single row (7, 9), ...) and 1500 random tables (1-200 rows, 1-8 examples, '
             '1-10 annotation types, skewed and uniform), 9 input forms (contiguous / strided / transposed / float32 tensor, tuple or list of '
             'tensor / numpy / Series vectors, Series with permuted index), index dtypes int64 / int32 / int16 / int8 / uint8, '
             '6 output dtypes and the default call without keywords, dim None/0/1, shape None, >= observed, or far wider (up to +40 x +60; tuple or list); '
             'pairwise_annotations: corner tables (200 rows of one example = 19900 pairs) and 600 tables (1-200 rows, pair count <= 3000), '
             'same input forms and index dtypes, symmetric True/False and the default call (must be symmetric), output dtypes incl. uint8 / float32 '
             'where the counts fit, shape None or larger (up to +40); pairwise_annotations_spacing: every 2-row table with starts 0-8, lengths 1-4, '
             'max_distance 1-5 (all relative positions: abutting, overlapping, nested, coincident, gap == max_distance, farther), '
             'every 3-row table over spans with starts 0-3, lengths 1-2 (all listing orders), max_distance 1-3, '
             '4 x 400 random tables (classes: disjoint without gap == max_distance / with overlaps / with gap == max_distance / free; '
             '1-200 rows, pair count <= 3000; a fifth of them translated by 1e6, 248956422, 3e9 or onto a 2^15 / 2^16 / 2^31 / 2^32 boundary), 200-row tables, '
             'tensor (contiguous / strided) / DataFrame (named or anonymous columns, non-default index) / tuple and list forms '
             '(annotation vector 1-D or (n, 1) int32), max_distance 1-60 or omitted (= 100), default call without keywords; '
             'kmers: every sequence of length k..6 over 4 letters '
             'for k 1-4 (and over 2, 3 letters), with and without integer scores, 300 random batches (1-4 sequences, length <= 300, '
             '1-5 letters, k 1-4), one-hot as contiguous / permuted / strided tensor of 6 dtypes, scores as float32 / float64 / int64 / int32 '
             '(contiguous or strided, magnitude <= 9 or <= 3000), 12 long batches (length 5000 / 40000, homopolymer, near-homopolymer, random)',
    'thorough': 'as quick with 6000 / 4000 / 4 x 2500 random tables (pair count <= 20000), 2-row tables with starts 0-11, lengths 1-5, '
                'max_distance 1-7; every 3-row table with starts 0-4, lengths 1-2, max_distance 1-3; kmers 3000 random batches, 60 long batches',
}

DT = {'uint8': torch.uint8, 'int8': torch.int8, 'int16': torch.int16, 'int32': torch.int32, 'int64': torch.int64,
      'float32': torch.float32, 'float64': torch.float64}
DT_MAX = {'uint8': 255, 'int8': 127, 'int16': 32767, 'int32': 2 ** 31 - 1, 'int64': 2 ** 63 - 1, 'float32': 2 ** 24, 'float64': 2 ** 53}
MAX_PER_FINDING = 20


def _exc(e):
    return '%s: %s' % (type(e).__name__, str(e)[:90])


class _Lim:
    def __init__(self, rep):
        self.rep, self.n = rep, {}

    def report(self, viol, case, finding):
        for what in viol:
            k = self.n.get(finding, 0)
            self.n[finding] = k + 1
            if k < MAX_PER_FINDING:
                self.rep.violation(what, case, finding=finding)

    def finish(self):
        for f, k in self.n.items():
            if k > MAX_PER_FINDING:
                self.rep.note('finding %s: %d failed clauses in total, first %d stored' % (f, k, MAX_PER_FINDING))


def _vec(vals, kind, idt='int64'):
    if kind == 'tensor':
        return torch.tensor(vals, dtype=getattr(torch, idt))
    if kind == 'numpy':
        return numpy.array(vals, dtype=idt)
    return pandas.Series(numpy.array(vals, dtype=idt))


def _pair_input(rows, form, idt):
    """(n, 2) annotation table in the requested input form"""
    e, a = [r[0] for r in rows], [r[1] for r in rows]
    n = len(rows)
    if form == 'tensor':
        return torch.tensor(rows, dtype=getattr(torch, idt)).reshape(-1, 2)
    if form == 'tensor-float':
        # integers held in a float tensor: torch.Tensor([[0, 0], ...]) as in the repository's test (count_annotations only)
        return torch.tensor(rows, dtype=torch.float32).reshape(-1, 2)
    if form == 'tensor-strided':
        # columns 0 and 2 of a wider table whose other columns hold unrelated values
        W = torch.full((n, 4), 5, dtype=getattr(torch, idt))
        W[:, 0] = torch.tensor(e, dtype=W.dtype)
        W[:, 2] = torch.tensor(a, dtype=W.dtype)
        return W[:, ::2]
    if form == 'tensor-tview':
        # (n, 2) view of a (2, n) tensor: strides (1, n)
        return torch.tensor([e, a], dtype=getattr(torch, idt)).T
    if form == 'tuple-tensor':
        return (_vec(e, 'tensor', idt), _vec(a, 'tensor', idt))
    if form == 'tuple-numpy':
        return (_vec(e, 'numpy', idt), _vec(a, 'numpy', idt))
    if form == 'tuple-series':
        return (_vec(e, 'series', idt), _vec(a, 'series', idt))
    if form == 'tuple-series-idx':
        # both vectors carry the same permuted, non-default index (e.g. columns of a filtered, re-sorted DataFrame)
        index = (numpy.arange(n)[::-1] * 3 + 2).tolist()
        return (pandas.Series(numpy.array(e, dtype=idt), index=index), pandas.Series(numpy.array(a, dtype=idt), index=index))
    if form == 'list-mixed':
        return [_vec(e, 'series', idt), _vec(a, 'tensor', idt)]
    raise ValueError(form)


PAIR_FORMS = ['tensor', 'tuple-tensor', 'tuple-numpy', 'tuple-series', 'list-mixed', 'tensor-strided', 'tensor-tview', 'tuple-series-idx']
COUNT_FORMS = PAIR_FORMS + ['tensor-float']
IDTYPES = ['int64', 'int64', 'int32', 'int16', 'uint8', 'int8']       # all index values of the quantifier (<= 199) fit, int8 <= 127


# ----------------------------------------------------------------------------------------------
# count_annotations
# ----------------------------------------------------------------------------------------------

def check_count(case):
    """case: {'kind': 'count', 'rows': [[e, a]], 'form', 'idtype', 'dtype': name | None (not passed), 'shape': None|[E, A],
    'dim': None|0|1, 'shape_list': bool (shape passed as a list), 'omit': bool (None-valued options are not passed at all)}"""
    out = []
    rows, dim, shape = case['rows'], case['dim'], case['shape']
    E = max(r[0] for r in rows) + 1
    A = max(r[1] for r in rows) + 1
    if shape is not None:
        assert shape[0] >= E and shape[1] >= A
        E, A = shape
    full = [[0] * A for _ in range(E)]
    for e, a in rows:
        full[e][a] += 1
    if dim is None:
        exp = full
    elif dim == 0:
        exp = [sum(full[e][a] for e in range(E)) for a in range(A)]
    else:
        exp = [sum(full[e]) for e in range(E)]
    # counts kept within dtype range (the documented default is uint8)
    top = max(max(r) for r in full) if dim is None else max(exp)
    assert top <= DT_MAX[case['dtype'] or 'uint8']
    X = _pair_input(rows, case['form'], case['idtype'])
    kw = {'dtype': None if case['dtype'] is None else DT[case['dtype']],
          'shape': None if shape is None else (list(shape) if case.get('shape_list') else tuple(shape)), 'dim': dim}
    if case['dtype'] is None:
        del kw['dtype']
    if case.get('omit'):
        kw = {k: v for k, v in kw.items() if v is not None}
    try:
        y = count_annotations(X, **kw)
    except Exception as e:
        return ['count_annotations raised %s' % _exc(e)]
    if not isinstance(y, torch.Tensor):
        return ['count_annotations returned %s' % type(y).__name__]
    eshape = (E, A) if dim is None else ((A,) if dim == 0 else (E,))
    if tuple(y.shape) != eshape:
        return ['count_annotations shape %s, expected %s (dim=%s, shape=%s)' % (tuple(y.shape), eshape, dim, shape)]
    if case['dtype'] is not None and y.dtype != DT[case['dtype']]:
        out.append('count_annotations dtype %s, requested %s' % (y.dtype, case['dtype']))
    got = y.to(torch.float64).tolist()
    want = [[float(v) for v in r] for r in exp] if dim is None else [float(v) for v in exp]
    if got != want:
        out.append('count_annotations (dim=%s) differs from direct counting: got %s expected %s' % (dim, got, exp))
    return out


def _rand_pairs(rng, n_rows, n_ex, n_an):
    skew = rng.random() < 0.4
    rows = []
    for _ in range(n_rows):
        e = rng.randrange(n_ex)
        a = min(int(rng.expovariate(1.0)), n_an - 1) if skew else rng.randrange(n_an)
        rows.append([e, a])
    return rows


def _count_corners():
    """the corners of the quantifier (rows, dims to try)"""
    yield [[0, 0]] * 200                                   # 200 rows in one cell (uint8 holds it)
    yield [[7, 9]] * 200                                   # ... in the last cell, all other cells empty
    yield [[7, 9]]                                         # single row, largest indices
    yield [[0, 0]]                                         # single row, 1 x 1 result
    yield [[e, a] for e in range(8) for a in range(10)] * 2 + [[7, 0]] * 40      # 200 rows, every cell occupied
    yield [[i % 8, 9 - i % 10] for i in range(200)]
    yield [[7 - i % 8, 0] for i in range(199)] + [[0, 9]]
    yield [[3, 4], [3, 4], [0, 0], [3, 4]]                 # duplicates, not adjacent


def _run_count(rep, lim):
    rng, thorough = rep.rng, rep.tier == 'thorough'
    dts = ['uint8', 'int16', 'int32', 'int64', 'float32', 'float64']
    k = 0
    for rows in _count_corners():
        rows = [list(r) for r in rows]
        for dim in (None, 0, 1):
            for form in COUNT_FORMS:
                k += 1
                E, A = max(r[0] for r in rows) + 1, max(r[1] for r in rows) + 1
                shape = [None, [E, A], [E + 2, A], [E, A + 3], [E + 1, A + 50]][k % 5]
                omit = k % 4 == 0
                case = {'kind': 'count', 'rows': rows, 'form': form, 'idtype': IDTYPES[k % len(IDTYPES)], 'dtype': None if omit else dts[k % len(dts)],
                        'shape': shape, 'dim': dim, 'shape_list': k % 3 == 0, 'omit': omit}
                v = check_count(case)
                rep.case(('count-corner', k, repr(rows), dim, form), nontrivial=len(rows) > 1, sample=None, section='count_annotations-corners')
                lim.report([x[:400] for x in v], case, None)
    for k in range(6000 if thorough else 1500):
        if rep.out_of_time():
            return
        n_rows = rng.choice([1, 2, 3, 200, rng.randint(1, 200), rng.randint(1, 30)])
        n_ex, n_an = rng.randint(1, 8), rng.randint(1, 10)
        rows = _rand_pairs(rng, n_rows, n_ex, n_an)
        shape = None
        if rng.random() < 0.4:
            E = max(r[0] for r in rows) + 1
            A = max(r[1] for r in rows) + 1
            shape = [E + rng.choice([0, 0, 1, 3, 40]), A + rng.choice([0, 0, 1, 4, 60])]
        idt = rng.choice(IDTYPES)
        omit = rng.random() < 0.15
        case = {'kind': 'count', 'rows': rows, 'form': COUNT_FORMS[k % len(COUNT_FORMS)], 'idtype': idt,
                'dtype': None if omit else (dts[k % len(dts)] if k % 3 else 'uint8'), 'shape': shape, 'dim': rng.choice([None, None, 0, 1]),
                'shape_list': rng.random() < 0.2, 'omit': omit}
        v = check_count(case)
        rep.case(('count', k, repr(rows)), nontrivial=n_rows > 1, sample=case if n_rows <= 6 else None, section='count_annotations')
        lim.report([x[:400] for x in v], case, None)


# ----------------------------------------------------------------------------------------------
# pairwise_annotations
# ----------------------------------------------------------------------------------------------

def _unordered_pairs(rows):
    """{(a, b) with a <= b: number of unordered pairs of distinct rows in one example with annotations {a, b}}"""
    U = {}
    for r in range(len(rows)):
        for s in range(r + 1, len(rows)):
            if rows[r][0] == rows[s][0]:
                a, b = sorted((rows[r][1], rows[s][1]))
                U[(a, b)] = U.get((a, b), 0) + 1
    return U


def check_pair(case):
    """case: {'kind': 'pair', 'rows': [[e, a]], 'form', 'idtype', 'dtype': name | None (not passed), 'symmetric': bool | None (not passed:
    the default must be the symmetric count), 'shape': None|int, 'omit': bool (None-valued options are not passed at all)}"""
    out = []
    rows = case['rows']
    A = max(r[1] for r in rows) + 1
    if case['shape'] is not None:
        assert case['shape'] >= A
        A = case['shape']
    U = _unordered_pairs(rows)
    assert max(list(U.values()) + [0]) <= DT_MAX[case['dtype'] or 'int64']
    symmetric = True if case['symmetric'] is None else case['symmetric']
    X = _pair_input(rows, case['form'], case['idtype'])
    kw = {'shape': case['shape']}
    if case['dtype'] is not None:
        kw['dtype'] = DT[case['dtype']]
    if case['symmetric'] is not None:
        kw['symmetric'] = case['symmetric']
    if case.get('omit'):
        kw = {k: v for k, v in kw.items() if v is not None}
    try:
        y = pairwise_annotations(X, **kw)
    except Exception as e:
        return ['pairwise_annotations raised %s' % _exc(e)]
    if not isinstance(y, torch.Tensor) or tuple(y.shape) != (A, A):
        return ['pairwise_annotations shape %s, expected %s' % (tuple(getattr(y, 'shape', ())), (A, A))]
    if case['dtype'] is not None and y.dtype != DT[case['dtype']]:
        out.append('pairwise_annotations dtype %s, requested %s' % (y.dtype, case['dtype']))
    g = y.to(torch.float64).tolist()
    for a in range(A):
        for b in range(a, A):
            u = U.get((a, b), 0)
            if symmetric:
                if g[a][b] != u or g[b][a] != u:
                    out.append('pairwise_annotations%s[%d, %d] = %s, [%d, %d] = %s, expected %d unordered pairs (both entries)'
                               % (' (default call)' if case['symmetric'] is None else '', a, b, g[a][b], b, a, g[b][a], u))
            else:
                tot = g[a][b] if a == b else g[a][b] + g[b][a]
                if tot != u or g[a][b] < 0 or g[b][a] < 0:
                    out.append('pairwise_annotations(symmetric=False): entries (%d, %d) and (%d, %d) hold %s pairs in total, expected %d' % (a, b, b, a, tot, u))
            if len(out) > 5:
                return out
    return out


def _n_pairs(rows):
    c = {}
    for r in rows:
        c[r[0]] = c.get(r[0], 0) + 1
    return sum(v * (v - 1) // 2 for v in c.values())


def _pick_pair_dtype(rng, U, k):
    m = max(list(U.values()) + [0])
    ok = [d for d in ('int64', 'int64', 'int32', 'float64', 'int16', 'uint8', 'float32') if DT_MAX[d] >= m]
    return ok[k % len(ok)]


def _pair_corners():
    yield [[0, 0]] * 200                                   # one example, one annotation: 19900 pairs on the diagonal
    yield [[7, 9 * (i % 2)] for i in range(200)]           # one example (the last), two annotations: 4950 + 4950 + 10000
    yield [[i % 8, i % 10] for i in range(200)]
    yield [[e, 9] for e in range(8)]                       # one row per example: no pair at all
    yield [[7, 9]]
    yield [[0, 0], [0, 0]]
    yield [[2, 1], [2, 0]]                                 # listed in decreasing annotation order
    yield [[1, 3], [0, 3], [1, 0], [0, 0], [1, 3]]         # examples interleaved


def _run_pair(rep, lim):
    rng, thorough = rep.rng, rep.tier == 'thorough'
    max_pairs = 20000 if thorough else 3000
    k = 0
    for rows in _pair_corners():
        rows = [list(r) for r in rows]
        U = _unordered_pairs(rows)
        for form in (PAIR_FORMS if len(rows) < 100 else PAIR_FORMS[k % 3::3]):
            if rep.out_of_time():
                return
            k += 1
            sym = [True, None, False, True][k % 4]
            case = {'kind': 'pair', 'rows': rows, 'form': form, 'idtype': IDTYPES[k % len(IDTYPES)],
                    'dtype': None if sym is None else _pick_pair_dtype(rng, U, k), 'symmetric': sym,
                    'shape': [None, None, 10, 50][k % 4], 'omit': sym is None}
            v = check_pair(case)
            rep.case(('pair-corner', k, repr(rows), form), nontrivial=len(U) > 0, sample=None, section='pairwise_annotations-corners')
            lim.report([x[:400] for x in v], case, None)
    for k in range(4000 if thorough else 600):
        if rep.out_of_time():
            return
        while True:
            n_rows = rng.choice([1, 2, 3, 200, rng.randint(1, 200), rng.randint(1, 40)])
            n_ex, n_an = rng.randint(1, 8), rng.randint(1, 10)
            rows = _rand_pairs(rng, n_rows, n_ex, n_an)
            if _n_pairs(rows) <= max_pairs:
                break
        shape = None
        if rng.random() < 0.3:
            shape = max(r[1] for r in rows) + 1 + rng.choice([0, 1, 3, 40])
        omit = rng.random() < 0.15
        sym = None if omit else rng.random() < 0.75
        case = {'kind': 'pair', 'rows': rows, 'form': PAIR_FORMS[k % len(PAIR_FORMS)], 'idtype': rng.choice(IDTYPES),
                'dtype': None if omit else _pick_pair_dtype(rng, _unordered_pairs(rows), k), 'symmetric': sym, 'shape': shape, 'omit': omit}
        v = check_pair(case)
        rep.case(('pair', k, repr(rows)), nontrivial=_n_pairs(rows) > 0, sample=case if n_rows <= 6 else None, section='pairwise_annotations')
        lim.report([x[:400] for x in v], case, None)


# ----------------------------------------------------------------------------------------------
# pairwise_annotations_spacing
# ----------------------------------------------------------------------------------------------

def _gap(r, s):
    """gap between two rows [e, a, start, end] of one example: (left row, right row, d)"""
    left, right = (r, s) if r[2] < s[2] else ((s, r) if s[2] < r[2] else (r, s))
    return left, right, right[2] - left[3]


def _spacing_expected(rows, max_distance):
    """U[(a, b, d)] with a <= b: unordered pairs with annotations {a, b} at gap d, 0 <= d < max_distance"""
    U = {}
    for i in range(len(rows)):
        for j in range(i + 1, len(rows)):
            r, s = rows[i], rows[j]
            if r[0] != s[0]:
                continue
            _, _, d = _gap(r, s)
            if 0 <= d < max_distance:
                a, b = sorted((r[1], s[1]))
                U[(a, b, d)] = U.get((a, b, d), 0) + 1
    return U


def _spacing_input(rows, form, idt):
    n = len(rows)
    if form == 'tensor':
        return torch.tensor(rows, dtype=getattr(torch, idt)).reshape(-1, 4)
    if form == 'tensor-strided':
        # every second column of a wider table whose other columns hold unrelated values
        W = torch.full((n, 8), 3, dtype=getattr(torch, idt))
        W[:, ::2] = torch.tensor(rows, dtype=W.dtype).reshape(-1, 4)
        return W[:, ::2]
    if form == 'df':
        return pandas.DataFrame(numpy.array(rows, dtype=idt).reshape(-1, 4), columns=['example_idx', 'motif_idx', 'start', 'end'])
    if form == 'df-anon':
        # the docstring fixes the ORDER of the four columns, not their names; index with repeated, unsorted labels
        return pandas.DataFrame(numpy.array(rows, dtype=idt).reshape(-1, 4), index=(numpy.arange(n)[::-1] // 2).tolist())
    three = numpy.array([[r[0], r[2], r[3]] for r in rows], dtype=idt).reshape(-1, 3)
    ann = numpy.array([r[1] for r in rows], dtype=idt)
    if form == 'tuple-df':
        return (pandas.DataFrame(three, columns=['example_idx', 'start', 'end']), ann)
    if form == 'tuple-numpy':
        return (three, ann)
    if form == 'tuple-tensor':
        return (torch.from_numpy(three), torch.from_numpy(ann))
    if form == 'tuple-df-col2d':
        # seqlet table + the (n, 1) int32 index tensor that annotate_seqlets(..., n_nearest=1) returns
        return (pandas.DataFrame(three, columns=['example_idx', 'start', 'end']), torch.tensor([[r[1]] for r in rows], dtype=torch.int32).reshape(-1, 1))
    if form == 'list-df-tensor':
        return [pandas.DataFrame(three, columns=['chrom', 'start', 'end'], index=(numpy.arange(n) + 10).tolist()), torch.from_numpy(ann)]
    raise ValueError(form)


SPACING_FORMS = ['tensor', 'df', 'tuple-df', 'tuple-numpy', 'tuple-tensor', 'df-anon', 'tensor-strided', 'tuple-df-col2d', 'list-df-tensor']
DEFAULT_MAX_DISTANCE = 100          # documented default of pairwise_annotations_spacing


def check_spacing(case):
    """case: {'kind': 'spacing', 'rows': [[e, a, start, end]], 'form', 'idtype', 'dtype': name | None (not passed), 'max_distance': int |
    None (not passed: 100), 'symmetric': bool | None (not passed: symmetric), 'shape': None|int, 'omit': bool (None-valued options are
    not passed at all)}"""
    out = []
    rows = case['rows']
    md = DEFAULT_MAX_DISTANCE if case['max_distance'] is None else case['max_distance']
    symmetric = True if case['symmetric'] is None else case['symmetric']
    assert all(r[2] < r[3] for r in rows)
    A = max(r[1] for r in rows) + 1
    if case['shape'] is not None:
        assert case['shape'] >= A
        A = case['shape']
    U = _spacing_expected(rows, md)
    assert max(list(U.values()) + [0]) * 2 <= DT_MAX[case['dtype'] or 'uint8']
    X = _spacing_input(rows, case['form'], case['idtype'])
    kw = {'shape': case['shape']}
    if case['max_distance'] is not None:
        kw['max_distance'] = md
    if case['dtype'] is not None:
        kw['dtype'] = DT[case['dtype']]
    if case['symmetric'] is not None:
        kw['symmetric'] = case['symmetric']
    if case.get('omit'):
        kw = {k: v for k, v in kw.items() if v is not None}
    try:
        y = pairwise_annotations_spacing(X, **kw)
    except Exception as e:
        return ['pairwise_annotations_spacing raised %s (every pair must either be counted at its gap or contribute nothing)' % _exc(e)]
    if not isinstance(y, torch.Tensor) or tuple(y.shape) != (A, A, md):
        return ['pairwise_annotations_spacing shape %s, expected %s' % (tuple(getattr(y, 'shape', ())), (A, A, md))]
    if case['dtype'] is not None and y.dtype != DT[case['dtype']]:
        out.append('pairwise_annotations_spacing dtype %s, requested %s' % (y.dtype, case['dtype']))
    g = y.to(torch.float64)
    exp = torch.zeros(A, A, md, dtype=torch.float64)
    for (a, b, d), u in U.items():
        exp[a, b, d] += u
        if a != b:
            exp[b, a, d] += u
    if symmetric:
        got = g
    else:
        # only the total of the two triangles is fixed by the statement
        got = g + g.transpose(0, 1)
        idx = torch.arange(A)
        got[idx, idx] = g[idx, idx]
        if bool((g < 0).any()):
            out.append('pairwise_annotations_spacing(symmetric=False) has negative entries')
    if not torch.equal(got, exp):
        bad = (got != exp).nonzero().tolist()
        a, b, d = bad[0]
        out.append('pairwise_annotations_spacing%s differs from direct counting at %d entries; first: entry (%d, %d, d=%d) = %s, expected %s%s'
                   % (' (default call)' if case['symmetric'] is None else '', len(bad), a, b, d, got[a, b, d].item(), exp[a, b, d].item(),
                      '' if symmetric else ' (sum of both triangles)'))
    return out


def _classify(rows, md):
    """(first overlapping pair, first pair with gap == max_distance) among same-example pairs"""
    ov = eq = None
    for i in range(len(rows)):
        for j in range(i + 1, len(rows)):
            if rows[i][0] != rows[j][0]:
                continue
            _, _, d = _gap(rows[i], rows[j])
            if d < 0 and ov is None:
                ov = (i, j)
            if d == md and eq is None:
                eq = (i, j)
            if ov is not None and eq is not None:
                return ov, eq
    return ov, eq


def _gen_spacing_rows(rng, cls, n_rows, n_ex, n_an, md):
    """cls: 'clean' (disjoint, no gap == md), 'overlap' (overlaps, no gap == md), 'eq' (disjoint, some gap == md), 'free'"""
    for attempt in range(50):
        rows = []
        if cls in ('clean', 'eq'):
            pos = {}
            for _ in range(n_rows):
                e = rng.randrange(n_ex)
                p = pos.get(e, rng.randint(0, 3))
                ln = rng.randint(1, 6)
                rows.append([e, rng.randrange(n_an), p, p + ln])
                g = rng.choice([0, 0, 1, md - 1, md, md + 1, rng.randint(0, 2 * md + 2), rng.randint(0, md)])
                g = max(g, 0)
                pos[e] = p + ln + g
            rng.shuffle(rows)
        else:
            R = rng.choice([5, 10, 30, 100, 3 * n_rows + 5])
            for _ in range(n_rows):
                e = rng.randrange(n_ex)
                s = rng.randint(0, R)
                rows.append([e, rng.randrange(n_an), s, s + rng.randint(1, rng.choice([2, 6, 15]))])
            if rng.random() < 0.5 and len(rows) > 1:
                # plant coincident and nested spans
                r = rng.choice(rows)
                rows[rng.randrange(len(rows))] = [r[0], rng.randrange(n_an), r[2], r[3]]
                r = rng.choice(rows)
                if r[3] - r[2] >= 3:
                    rows[rng.randrange(len(rows))] = [r[0], rng.randrange(n_an), r[2] + 1, r[3] - 1]
        ov, eq = _classify(rows, md)
        if cls == 'clean' and ov is None and eq is None:
            return rows
        if cls == 'overlap' and eq is None and ov is not None:
            return rows
        if cls == 'eq' and ov is None and eq is not None:
            return rows
        if cls == 'free':
            return rows
        if cls in ('clean', 'overlap') and eq is not None and attempt > 20:
            # remove one row of every pair at exactly max_distance
            while eq is not None and len(rows) > 1:
                rows.pop(eq[1])
                ov, eq = _classify(rows, md)
            if (cls == 'clean' and ov is None) or (cls == 'overlap' and ov is not None):
                return rows
    return None


def _pick_dtype(rng, U):
    m = max(list(U.values()) + [0]) * 2
    ok = [d for d in ('uint8', 'uint8', 'int16', 'int32', 'int64', 'float32') if DT_MAX[d] >= m]
    return rng.choice(ok)


def _report_spacing(lim, case, v):
    """attribute a failing table to 2-row sub-tables: an overlapping pair / a pair at gap == max_distance"""
    if not v:
        return
    rows, md = case['rows'], DEFAULT_MAX_DISTANCE if case['max_distance'] is None else case['max_distance']
    ov, eq = _classify(rows, md)
    explained = False
    for pair, key in ((ov, 'spacing-overlapping-pair-indexed-by-negative-gap'), (eq, 'spacing-gap-equal-max_distance-raises')):
        if pair is None:
            continue
        sub = dict(case, rows=[rows[pair[0]], rows[pair[1]]])
        if sub['shape'] is not None:
            sub['shape'] = max(sub['shape'], max(r[1] for r in sub['rows']) + 1)
        sv = check_spacing(sub)
        if sv:
            # control: the same two rows with the right one moved to a countable gap must pass
            left, right, _ = _gap(sub['rows'][0], sub['rows'][1])
            g = 0 if pair is ov else md - 1
            ctrl = dict(sub, rows=[list(left), [right[0], right[1], left[3] + g, left[3] + g + right[3] - right[2]]])
            if not check_spacing(ctrl):
                lim.report(sv, sub, key)
                explained = True
    if not explained:
        lim.report([x[:400] for x in v], case, None)
    elif len(rows) > 2:
        # is there anything left once the offending rows are gone?  drop rows until no overlap / eq pair remains
        rest = [list(r) for r in rows]
        o, q = _classify(rest, md)
        while (o is not None or q is not None) and len(rest) > 1:
            rest.pop((o or q)[1])
            o, q = _classify(rest, md)
        rc = dict(case, rows=rest)
        rv = check_spacing(rc)
        if rv:
            lim.report([x[:400] for x in rv], rc, None)


def _run_spacing(rep, lim):
    rng, thorough = rep.rng, rep.tier == 'thorough'
    # order (each block stops the whole part when the part's time slice is used up): the small corner tables and the
    # three-row tables come first - they are cheap and are the only ones in which two pairs of one row share a cell
    state = {'n': 0}

    def two_rows():
      smax, lmax, mdmax = (11, 5, 7) if thorough else (8, 4, 5)
      n = state['n']
      for md in range(1, mdmax + 1):
          for l0 in range(1, lmax + 1):
              for l1 in range(1, lmax + 1):
                  for s0 in range(0, smax + 1):
                      for s1 in range(0, smax + 1):
                          if rep.out_of_time():
                              rep.note('time budget reached in the two-row spacing enumeration')
                              return False
                          n += 1
                          a0, a1 = [(0, 1), (1, 0), (1, 1), (0, 0)][n % 4]
                          rows = [[0, a0, s0, s0 + l0], [0, a1, s1, s1 + l1]]
                          case = {'kind': 'spacing', 'rows': rows, 'form': SPACING_FORMS[n % len(SPACING_FORMS)], 'idtype': 'int64',
                                  'dtype': ['uint8', 'int32', 'int64'][n % 3], 'max_distance': md, 'symmetric': n % 7 != 0, 'shape': None}
                          v = check_spacing(case)
                          _, _, d = _gap(rows[0], rows[1])
                          rep.case(('sp2', md, l0, l1, s0, s1), nontrivial=True, sample=case,
                                   section='spacing-2rows-%s' % ('overlap' if d < 0 else 'gap<md' if d < md else 'gap==md' if d == md else 'gap>md'))
                          _report_spacing(lim, case, v)
      rep.mark_exhaustive('pairwise_annotations_spacing on every two-row table with starts 0-%d, lengths 1-%d, max_distance 1-%d' % (smax, lmax, mdmax))
      state['n'] = n
      return True

    def three_rows():
      n = state['n']
      # exhaustive three-row tables (all listing orders, as the product is over ordered triples): two pairs of one row in one cell,
      # listed before / between / after its partners
      spans = [(s0, s0 + l) for s0 in range(0, 5 if thorough else 4) for l in (1, 2)]
      for md in (1, 2, 3):
          for trip in itertools.product(spans, repeat=3):
              if rep.out_of_time():
                  rep.note('time budget reached in the three-row spacing enumeration')
                  return False
              n += 1
              anns = [[(n + i) % 2 for i in range(3)], [0, 0, 0], [1, 0, 0], [0, 2, 0]][(n // 3) % 4]
              rows = [[0, anns[i], sp[0], sp[1]] for i, sp in enumerate(trip)]
              case = {'kind': 'spacing', 'rows': rows, 'form': SPACING_FORMS[n % len(SPACING_FORMS)], 'idtype': 'int64',
                      'dtype': 'int32', 'max_distance': md, 'symmetric': n % 5 != 0, 'shape': None}
              v = check_spacing(case)
              rep.case(('sp3', md, trip), sample=None, section='spacing-3rows')
              _report_spacing(lim, case, v)
      rep.mark_exhaustive('pairwise_annotations_spacing on every three-row table with starts 0-%d, lengths 1-2, max_distance 1-3' % (4 if thorough else 3))
      state['n'] = n
      return True

    def corners(small):
      # corners: default call (max_distance 100, uint8, symmetric), 200 rows of one example
      corner = [
          [[0, 0, 0, 5], [0, 1, 8, 12], [0, 1, 8, 12], [1, 0, 3, 4]],                             # the two coincident spans share a cell
          [[0, 1, 0, 4], [0, 0, 103, 110], [0, 2, 104, 105], [0, 1, 204, 206], [0, 1, 205, 207]],   # gaps 99 (counted), 100 (not), 98, 99 ...
          [[3, 2, 50, 60], [3, 2, 10, 20], [3, 0, 159, 170], [3, 0, 160, 170], [3, 1, 60, 61]],
          [[0, 0, 10 * i, 10 * i + 10 - i % 3] for i in range(200)],                               # 200 rows, one example, 19900 pairs
          [[i % 2, i % 3, 7 * i, 7 * i + 1 + i % 6] for i in range(200)],
      ]
      k = 0
      for rows in corner:
          if (len(rows) < 100) != small:
              continue
          for form in (SPACING_FORMS if len(rows) < 100 else SPACING_FORMS[k % 4::4]):
              if rep.out_of_time():
                  return False
              k += 1
              omit = k % 2 == 0
              U = _spacing_expected(rows, DEFAULT_MAX_DISTANCE if omit else 100 + k)
              case = {'kind': 'spacing', 'rows': rows, 'form': form, 'idtype': ['int64', 'int32', 'int16'][k % 3],
                      'dtype': None if omit else _pick_dtype(rng, U), 'max_distance': None if omit else 100 + k,
                      'symmetric': None if omit else k % 3 != 0, 'shape': [None, 3, None, 12][k % 4], 'omit': omit}
              v = check_spacing(case)
              rep.case(('sp-corner', k, repr(rows), form), nontrivial=len(U) > 0, sample=None, section='spacing-corners')
              _report_spacing(lim, case, v)
      return True

    if not (corners(True) and three_rows() and two_rows() and corners(False)):
        return
    per = 2500 if thorough else 400
    max_rows = 200
    max_pairs = 20000 if thorough else 3000
    for cls in ('clean', 'overlap', 'eq', 'free'):
        for k in range(per):
            if rep.out_of_time():
                rep.note('time budget reached in the random spacing tables (%s, %d)' % (cls, k))
                return
            omit = rng.random() < 0.1
            md = DEFAULT_MAX_DISTANCE if omit else rng.choice([1, 2, 3, 5, 10, 20, rng.randint(1, 60)])
            for _ in range(20):
                n_rows = rng.choice([2, 3, 5, rng.randint(1, 30), rng.randint(1, max_rows)])
                n_ex, n_an = rng.randint(1, 8), rng.randint(1, 10)
                rows = _gen_spacing_rows(rng, cls, n_rows, n_ex, n_an, md)
                if rows is not None and _n_pairs(rows) <= max_pairs:
                    break
            else:
                continue
            U = _spacing_expected(rows, md)
            if omit and max(list(U.values()) + [0]) * 2 > DT_MAX['uint8']:
                omit = False
            shape = None
            if rng.random() < 0.25:
                shape = max(r[1] for r in rows) + 1 + rng.choice([0, 1, 2, 15])
            idt = rng.choice(['int64', 'int64', 'int32', 'int16'])
            if idt == 'int16' and max(r[3] for r in rows) > 30000:
                idt = 'int32'
            if rng.random() < 0.2:
                # genomic coordinates: the whole table translated; gaps unchanged
                # (a narrower integer type wraps consistently, so a fixed offset alone would leave the gaps intact: half of the
                # offsets put the table across a power-of-two boundary; 248956422 > 2 ** 24 is not exact in float32)
                mid = sorted(r[2] for r in rows)[len(rows) // 2]
                off = rng.choice([10 ** 6, 248956422, 3 * 10 ** 9] + [max(2 ** b - mid, 0) for b in (15, 16, 31, 32)])
                rows = [[r[0], r[1], r[2] + off, r[3] + off] for r in rows]
                idt = 'int64' if max(r[3] for r in rows) > 2 ** 31 - 1 else rng.choice(['int64', 'int32'])
            case = {'kind': 'spacing', 'rows': rows, 'form': SPACING_FORMS[k % len(SPACING_FORMS)], 'idtype': idt,
                    'dtype': None if omit else _pick_dtype(rng, U), 'max_distance': None if omit else md,
                    'symmetric': None if omit else rng.random() < 0.75, 'shape': shape, 'omit': omit}
            v = check_spacing(case)
            rep.case(('sp', cls, k, repr(rows)), nontrivial=len(U) > 0, sample=case if len(rows) <= 5 else None, section='spacing-random-%s' % cls)
            _report_spacing(lim, case, v)


# ----------------------------------------------------------------------------------------------
# kmers
# ----------------------------------------------------------------------------------------------

def _kmer_expected(seq, n, k, scores, big_endian):
    exp = [0] * (n ** k)
    for p in range(len(seq) - k + 1):
        win = seq[p:p + k]
        j = 0
        for i, c in enumerate(win):
            j += c * (n ** ((k - 1 - i) if big_endian else i))
        exp[j] += 1 if scores is None else sum(scores[p:p + k])
    return exp


def _kmer_seqs(case):
    n = case['n']
    if case.get('all'):
        return [list(t) for t in itertools.product(range(n), repeat=case['L'])]
    if case.get('long'):
        # {'seed', 'L', 'B', 'mode': 'homo' | 'near' | 'random'}: long sequences are regenerated, not stored
        g = case['long']
        r = random.Random(repr(('kmer-long', g['seed'])))
        seqs = []
        for _ in range(g['B']):
            if g['mode'] == 'random':
                sq = [r.randrange(n) for _ in range(g['L'])]
            else:
                sq = [r.randrange(n)] * g['L']
                if g['mode'] == 'near':
                    for _ in range(1 + g['L'] // 2000):
                        sq[r.randrange(g['L'])] = r.randrange(n)
            seqs.append(sq)
        return seqs
    return [[int(ch) for ch in s] for s in case['seqs']]


def _kmer_scores(case, seqs):
    if case.get('scores') is not None:
        return case['scores']
    if case.get('score_seed') is None:
        return None
    r = random.Random(('kmer-scores', case['score_seed']).__repr__())
    m = case.get('smag', 5)
    return [[r.randint(-m, m) for _ in s] for s in seqs]


def _kmer_onehot(seqs, n, xdtype, layout):
    """one-hot tensor of logical shape (B, n, L); layout 'contiguous' | 'permuted' (a view of a (B, L, n) tensor) | 'strided' (every
    second position of a (B, n, 2L) tensor whose other positions hold a different sequence)"""
    B, L = len(seqs), len(seqs[0])
    idx = torch.tensor(seqs, dtype=torch.int64)
    dt = getattr(torch, xdtype)
    if layout == 'permuted':
        X = torch.zeros(B, L, n, dtype=dt)
        X.scatter_(2, idx[:, :, None], 1)
        return X.permute(0, 2, 1)
    if layout == 'strided':
        W = torch.zeros(B, n, 2 * L, dtype=dt)
        both = torch.stack([idx, (idx + 1) % n], dim=2).reshape(B, 2 * L)
        W.scatter_(1, both[:, None, :], 1)
        return W[:, :, ::2]
    X = torch.zeros(B, n, L, dtype=dt)
    X.scatter_(1, idx[:, None, :], 1)
    return X


def check_kmers(case):
    """case: {'kind': 'kmers', 'n': letters, 'k', 'xdtype', 'xlayout' (default contiguous), and either 'all': True, 'L' (every sequence
    of length L), 'long': {...} (regenerated long sequences) or 'seqs': [digit strings of equal length]; 'scores': None | [[int]] or
    'score_seed' (+ 'smag': magnitude); 'sdtype' (default float32), 'sstrided': scores passed as every second column of a wider tensor}"""
    n, k = case['n'], case['k']
    seqs = _kmer_seqs(case)
    L = len(seqs[0])
    assert L >= k and all(len(s) == L for s in seqs)
    scores = _kmer_scores(case, seqs)
    X = _kmer_onehot(seqs, n, case.get('xdtype', 'int8'), case.get('xlayout', 'contiguous'))
    assert tuple(X.shape) == (len(seqs), n, L)
    X0 = X.clone()
    try:
        if scores is None:
            y = kmers(X, k)
        else:
            S = torch.tensor(scores, dtype=getattr(torch, case.get('sdtype', 'float32')))
            if case.get('sstrided'):
                W = torch.full((len(seqs), 2 * L), 7, dtype=S.dtype)
                W[:, ::2] = S
                S = W[:, ::2]
            y = kmers(X, k, scores=S)
    except Exception as e:
        return ['kmers raised %s' % _exc(e)]
    if not isinstance(y, torch.Tensor) or tuple(y.shape) != (len(seqs), n ** k):
        return ['kmers shape %s, expected %s' % (tuple(getattr(y, 'shape', ())), (len(seqs), n ** k))]
    out = []
    if not torch.equal(X, X0):
        out.append('kmers modified its input')
    g = y.to(torch.float64).tolist()
    for be in (False, True):
        bad = None
        for i, s in enumerate(seqs):
            e = _kmer_expected(s, n, k, None if scores is None else scores[i], be)
            if g[i] != [float(v) for v in e]:
                bad = (i, e)
                break
        if bad is None:
            return out
        if not be:
            first_bad = bad
    i, e = first_bad
    sq = ''.join(map(str, seqs[i]))
    if len(sq) > 60:
        diff = [(j, g[i][j], e[j]) for j in range(len(e)) if g[i][j] != e[j]][:6]
        out.append('kmers row differs from direct counting (either positional convention): sequence %s... (length %d)%s k=%d, first differing '
                   'entries (index, got, expected; first-letter-least-significant numbering) %s' % (sq[:40], len(sq), '' if scores is None else ' with scores', k, diff))
    else:
        out.append('kmers row differs from direct counting (either positional convention): sequence %s%s k=%d got %s expected %s'
                   % (sq, '' if scores is None else ' scores %s' % scores[i], k, g[i], e))
    return out


def _report_kmers(lim, case, v):
    if not v:
        return
    seqs = _kmer_seqs(case)
    if len(seqs) > 1 and len(seqs[0]) <= 400:
        scores = _kmer_scores(case, seqs)
        for i, s in enumerate(seqs):
            sub = {key: val for key, val in case.items() if key not in ('all', 'L', 'long', 'seqs', 'scores', 'score_seed', 'smag')}
            sub.update({'seqs': [''.join(map(str, s))], 'scores': None if scores is None else [scores[i]]})
            sv = check_kmers(sub)
            if sv:
                lim.report([x[:400] for x in sv], sub, None)
                return
    small = dict(case)
    lim.report([x[:400] for x in v], small, None)


XDT = ['int8', 'float32', 'int64', 'int32', 'uint8', 'float64']
XLAYOUT = ['contiguous', 'permuted', 'contiguous', 'strided']
SDT = ['float32', 'int64', 'float64', 'float32', 'int32']


def _run_kmers(rep, lim):
    rng, thorough = rep.rng, rep.tier == 'thorough'
    c = 0
    for n, maxL in ((4, 6), (2, 6), (3, 6)):
        for k in range(1, 5):
            for L in range(k, maxL + 1):
                for sc in (None, 1):
                    if rep.out_of_time():
                        return
                    c += 1
                    case = {'kind': 'kmers', 'n': n, 'k': k, 'L': L, 'all': True, 'xdtype': XDT[c % len(XDT)], 'xlayout': XLAYOUT[(c // 2) % 4],
                            'score_seed': None if sc is None else rep.seed * 100000 + c, 'smag': [5, 3000][(c // 2) % 2],
                            'sdtype': SDT[(c // 2) % len(SDT)], 'sstrided': (c // 2) % 3 == 0}
                    v = check_kmers(case)
                    for _ in range(1):
                        rep.case(('kmers-all', n, k, L, sc), sample=case, section='kmers-exhaustive')
                    rep.sections['kmers-exhaustive-sequences'] = rep.sections.get('kmers-exhaustive-sequences', 0) + n ** L
                    _report_kmers(lim, case, v)
    rep.mark_exhaustive('kmers on every sequence of length k..6 over 4, 3 and 2 letters for k = 1..4, with and without scores')
    # long sequences: one k-mer counted thousands of times (still exact in float32), scores summing to < 2 ** 24
    for j in range(60 if thorough else 12):
        if rep.out_of_time():
            return
        mode, L, sc = list(itertools.product(['homo', 'near', 'random'], [40000, 5000], [False, True]))[j % 12]
        n = [4, 2, 5, 4, 3][j % 5]
        k = 1 + (j * 7 // 3) % 4
        case = {'kind': 'kmers', 'n': n, 'k': k, 'long': {'seed': rep.seed * 1000 + j, 'L': L, 'B': 1 + j % 2, 'mode': mode},
                'xdtype': XDT[j % len(XDT)], 'xlayout': XLAYOUT[j % 4], 'score_seed': rep.seed * 1000 + j if sc else None, 'smag': 20,
                'sdtype': SDT[j % len(SDT)], 'sstrided': j % 3 == 0}
        v = check_kmers(case)
        rep.case(('kmers-long', j), sample=None, section='kmers-long')
        _report_kmers(lim, case, v)
    for j in range(3000 if thorough else 300):
        if rep.out_of_time():
            return
        n = rng.choice([4, 4, 4, 1, 2, 3, 5])
        k = rng.randint(1, 4)
        L = rng.choice([k, k + 1, 7, 20, rng.randint(k, 300)])
        L = max(L, k)
        B = rng.randint(1, 4)
        seqs = [''.join(str(rng.randrange(n)) for _ in range(L)) for _ in range(B)]
        if rng.random() < 0.3:
            seqs[0] = str(rng.randrange(n)) * L          # homopolymer
        scores = None
        if rng.random() < 0.5:
            m = rng.choice([9, 9, 3000])
            scores = [[rng.randint(-m, m) for _ in range(L)] for _ in range(B)]
        case = {'kind': 'kmers', 'n': n, 'k': k, 'seqs': seqs, 'scores': scores, 'xdtype': XDT[j % len(XDT)], 'xlayout': rng.choice(XLAYOUT),
                'sdtype': rng.choice(SDT), 'sstrided': rng.random() < 0.3}
        v = check_kmers(case)
        rep.case(('kmers', j, tuple(seqs)), sample=case if L <= 8 else None, section='kmers-random')
        _report_kmers(lim, case, v)


def run(rep):
    lim = _Lim(rep)
    # every part gets a slice of the budget (time a part leaves unused rolls over to the later ones): on a loaded
    # machine no part is starved by the ones before it - the exhaustive small spacing tables in particular
    total, t0 = rep.budget_s, rep.t0
    import time as _time
    for part, share in ((_run_spacing, 0.35), (_run_pair, 0.2), (_run_count, 0.15), (_run_kmers, 0.3)):
        rep.budget_s = min(total, (_time.time() - t0) + share * total)
        part(rep, lim)
    rep.budget_s = total
    lim.finish()


def replay(case):
    k = case.get('kind')
    if k == 'count':
        return check_count(case)
    if k == 'pair':
        return check_pair(case)
    if k == 'spacing':
        return check_spacing(case)
    if k == 'kmers':
        return check_kmers(case)
    return ['unknown replay kind']
