"""Bounded stand-in for C17 (match.extract_matching_loci) -- never counted as proved.

Every case writes a synthetic FASTA (and, optionally, a bigWig) into a scratch directory, calls the
REAL extract_matching_loci and compares the returned frame with an oracle that is computed directly
from the generated genome / signal strings and the input loci (nothing of match.py is imported by
the oracle).

Reading of the statement used by the oracle (every place where the statement leaves a choice is
resolved in favour of the code under test, i.e. the oracle uses two-sided bounds):
 * tile t of a chromosome = [t*W, (t+1)*W), t < len // W.
 * "touched by an input locus": tile overlaps [start, end) of a locus as given (original
   coordinates).  The pinned code masks the larger set start//W .. end//W; tiles that are only in
   that larger set are allowed to be returned or not (E_hi / E_lo below).
 * N fraction = (#N in the tile) / W, compared with `<=` (float division, as a decimal rational the
   same thing).
 * signal of a tile = sum (missing data = 0) over the centred out_window columns.  When W - out is
   odd two centrings are defensible ([floor, ceil] flanks as in the code, or the midpoint rule of
   _resize_coords_generator); a tile is only reported when it exceeds the threshold under both.
 * robust minimum = the 1 % quantile (linear interpolation) of the summed signal of the valid input
   loci over their centred out_window (doc-string of signal_beta + the name robust_min); threshold
   = signal_beta * robust minimum.
 * usable input locus: its in_window-resized window lies inside its chromosome and the N fraction of
   that window is below max_n_perc.  The code uses `<`, the doc-string says `<=`; the oracle uses
   L_lo (`<`) for every lower bound and L_hi (`<=`) for every upper bound, so both readings pass.
 * GC bin of a window with GC fraction g: (g + width/2) // width in float64 arithmetic.  This is the
   definition of the bins (half of all GC counts sit exactly on a bin edge for W = 100, width 0.02,
   so no independent rounding rule exists); it is the only formula shared with the code.
 * a call that raises on an input inside the quantifier is reported (the matched set is not
   delivered), under its own finding key.
 * the threshold is compared without tolerance whenever it is known exactly: the two order statistics
   the 1 % quantile interpolates between are equal and signal_beta * that value is a float32 number
   (all generated signals are integers, so every summed signal is exact).  A tile whose summed signal
   EQUALS the threshold is then eligible ("not above") and must be available to the matching.
 * how the arguments are handed over does not change the property: loci as a DataFrame (plain,
   with further bed columns after the first three, with a non-default index) or as the path of a
   header-less tab-separated bed file; chroms as list / tuple / numpy array in any order;
   random_state as an int or as a freshly seeded numpy RandomState.  Exact duplicates among the input
   loci count as separate input loci (the statement counts loci, not distinct intervals).

POSSIBLE DEFECT (both readings below are kept behind flags that are False; with the flags False the
oracle stays two-sided and the unchanged tree passes)
 1. STRICT_END_EXCLUSIVE_MASK: bed intervals are end-exclusive, so a locus chr1:50-100 with
    in_window=50 touches tile 1 only.  extract_matching_loci masks locus.start // W .. locus.end // W
    inclusive, i.e. also tile 2 (100-150).  Input: genome = 4 tiles of 50 bp, 20 % GC, no N;
    loci = 3 x (chr1, 50, 100); in_window = out_window = 50, gc_bin_width 0.02, max_n_perc 0.1, no
    bigwig: three usable inputs, three untouched eligible tiles (0, 2, 3) of the same GC bin, but
    only tiles 0 and 3 are returned -> one input stays unmatched although eligible background is
    left (directed case 'mask-end-exclusive'; fires as unmatched-while-background-left when the
    flag is True).
 2. STRICT_USABLE_LE: background tiles are kept with N fraction <= max_n_perc, input loci only with
    N fraction < max_n_perc (the doc-string says loci with a HIGHER N fraction are dropped).  Input:
    directed case 'max-n-0.0' (N-free locus chr1:60-80, max_n_perc = 0): the input is dropped and
    nothing is returned although 4 eligible N-free tiles of its GC bin exist (fires as
    bin-underfilled when the flag is True).
"""
import math
import os
import shutil
import tempfile

import numpy
import pandas

SCOPE = {
    'quick': 'directed explicit genomes (GC bin 0 spill, in_window == out_window with bigWig, 100 %-GC tiles with bin widths whose '
             'reciprocal has fractional part >= .5, N == max_n_perc, masks; boundary cases in which the ONLY eligible background has N fraction == '
             'max_n_perc (W 50..500) or summed signal == signal_beta * robust minimum (out_window 1/30/31/50), input windows flush with both '
             'chromosome ends (even/odd W, partial last tile, bigWig), exact duplicate loci, end-exclusive loci on a tile boundary, a chromosome '
             'shorter than one tile, 7 chromosomes in non-sorted order; loci as bed / bed6 file path, bed6 frame, int- and str-indexed frame, '
             'random_state as RandomState object, chroms reversed / tuple / array) + ~150 seeded random VARIANT genomes (same generator as below plus: '
             'loci as file path / extra bed columns / non-default index, RandomState objects, chroms shuffled and subset as list/tuple/array, '
             '0-60 % exact duplicate loci, 0-30 % windows flush with the chromosome ends, 30-90 % of the tiles rewritten to N fraction == max_n_perc, '
             'zero background signal so that the threshold is known exactly and compared without tolerance) '
             '+ ~400 seeded random genomes: 1-3 chromosomes, 20-400 tiles, '
             'in_window in {50..500}, out_window <= in_window, GC blocks 0-100 % not aligned to tiles, N runs and sprinkled N, lower case, '
             '5-200 loci (uniform and clustered, some invalid / N-rich), bin widths 0.01-0.1, max_n_perc 0-0.5, with/without bigWig '
             '(integer signal, gaps), chroms None / explicit; all clauses at n_jobs=1 (called twice: determinism), then 9 cases each at '
             'n_jobs 2, 3, 4 compared with n_jobs=1 (one 7-chromosome directed case, 3 variant cases, 5 plain random cases)',
    'thorough': 'same generators, up to 2500 variant (at most a quarter of the time) and 10000 random genomes (time-capped), 41 cases per n_jobs value 2, 3, 4',
}

STRICT_END_EXCLUSIVE_MASK = False     # see POSSIBLE DEFECT 1 above
STRICT_USABLE_LE = False              # see POSSIBLE DEFECT 2 above

CHROMS = ['chrA', 'chrB', 'chrC']
WIDTHS = [0.01, 0.02, 0.025, 0.03, 0.04, 0.05, 0.06, 0.07, 0.08, 0.1]


# ----------------------------------------------------------------------------------------------
# building the inputs from a case
# ----------------------------------------------------------------------------------------------

def _build(case):
    """-> genome {chrom: str}, signal {chrom: float array with nan = no data} or None, loci list"""
    W = case['W']
    if case['kind'] == 'explicit':
        genome, signal = {}, ({} if case.get('signal') is not None else None)
        for name, tiles, tail in case['genome']:
            genome[name] = ''.join('G' * g + 'N' * n + 'A' * (W - g - n) for g, n in tiles) + 'T' * tail
        if signal is not None:
            for name, per_tile in case['signal']:
                v = numpy.zeros(len(genome[name]))
                for t, x in enumerate(per_tile):
                    v[t * W:(t + 1) * W] = numpy.nan if x is None else x
                signal[name] = v
        return genome, signal, [tuple(l) for l in case['loci']]
    rs = numpy.random.RandomState(case['seed'])
    genome, lengths = {}, {}
    for name, blocks, nruns in case['genome']:
        parts = []
        for nbp, gc, pn, lower in blocks:
            u, v = rs.random_sample(nbp), rs.random_sample(nbp)
            arr = numpy.where(u < gc, numpy.where(v < 0.5, 'G', 'C'), numpy.where(v < 0.5, 'A', 'T'))
            if pn > 0:
                arr[rs.random_sample(nbp) < pn] = 'N'
            s = ''.join(arr.tolist())
            parts.append(s.lower() if lower else s)
        s = ''.join(parts)
        for st, ln in nruns:
            s = s[:st] + 'N' * len(s[st:st + ln]) + s[st + ln:]
        genome[name] = s
        lengths[name] = len(s)
    # tiles rewritten to carry exactly round(max_n_perc * W) N (N fraction == max_n_perc: still eligible)
    k = int(round(case['max_n'] * W))
    for name, t in case.get('n_exact', []):
        s = genome[name]
        if (t + 1) * W <= len(s):
            tile = s[t * W:(t + 1) * W].replace('N', 'A').replace('n', 'a')
            genome[name] = s[:t * W] + tile[:W - k] + 'N' * k + s[(t + 1) * W:]
    # loci
    spec = case['loci_spec']
    loci = []
    names = [g[0] for g in case['genome']]
    for k in range(spec['n']):
        if spec.get('p_flush') and rs.random_sample() < spec['p_flush']:
            # window flush with the first / last base of the chromosome (still a valid, usable locus)
            c = names[rs.randint(len(names))]
            st = 0 if rs.random_sample() < 0.5 else lengths[c] - W
            loci.append((c, int(st), int(st + W)))
            continue
        if spec['hot'] and rs.random_sample() < spec['frac_hot']:
            c, centre, spread = spec['hot'][rs.randint(len(spec['hot']))]
            mid = int(centre + rs.randint(-spread, spread + 1))
        else:
            c = names[rs.randint(len(names))]
            mid = int(rs.randint(0, lengths[c]))
        if rs.random_sample() < spec['p_edge']:
            mid = int(rs.choice([rs.randint(0, W), lengths[c] - 1 - rs.randint(0, W)]))
        width = int(rs.randint(1, spec['wmax'] + 1))
        if rs.random_sample() < spec['p_aligned']:      # tile-aligned loci: end is a multiple of W
            st = (mid // W) * W
            loci.append((c, st, st + W * int(rs.randint(1, 3))))
        else:
            st = mid - width // 2
            loci.append((c, int(st), int(st + width)))
    if spec.get('p_dup'):                                  # exact duplicates of earlier loci
        for k in range(1, len(loci)):
            if rs.random_sample() < spec['p_dup']:
                loci[k] = loci[int(rs.randint(k))]
    signal = None
    if case['bigwig']:
        signal = {}
        b = case['signal_spec']
        for name in names:
            v = rs.poisson(b['lam0'], size=lengths[name]).astype(float)
            signal[name] = v
        for c, centre, spread in spec['hot']:
            lo, hi = max(0, centre - spread - W), min(lengths[c], centre + spread + W)
            signal[c][lo:hi] += rs.poisson(b['lam_hot'], size=hi - lo)
        for c, st, ln, lam in b['blocks']:
            seg = signal[c][st:st + ln]
            seg += rs.poisson(lam, size=len(seg))
        for c, st, ln in b['gaps']:
            signal[c][st:st + ln] = numpy.nan
    return genome, signal, loci


def _write(dirname, genome, signal):
    import pyBigWig
    fa = os.path.join(dirname, 'g.fa')
    with open(fa, 'w') as f:
        for name, s in genome.items():
            f.write('>%s\n' % name)
            for i in range(0, len(s), 70):
                f.write(s[i:i + 70] + '\n')
    bw = None
    if signal is not None:
        bw = os.path.join(dirname, 's.bw')
        b = pyBigWig.open(bw, 'w')
        b.addHeader([(name, len(s)) for name, s in genome.items()])
        for name in genome:
            v = signal[name]
            ok = ~numpy.isnan(v)
            i, n = 0, len(v)
            while i < n:
                if not ok[i]:
                    i += 1
                    continue
                j = i
                while j < n and ok[j]:
                    j += 1
                b.addEntries(name, i, values=[float(x) for x in v[i:j]], span=1, step=1)
                i = j
        b.close()
    return fa, bw


# ----------------------------------------------------------------------------------------------
# the oracle
# ----------------------------------------------------------------------------------------------

def _gc_bin(seq, width):
    s = seq.upper()
    g = (s.count('G') + s.count('C')) / len(s)
    return int((g + width / 2.) // width)


def _n_frac(seq):
    return seq.upper().count('N') / len(seq)


def _sum(v, a, b):
    return float(numpy.nansum(v[a:b]))


def _quantile01(xs):
    xs = sorted(xs)
    pos = 0.01 * (len(xs) - 1)
    lo = int(math.floor(pos))
    hi = min(lo + 1, len(xs) - 1)
    return xs[lo] + (xs[hi] - xs[lo]) * (pos - lo)


def _oracle(case, genome, signal, loci):
    W, out, width, max_n = case['W'], case['out'], case['gcw'], case['max_n']
    use = case.get('chroms') or sorted(set(c for c, _, _ in loci))
    o = {'use': use}
    # usable input loci and their bins
    L_lo, L_hi, counts = {}, {}, []
    for c, s, e in loci:
        mid = s + (e - s) // 2
        a, b = mid - W // 2, mid + (W + 1) // 2
        if c not in genome or a < 0 or b > len(genome[c]):
            continue
        if signal is not None:
            counts.append(_sum(signal[c], mid - out // 2, mid + (out + 1) // 2))
        win = genome[c][a:b]
        nf = _n_frac(win)
        k = _gc_bin(win, width)
        if nf < max_n:
            L_lo[k] = L_lo.get(k, 0) + 1
        if nf <= max_n:
            L_hi[k] = L_hi.get(k, 0) + 1
    if STRICT_USABLE_LE:
        L_lo = dict(L_hi)
    o['L_lo'], o['L_hi'], o['n_valid'] = L_lo, L_hi, len(counts)
    thr, exact = None, False
    if signal is not None:
        thr = case['beta'] * _quantile01(counts) if counts else float('nan')
        if counts:
            xs = sorted(counts)
            lo = int(math.floor(0.01 * (len(xs) - 1)))
            # both neighbours of the 1 % position equal -> every interpolation formula returns that value
            exact = xs[lo] == xs[min(lo + 1, len(xs) - 1)] and float(numpy.float32(thr)) == thr
    o['thr'], o['thr_exact'] = thr, exact
    # tiles
    touched, generous = {c: set() for c in genome}, {c: set() for c in genome}
    for c, s, e in loci:
        if c in genome:
            touched[c].update(range(s // W, (e - 1) // W + 1))
            generous[c].update(range(s // W, e // W + 1))
    left, right = (W - out) // 2, (W - out + 1) // 2
    info = {}
    for c in use:
        for t in range(len(genome[c]) // W):
            tile = genome[c][t * W:(t + 1) * W]
            d = {'bin': _gc_bin(tile, width), 'n_ok': _n_frac(tile) <= max_n, 'touched': t in touched[c], 'generous': t in generous[c],
                 'sig_hi': True, 'sig_lo': True, 'sig': None}
            if signal is not None:
                mid = t * W + W // 2
                s1 = _sum(signal[c], t * W + left, (t + 1) * W - right)
                s2 = _sum(signal[c], mid - out // 2, mid + (out + 1) // 2)
                d['sig'] = (s1, s2)
                tol = 0.0 if exact else 1e-9 * (1 + abs(thr))
                d['sig_hi'] = min(s1, s2) <= thr + tol       # acceptable under some reading
                d['sig_lo'] = max(s1, s2) <= thr - tol       # eligible under every reading
            d['E_hi'] = d['n_ok'] and d['sig_hi'] and not d['touched']
            d['E_lo'] = d['n_ok'] and d['sig_lo'] and not (d['touched'] if STRICT_END_EXCLUSIVE_MASK else d['generous'])
            info[(c, t)] = d
    o['info'] = info
    o['max_bin'] = max([d['bin'] for d in info.values()] + list(L_hi) + [0])
    return o


def _call(case, fa, bw, loci, n_jobs):
    from tangermeme.match import extract_matching_loci
    call = case.get('call') or {}
    df = pandas.DataFrame({'chrom': [l[0] for l in loci], 'start': [l[1] for l in loci], 'end': [l[2] for l in loci]})
    if call.get('extra_cols'):             # bed6: name, score, strand after the three coordinates
        df['name'] = ['peak%d' % i for i in range(len(df))]
        df['score'] = [(37 * i) % 1000 for i in range(len(df))]
        df['strand'] = ['+-'[i % 2] for i in range(len(df))]
    if call.get('index'):                  # labels that are neither 0..n-1 nor sorted
        df.index = ['r%d' % (len(df) - i) for i in range(len(df))] if call['index'] == 'str' else \
                   [3 * (len(df) - i) + 100 for i in range(len(df))]
    loci_arg = df
    if call.get('as_path'):                # header-less tab-separated bed file
        loci_arg = os.path.join(os.path.dirname(fa), 'loci.bed')
        df.to_csv(loci_arg, sep='\t', header=False, index=False)
    chroms = case.get('chroms')
    if chroms is not None and call.get('chroms_as') == 'tuple':
        chroms = tuple(chroms)
    elif chroms is not None and call.get('chroms_as') == 'array':
        chroms = numpy.array(chroms)
    rs = case['random_state']
    if call.get('rs_obj'):
        rs = numpy.random.RandomState(rs)
    kw = dict(in_window=case['W'], out_window=case['out'], max_n_perc=case['max_n'], gc_bin_width=case['gcw'],
              chroms=chroms, random_state=rs, n_jobs=n_jobs, verbose=False)
    if bw is not None:
        kw.update(bigwig=bw, signal_beta=case['beta'])
    r = extract_matching_loci(loci_arg, fa, **kw)
    return [(str(c), int(s), int(e)) for c, s, e in zip(r['chrom'], r['start'], r['end'])]


def _tmpdir():
    base = os.environ.get('VERIF_TMP')
    if base and not os.path.isdir(base):
        base = None
    return tempfile.mkdtemp(prefix='c17_', dir=base)


def _eval(case, parts=('clauses', 'njobs')):
    """-> (list of (finding, message), stats dict)"""
    out = []
    genome, signal, loci = _build(case)
    o = _oracle(case, genome, signal, loci)
    W = case['W']
    d = _tmpdir()
    stats = {'returned': 0, 'usable': sum(o['L_lo'].values()), 'usable_hi': sum(o['L_hi'].values()), 'exact_thr': bool(o['thr_exact']),
             'at_thr': sum(1 for q in o['info'].values() if o['thr_exact'] and q['sig'] is not None and max(q['sig']) == o['thr'] and q['E_lo']),
             'n_eq': sum(1 for (c, t), q in o['info'].items() if q['E_lo'] and _n_frac(genome[c][t * W:(t + 1) * W]) == case['max_n'])}
    if signal is not None and o['n_valid'] == 0:
        return out, stats          # no valid input locus: the robust minimum is undefined, nothing to assert
    try:
        fa, bw = _write(d, genome, signal)
        try:
            got = _call(case, fa, bw, loci, 1)
        except Exception as e:
            nb = int(1. / case['gcw']) + 1
            if o['max_bin'] >= nb and isinstance(e, (KeyError, IndexError)) and str(o['max_bin']) in str(e):
                out.append(('gc-bin-index-out-of-range',
                            'raised %s(%s): a window has GC bin %d but only int(1/%s)+1 = %d bins exist' % (type(e).__name__, e, o['max_bin'], case['gcw'], nb)))
            else:
                out.append(('raised-' + type(e).__name__, 'raised %s: %s' % (type(e).__name__, str(e)[:120])))
            return out, stats
        stats['returned'] = len(got)
        if 'clauses' in parts:
            out += _clauses(case, genome, o, got)
            again = _call(case, fa, bw, loci, 1)
            if again != got:
                out.append(('not-deterministic', 'two calls with random_state=%r and n_jobs=1 differ' % case['random_state']))
        if 'njobs' in parts:
            for k in case.get('n_jobs', []):
                try:
                    other = _call(case, fa, bw, loci, k)
                except Exception as e:
                    out.append(('n-jobs-raised', 'n_jobs=%d raised %s: %s' % (k, type(e).__name__, str(e)[:100])))
                    continue
                if other != got:
                    out.append(('n-jobs-dependent', 'result for n_jobs=%d differs from n_jobs=1 (%d vs %d rows)' % (k, len(other), len(got))))
    finally:
        shutil.rmtree(d, ignore_errors=True)
    return out, stats


def _clauses(case, genome, o, got):
    out = []
    W, info = case['W'], o['info']
    seen = set()
    R = {}
    good = []
    rows = {}          # finding -> list of messages (aggregated below: one violation per finding and case)

    def row(f, m):
        rows.setdefault(f, []).append(m)
    for c, s, e in got:
        tag = '%s:%d-%d' % (c, s, e)
        if c not in genome or s % W != 0 or e - s != W or s < 0 or e > len(genome[c]):
            row('not-a-tile', '%s is not an in_window-aligned tile inside its chromosome (W=%d, len=%s)' % (tag, W, len(genome.get(c, '')) or None))
            continue
        if (c, s) in seen:
            row('returned-twice', '%s returned more than once' % tag)
            continue
        seen.add((c, s))
        d = info.get((c, s // W))
        if d is None:
            row('chrom-not-requested', '%s lies on a chromosome outside chroms=%s' % (tag, o['use']))
            continue
        R[d['bin']] = R.get(d['bin'], 0) + 1
        good.append((c, s // W))
        if d['touched']:
            row('overlaps-input', '%s is a tile touched by an input locus' % tag)
        if not d['n_ok']:
            row('n-fraction', '%s has N fraction %.4f > max_n_perc %s' % (tag, _n_frac(genome[c][s:e]), case['max_n']))
        if not d['sig_hi']:
            f = 'signal-filter-void-when-in-eq-out' if case['out'] == W else 'signal-above-threshold'
            row(f, '%s has summed signal %s over the centred out_window=%d > %.6g = signal_beta * robust minimum' % (tag, min(d['sig']), case['out'], o['thr']))
    for f, ms in rows.items():
        out.append((f, ms[0] + ('' if len(ms) == 1 else ' (and %d more returned loci like this, of %d returned)' % (len(ms) - 1, len(got)))))
    n_ret = len(got)
    L_lo, L_hi = o['L_lo'], o['L_hi']
    if n_ret > sum(L_hi.values()):
        out.append(('more-than-usable', '%d loci returned for %d usable input loci' % (n_ret, sum(L_hi.values()))))
    E_lo, E_hi = {}, {}
    for key, d in info.items():
        if d['E_lo']:
            E_lo[d['bin']] = E_lo.get(d['bin'], 0) + 1
        if d['E_hi']:
            E_hi[d['bin']] = E_hi.get(d['bin'], 0) + 1
    under, over = [], []
    for b in sorted(set(L_lo) | set(R)):
        need = min(L_lo.get(b, 0), E_lo.get(b, 0))
        if R.get(b, 0) < need:
            under.append('GC bin %d received %d < min(%d inputs, %d eligible)' % (b, R.get(b, 0), L_lo.get(b, 0), E_lo.get(b, 0)))
        if R.get(b, 0) > E_hi.get(b, 0):
            over.append('GC bin %d received %d > %d eligible' % (b, R.get(b, 0), E_hi.get(b, 0)))
    if under:
        out.append(('bin-underfilled', under[0] + ('' if len(under) == 1 else ' (and %d more bins)' % (len(under) - 1))))
    if over and not rows:        # implied by the row clauses; kept as a cross-check of the oracle
        out.append(('bin-overfilled', over[0] + ('' if len(over) == 1 else ' (and %d more bins)' % (len(over) - 1))))
    if n_ret < sum(L_lo.values()):
        gs = set(good)
        left_over = sorted((d['bin'], key) for key, d in info.items() if d['E_lo'] and key not in gs)
        if left_over:
            bins = sorted(set(b for b, _ in left_over))
            f = 'spill-skips-gc-bin-0' if bins == [0] else 'unmatched-while-background-left'
            out.append((f, '%d of %d usable inputs unmatched although %d eligible background tiles are unused (GC bins %s), e.g. %s:%d' % (
                sum(L_lo.values()) - n_ret, sum(L_lo.values()), len(left_over), bins[:6], left_over[0][1][0], left_over[0][1][1] * W)))
    return out


def check_match(case):
    return [m for _, m in _eval(case)[0]]


# ----------------------------------------------------------------------------------------------
# case generators
# ----------------------------------------------------------------------------------------------

def _directed():
    W = 50
    base = dict(kind='explicit', W=W, out=W, gcw=0.02, max_n=0.1, beta=0.5, random_state=0, chroms=None, signal=None)
    cases = []
    # three usable inputs (10 % GC) in tiles 1..3, background: ten 0 %-GC tiles only  -> 3 expected
    g = [['chr1', [[5, 0]] * 5 + [[0, 0]] * 10, 7]]
    cases.append(dict(base, name='bin0-only-background', genome=g, loci=[['chr1', 60, 80], ['chr1', 110, 130], ['chr1', 160, 190]]))
    # same with background 2 % GC (bin 1): control
    g = [['chr1', [[5, 0]] * 5 + [[1, 0]] * 10, 0]]
    cases.append(dict(base, name='bin1-only-background', genome=g, loci=[['chr1', 60, 80], ['chr1', 110, 130], ['chr1', 160, 190]]))
    # spill upward and downward, more inputs than background
    g = [['chr1', [[25, 0]] * 4 + [[0, 0]] * 2 + [[50, 0]] * 1 + [[24, 0], [30, 0]], 3]]
    cases.append(dict(base, name='exhaustion', genome=g, loci=[['chr1', 50 + 3 * i, 100 + 3 * i] for i in range(12)]))
    # bigwig: in_window == out_window, tiles 6..9 carry 100/bp, inputs carry 10/bp -> threshold 250
    g = [['chr1', [[20, 0]] * 14, 0]]
    sig = [['chr1', [10, 10, 10, 10, 0, 0, 100, 100, 100, 100, 0, 0, 0, None]]]
    loci = [['chr1', 60, 90], ['chr1', 100, 150], ['chr1', 155, 170]]
    cases.append(dict(base, name='signal-in-eq-out', genome=g, signal=sig, loci=loci))
    cases.append(dict(base, name='signal-in-gt-out', out=30, genome=g, signal=sig, loci=loci))
    cases.append(dict(base, name='signal-odd-flanks', out=31, genome=g, signal=sig, loci=loci))
    # 100 % GC tile with bin widths for which int(1/w)+1 bins are too few
    g = [['chr1', [[5, 0]] * 3 + [[50, 0]] + [[5, 0]] * 3, 0]]
    for w in (0.06, 0.08, 0.035, 0.02, 0.1):
        cases.append(dict(base, name='all-gc-tile-w%s' % w, gcw=w, genome=g, loci=[['chr1', 60, 80]]))
    # N fraction exactly max_n_perc (tiles eligible, inputs usable or not: both readings pass), and above
    g = [['chr1', [[5, 5]] * 3 + [[5, 6]] * 3 + [[5, 5]] * 3 + [[5, 0]] * 2, 0]]
    cases.append(dict(base, name='n-equal-max', genome=g, loci=[['chr1', 60, 80], ['chr1', 510, 530]]))
    for mn in (0.0, 0.5):
        cases.append(dict(base, name='max-n-%s' % mn, max_n=mn, genome=[['chr1', [[5, 0]] * 3 + [[5, 25]] * 2 + [[5, 26]] * 2 + [[5, 0]] * 2, 0]],
                          loci=[['chr1', 60, 80]]))
    # masks: locus ending on a tile boundary, spanning several tiles, invalid loci, two chromosomes, chroms argument
    g = [['chr1', [[10, 0]] * 12, 11], ['chr2', [[10, 0]] * 6, 0]]
    loci = [['chr1', 100, 150], ['chr1', 240, 410], ['chr1', -5, 20], ['chr1', 590, 640], ['chr2', 60, 70], ['chr2', 149, 151]]
    cases.append(dict(base, name='masks', genome=g, loci=loci))
    cases.append(dict(base, name='masks-chroms-subset', genome=g, loci=loci, chroms=['chr1']))
    cases.append(dict(base, name='masks-chroms-other', genome=g, loci=loci[:4], chroms=['chr2']))
    # ---- boundary values that decide eligibility / usability (each is the ONLY way to reach the lower bound) ----
    # the only eligible background has N fraction exactly max_n_perc; the three inputs are N-free tiles 0..2
    # (0.29 * 100, 0.29 * 200 and 0.41 * 300 are just BELOW 29, 58 and 123 in float arithmetic; 29/100 == 0.29 etc. hold)
    for W_, mn, k in ((50, 0.1, 5), (100, 0.25, 25), (64, 0.5, 32), (200, 0.05, 10), (500, 0.3, 150), (100, 0.29, 29), (200, 0.29, 58), (300, 0.41, 123)):
        gg = W_ // 10
        g = [['chr1', [[gg, 0]] * 3 + [[gg, k]] * 4 + [[gg, k + 1]] * 3, 0]]
        loci = [['chr1', t * W_ + W_ // 2 - 5, t * W_ + W_ // 2 + 5] for t in range(3)]
        cases.append(dict(base, name='n-equal-max-needed-W%d-%s' % (W_, mn), W=W_, out=W_, max_n=mn, genome=g, loci=loci))
    # the only eligible background has summed signal exactly signal_beta * robust minimum (inputs 10/bp, tiles 4..6 5/bp, 7..9 6/bp)
    g = [['chr1', [[10, 0]] * 14, 0]]
    sig = [['chr1', [10] * 4 + [5] * 3 + [6] * 3 + [100] * 4]]
    loci = [['chr1', t * W + 20, t * W + 30] for t in (1, 2, 3)]
    for o_ in (50, 30, 31, 1):
        cases.append(dict(base, name='signal-equal-threshold-out%d' % o_, out=o_, genome=g, signal=sig, loci=loci))
    cases.append(dict(base, name='signal-equal-threshold-beta1', out=30, beta=1.0, genome=g, loci=loci,
                      signal=[['chr1', [10] * 4 + [10] * 3 + [11] * 3 + [100] * 4]]))
    # input windows flush with both ends of the chromosome are valid (with and without a partial last tile, even and odd W)
    g = [['chr1', [[5, 0]] * 6, 0]]
    cases.append(dict(base, name='windows-flush-with-ends', genome=g, loci=[['chr1', 0, 50], ['chr1', 250, 300], ['chr1', 20, 30]]))
    g = [['chr1', [[5, 0]] * 6, 7]]
    cases.append(dict(base, name='windows-flush-with-ends-odd', W=51, out=51, genome=g, loci=[['chr1', 0, 51], ['chr1', 262, 313], ['chr1', 25, 26]]))
    cases.append(dict(base, name='windows-flush-with-ends-bigwig', out=20, genome=[['chr1', [[5, 0]] * 6, 0]], signal=[['chr1', [4, 1, 1, 1, 1, 4]]],
                      loci=[['chr1', 0, 50], ['chr1', 250, 300], ['chr1', 20, 30]], beta=1.0))
    # exact duplicates are separate input loci: 8 usable inputs, 8 eligible tiles
    g = [['chr1', [[5, 0]] * 10, 0]]
    cases.append(dict(base, name='duplicate-loci', genome=g, loci=[['chr1', 60, 80]] * 6 + [['chr1', 110, 120]] * 2))
    # end-exclusive intervals (see POSSIBLE DEFECT 1; passes with the two-sided mask)
    cases.append(dict(base, name='mask-end-exclusive', genome=[['chr1', [[10, 0]] * 4, 0]], loci=[['chr1', 50, 100]] * 3))
    # a chromosome shorter than one tile (no tiles at all), with and without bigWig
    g = [['chr1', [[5, 0]] * 8, 0], ['chrS', [], 30]]
    loci = [['chr1', 60, 80], ['chr1', 210, 230], ['chrS', 5, 20]]
    cases.append(dict(base, name='tiny-chromosome', genome=g, loci=loci))
    cases.append(dict(base, name='tiny-chromosome-bigwig', out=30, genome=g, loci=loci, signal=[['chr1', [10, 10, 0, 0, 10, 0, 100, 0]], ['chrS', []]]))
    # ---- the same inputs handed over in the other supported ways ----
    g = [['chr1', [[10, 0]] * 12, 11], ['chr2', [[10, 0]] * 6, 0]]
    loci = [['chr1', 100, 150], ['chr1', 240, 410], ['chr1', -5, 20], ['chr1', 590, 640], ['chr2', 60, 70], ['chr2', 149, 151]]
    for nm, call in (('bed-file', dict(as_path=True)), ('bed6-file', dict(as_path=True, extra_cols=True)), ('bed6-frame', dict(extra_cols=True)),
                     ('frame-int-index', dict(index='int')), ('frame-str-index', dict(index='str', extra_cols=True)),
                     ('randomstate-object', dict(rs_obj=True))):
        cases.append(dict(base, name='masks-' + nm, genome=g, loci=loci, call=call))
    cases.append(dict(base, name='masks-chroms-reversed', genome=g, loci=loci, chroms=['chr2', 'chr1']))
    cases.append(dict(base, name='masks-chroms-tuple', genome=g, loci=loci, chroms=['chr2', 'chr1'], call=dict(chroms_as='tuple')))
    cases.append(dict(base, name='masks-chroms-array', genome=g, loci=loci, chroms=['chr2', 'chr1'], call=dict(chroms_as='array', as_path=True)))
    cases.append(_many_chroms(False))
    cases.append(_many_chroms(True))
    for c in cases:
        c.setdefault('n_jobs', [])
    return cases


def _many_chroms(bigwig):
    """seven chromosomes (more than any n_jobs used), names whose lexicographic order differs from the order in the FASTA,
    a different GC level / tile count / mask on each; chroms handed over in FASTA order (not sorted)"""
    W = 50
    names = ['chr2', 'chr10', 'chr1', 'chrX', 'chr3', 'chrM', 'chr21']
    genome, loci, sig = [], [], []
    for i, nm in enumerate(names):
        nt = 5 + i
        tiles = [[(3 * i + 2 * t) % 26, 0] for t in range(nt)]
        tiles[-1] = [tiles[-1][0], 6]                      # last tile: 12 % N > max_n_perc
        genome.append([nm, tiles, i])
        loci.append([nm, W * (i % 3) + 10, W * (i % 3) + 30])
        loci.append([nm, W * 3 + 20, W * 3 + 40 + 10 * i])
        sig.append([nm, [10 if t in (i % 3, 3, 4) else (100 if t == (i + 1) % nt else 0) for t in range(nt)]])
    case = dict(kind='explicit', W=W, out=W, gcw=0.04, max_n=0.1, beta=0.5, random_state=11, chroms=list(names), signal=None,
                name='many-chromosomes' + ('-bigwig' if bigwig else ''), genome=genome, loci=loci, n_jobs=[])
    if bigwig:
        case.update(signal=sig, out=30)
    return case


def _random_case(rng, profile, seed):
    W = rng.choice([50, 50, 64, 100, 100, 101, 150, 200, 250, 333, 500, rng.randint(50, 500)])
    gcw = rng.choice(WIDTHS + [round(rng.uniform(0.01, 0.1), 3)])
    max_n = rng.choice([0.0, 0.05, 0.1, 0.1, 0.2, 0.25, 0.5, round(rng.uniform(0, 0.5), 2)])
    n_chr = rng.randint(1, 3)
    cap = max(20, 60000 // W)
    if profile == 'scarce':
        total_tiles = rng.randint(20, min(80, cap))
        n_loci = rng.randint(20, 200)
        levels = rng.choice([[0.0, 0.3], [0.0, 0.0, 0.5], [0.0, 0.04, 0.6], [0.0, 1.0, 0.4], [0.1, 0.5], [0.0]])
        frac_hot = rng.choice([0.9, 1.0])
    else:
        total_tiles = rng.randint(60, min(400, cap))
        n_loci = rng.randint(5, 60) if rng.random() < 0.7 else rng.randint(60, 200)
        levels = [0.0, 0.02, 0.1, 0.2, 0.3, 0.4, 0.5, 0.6, 0.7, 0.85] + ([1.0] if rng.random() < 0.25 else [])
        frac_hot = rng.choice([0.0, 0.5, 0.8])
    genome, lengths = [], {}
    for ci in range(n_chr):
        name = CHROMS[ci]
        nt = max(4, total_tiles // n_chr + rng.randint(-3, 3))
        nbp = nt * W + rng.randint(0, W - 1)
        blocks, left = [], nbp
        while left > 0:
            ln = min(left, rng.randint(W, max(W + 1, 12 * W)) + rng.randint(0, W - 1))
            if left - ln < W:
                ln = left
            pn = rng.choice([0, 0, 0, 0, 0.02, 0.08, 0.3]) if profile != 'scarce' else rng.choice([0, 0, 0, 0.05])
            blocks.append([ln, rng.choice(levels), pn, rng.random() < 0.2])
            left -= ln
        nruns = [[rng.randint(0, nbp - 1), rng.randint(W // 4, 3 * W)] for _ in range(rng.choice([0, 0, 1, 2]) if profile != 'scarce' else rng.choice([0, 0, 1]))]
        genome.append([name, blocks, nruns])
        lengths[name] = nbp
    hot = []
    for _ in range(rng.randint(1, 3) if frac_hot > 0 else 0):
        c = rng.choice([g[0] for g in genome])
        centre = rng.randint(W, max(W + 1, lengths[c] - W))
        hot.append([c, centre, rng.choice([W // 4, W, 2 * W])])
    loci_spec = dict(n=n_loci, hot=hot, frac_hot=frac_hot, p_edge=rng.choice([0, 0.05, 0.1]), wmax=rng.choice([W // 2, W, 2 * W, 3 * W]),
                     p_aligned=rng.choice([0, 0, 0.2]))
    bigwig = rng.random() < (0.45 if profile != 'scarce' else 0.25)
    out = W
    if rng.random() < 0.7:
        out = rng.choice([W - 2 * rng.randint(1, W // 2 - 1), rng.randint(1, W), max(1, W - 1), max(2, W // 2)])
    case = dict(kind='random', seed=seed, W=W, out=out, gcw=gcw, max_n=max_n, genome=genome, loci_spec=loci_spec, bigwig=bigwig,
                beta=rng.choice([0.1, 0.5, 0.5, 1.0, round(rng.uniform(0.05, 1.0), 2)]), random_state=rng.randint(0, 10 ** 6), n_jobs=[],
                chroms=None, profile=profile)
    if bigwig:
        names = [g[0] for g in genome]
        sb = dict(lam0=rng.choice([0.0, 0.02, 0.2, 1.0]), lam_hot=rng.choice([2.0, 10.0, 30.0]), blocks=[], gaps=[])
        for _ in range(rng.randint(0, 4)):
            c = rng.choice(names)
            sb['blocks'].append([c, rng.randint(0, lengths[c] - 1), rng.randint(W // 2, 6 * W), rng.choice([0.5, 3.0, 20.0])])
        for _ in range(rng.randint(0, 2)):
            c = rng.choice(names)
            sb['gaps'].append([c, rng.randint(0, lengths[c] - 1), rng.randint(1, 4 * W)])
        case['signal_spec'] = sb
    r = rng.random()
    if r < 0.15:
        case['chroms'] = [g[0] for g in genome]
    elif r < 0.25 and n_chr > 1:
        case['chroms'] = [g[0] for g in genome][:rng.randint(1, n_chr - 1)]
    return case


def _vary(rng, case):
    """turn a random case into a 'variant' case: other ways of handing the arguments over, chroms in any order, duplicated loci,
    windows flush with the chromosome ends, tiles with N fraction == max_n_perc, zero-background signal (threshold known exactly)"""
    W = case['W']
    call = {}
    if rng.random() < 0.35:
        call['as_path'] = True
    if rng.random() < 0.5:
        call['extra_cols'] = True
    if not call.get('as_path') and rng.random() < 0.5:
        call['index'] = rng.choice(['int', 'str'])
    if rng.random() < 0.3:
        call['rs_obj'] = True
    names = [g[0] for g in case['genome']]
    if rng.random() < 0.5:
        ch = names[:]
        rng.shuffle(ch)
        if rng.random() < 0.3:
            ch = ch[:rng.randint(1, len(ch))]
        case['chroms'] = ch
        call['chroms_as'] = rng.choice(['list', 'tuple', 'array'])
    spec = case['loci_spec']
    spec['p_dup'] = rng.choice([0, 0.2, 0.6])
    spec['p_flush'] = rng.choice([0, 0.1, 0.3])
    ms = [m for m in range(1, 51) if (m * W) % 100 == 0]
    if ms and rng.random() < 0.5:                       # a max_n_perc (two decimals) that a whole number of N can hit exactly
        case['max_n'] = rng.choice(ms + [29] * (29 in ms)) / 100.
    k = case['max_n'] * W
    if abs(k - round(k)) < 1e-9 and 0 < round(k) < W and round(k) / W == case['max_n'] and rng.random() < 0.8:
        frac = rng.choice([0.3, 0.6, 0.9])
        case['n_exact'] = [[g[0], t] for g in case['genome'] for t in range(sum(b[0] for b in g[1]) // W) if rng.random() < frac]
    if case['bigwig'] and rng.random() < 0.6:
        case['signal_spec']['lam0'] = 0.0
        case['beta'] = rng.choice([0.5, 1.0, 0.25, case['beta']])
    case['call'] = call
    return case


def _slim(case):
    return {k: v for k, v in case.items() if k not in ('profile',)}


def _one(rep, case, section, key, parts=('clauses',)):
    viol, stats = _eval(case, parts)
    rep.case(key, nontrivial=stats['returned'] > 0 or bool(viol), section=section,
             sample={k: case.get(k) for k in ('kind', 'name', 'seed', 'W', 'out', 'gcw', 'max_n', 'bigwig', 'random_state') if case.get(k) is not None})
    for f, m in viol:
        rep.violation(m, _slim(case), finding=f)
    return viol, stats


def run(rep):
    thorough = rep.tier == 'thorough'
    rng = rep.rng
    for case in _directed():
        _one(rep, case, 'directed', ('d', case['name']))
    n_random = 10000 if thorough else 400
    n_variant = 2500 if thorough else 150
    per_nj = 41 if thorough else 9          # 1 directed many-chromosome case + variant cases + plain random cases
    # reserve time for the n_jobs part (each change of n_jobs restarts the loky pool: 3-5 s)
    reserve = min((per_nj * 0.3 + 6) * 3, 0.4 * rep.budget_s)
    pool, vpool = [], []
    n_ret = n_edge = 0
    # variant cases first (at most a quarter of the budget): argument forms, chroms order, duplicates, flush windows, boundary N / signal
    n_exact_thr = n_at_thr = n_n_eq = 0
    for k in range(n_variant):
        if rep.left() < 0.75 * rep.budget_s:
            rep.note('time budget: %d of %d variant cases evaluated' % (k, n_variant))
            break
        profile = 'scarce' if k % 2 == 0 else 'plenty'
        case = _vary(rng, _random_case(rng, profile, seed=rep.seed * 100003 + 50000 + k))
        viol, stats = _one(rep, case, 'variant-' + profile + ('+bigwig' if case['bigwig'] else ''), ('v', rep.seed, k))
        n_ret += stats['returned']
        n_exact_thr += stats['exact_thr']
        n_at_thr += stats['at_thr'] > 0
        n_n_eq += stats['n_eq'] > 0
        if not viol and len(case['genome']) > 1 and k % 4 == 0:
            vpool.append(case)
    rep.note('variant part: threshold known exactly in %d bigWig cases (%d with an eligible tile AT the threshold), %d cases with an eligible '
             'tile whose N fraction equals max_n_perc' % (n_exact_thr, n_at_thr, n_n_eq))
    for k in range(n_random):
        if rep.left() < reserve:
            rep.note('time budget: %d of %d random cases evaluated' % (k, n_random))
            break
        profile = 'scarce' if k % 3 == 0 else 'plenty'
        case = _random_case(rng, profile, seed=rep.seed * 100003 + k)
        viol, stats = _one(rep, case, profile + ('+bigwig' if case['bigwig'] else ''), ('r', rep.seed, k))
        n_ret += stats['returned']
        n_edge += stats['usable'] == 0 and stats['usable_hi'] > 0 and not viol
        if not any(f.startswith('raised') or f == 'gc-bin-index-out-of-range' for f, _ in viol) and len(case['genome']) > 1:
            pool.append(case)
    rep.note('%d background loci returned and checked in the variant + random parts' % n_ret)
    rep.note('observation, not asserted: in %d cases every input locus with N fraction == max_n_perc (e.g. max_n_perc = 0) was dropped by '
             'the strict `<` of the input filter while tiles are kept with `<=`; "usable" is read two-sidedly so this passes' % n_edge)
    for nj in (2, 3, 4):
        done = 0
        for case in [_many_chroms(nj == 3)] + vpool[(nj - 2)::3][:per_nj // 3] + pool[(nj - 2)::3]:
            if done >= per_nj or rep.out_of_time():
                break
            c = dict(case, n_jobs=[nj])
            _one(rep, c, 'n_jobs=%d' % nj, ('nj', nj, case.get('seed', case.get('name'))), parts=('njobs',))
            done += 1


def replay(case):
    if case.get('kind') in ('explicit', 'random'):
        return check_match(case)
    return ['unknown replay kind']
