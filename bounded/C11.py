"""Bounded stand-in for C11 (FIMO p-value tables) -- never counted as proved.

Observed: the REAL `fimo._pwm_to_mapping(log_pwm, bin_size)` -> (smallest, table) and the p-value
column of the REAL `fimo.fimo(...)`.

Oracle (written from the statement, nothing taken from the code but the discretisation rule
"score of a letter = round(log2((p+eps)/0.25) / bin_size)", which *defines* the discretised score):
  * pmf of the discretised score of a uniformly random sequence as exact integer counts
    (Python big ints; total 4^w), by a column-by-column counting recurrence,
  * for w <= 7 additionally by brute-force enumeration of all 4^w sequences (the two oracles are
    compared with each other first; a disagreement is a checker error, not a violation),
  * tail(b) = #{sequences with discretised score >= b} / 4^w for every integer bin b.

Clauses checked for every table entry idx (bin b = idx + smallest):
  T1 no NaN;  T2 2**table <= 1;  T3 table[idx] = log2 tail(b) to 1e-9 (absolute, in log2 units,
  i.e. 7e-10 relative on the p-value);  T4 exactly -inf (p = 0) iff b is above the highest attainable
  score;  T5 value 1 at the lowest attainable score (and that score is inside the table);
  T6 non-increasing;  T7 every attainable score is inside the table.
fimo-level: every hit reported by fimo() carries the exact tail probability of the bin of its score.

Not asserted (the statement does not fix it): the value of `smallest` itself, the length of the
table beyond the attainable range, which bins exist below the lowest attainable score.

Extensions (audit round; every one uses the same oracle and the same clauses T1-T7):
  * input classes of "every PWM" that the first version never built: all-zero columns, columns that
    do not sum to 1 (sum 0.05-1.6, entries in [0, 1]), columns with exactly tied entries
    ([a,a,b,b], [a,a,a,b]), columns whose small entries are of the order of the pseudocount
    (1e-8..1e-3), probabilities rounded to 2-4 decimals (MEME files); eps log-uniform in
    [1e-6, 0.1] incl. both end points (not only the six decades), bin sizes at full float
    precision incl. exactly 0.01 and 1.0;
  * the way the matrix is handed over: a column slice of a wider matrix (what fimo()
    passes: motifs[:, s:e]), views with negative strides, every second row of an 8-row matrix, and
    float32 log-odds (a dict of default-dtype torch tensors gives float32).  For float32 the
    discretised score is defined on the float32 log-odds exactly as fimo() builds them; an entry
    within a few float32 ulps of a rounding tie makes the case "not asserted";
  * `_all_pwm_to_mapping` (the call fimo() actually makes; 1-10 motifs of width 1-16 concatenated,
    motif_lengths uint64 cumsum, reverse-complement copies appended like fimo does): EVERY entry of
    EVERY returned table against the oracle, not only the entries some hit happens to look up.
    Skipped with a note if the function does not exist (it is not named by the property);
  * fimo() p-value column with: threshold 1.0 (nearly every window is a hit, so the LOW end of the
    table is looked up), the default threshold 1e-4 and 1e-3 with widths up to 20 and the
    consensus / a one-mismatch neighbour / the anti-consensus of the motif and of its reverse
    complement PLANTED (incl. offsets 0 and L-w), so that the TOP bins and the bins above the
    highest attainable discretised score (real score / bin_size can exceed the sum of the rounded
    letter scores; the statement demands p = 0 there) are looked up in every run;
    reverse_complement=False, dim=1, 1-6 motifs, float32 motifs, numpy / float64 / int8 one-hot
    sequences, the default bin_size / eps.
  * an exception raised by the real call is a violation (TypingError for a dtype/layout, IndexError ...).
  * a case with a rounding tie is counted as trivial (it asserts nothing).
  * the run ends once STOP_AFTER violations are recorded (see _enough: a refuted kernel that indexes
    without bounds checks can corrupt the heap and take the report with it).
One hit class is NOT judged, see POSSIBLE DEFECT below (flag ASSERT_UNKNOWN_CHAR_ABOVE_HIGHEST_ATTAINABLE).
"""
import itertools
import math

import numpy
import torch

from tangermeme.tools import fimo as F

# ----------------------------------------------------------------------------------------------
# POSSIBLE DEFECT (found by the audit round on the unchanged tree; assertion kept, disabled)
#
#   fimo() looks the p-value of a window up at  int(score / bin_size) - smallest  in the motif's table and
#   unknown characters (N) contribute 0 to the score.  For a PWM with a column in which EVERY letter has a
#   negative log-odds score (all entries + eps < 0.25: an all-zero "padding" column, a column that does not sum
#   to 1) a window with N at that column scores ABOVE the highest score any real sequence attains, by more
#   than the w spare bins the table has.  The statement wants p = 0 there ("zero exactly above the highest
#   attainable score"); the code reads past the end of that motif's table, i.e. the first entries of the NEXT
#   motif's table (p = 1, 0.25, ...) or, for the last motif, memory behind the concatenated tables.
#   Concrete input (defaults bin_size=0.1, eps=1e-4, threshold=1.0, reverse_complement=True):
#       motif  [[0, 3.13e-05], [0, 6.11e-07], [0, 1.77e-07], [0, 0.99997]]   (4 x 2, first column all zero)
#       sequence 'CTGGNNCACTTGCCNCCTCACAGNAAANCAGGAGAC': the window 'NN' at start 4 has score 0.0, the
#       highest attainable discretised score is -93 (table bins -226 .. -91), reported p-value 0.25, exact 0.
#   A one-column motif [[0.14], [0.17], [0.11], [0.17]] (sum < 1, hence all log-odds negative) scanned over
#   'ACGTNACGT' (threshold 1.0) reports the N at start 4 with whatever lies behind its table (1.0, 0.958, ...
#   depending on the neighbouring motifs) instead of 0.
#   (replay: {'kind': 'fimo-p', 'pwms': [that motif], 'seqs': [that sequence], 'eps': 0.0001, 'bin': 0.1, 'threshold': 1.0}
#   with the flag set to True.)
#   Not reachable with columns that sum to 1 (then some letter has p >= 0.25, a non-negative rounded score).
#   With the flag False such hits are not judged; everything else about these PWMs is.
ASSERT_UNKNOWN_CHAR_ABOVE_HIGHEST_ATTAINABLE = False
# ----------------------------------------------------------------------------------------------

ALPHA = 'ACGT'
LOG_TOL = 1e-9          # "floating-point accuracy" in log2 units
BIN_SIZES = [0.01, 0.02, 0.05, 0.1, 0.2, 0.25, 0.5, 1.0]
EPSS = [1e-6, 1e-5, 1e-4, 1e-3, 1e-2, 0.1]

SCOPE = {
    'quick': 'PWMs 4 x w; (a)-(c) float64 with columns summing to 1, contiguous; (a) exhaustive over a library of 9 column types (uniform, 4 one-hot, '
             'two-zero, one-zero, skewed, near-uniform): every PWM of width 1 and 2 x all 48 (bin, eps) pairs of '
             '{0.01,0.02,0.05,0.1,0.2,0.25,0.5,1} x {1e-6,1e-5,1e-4,1e-3,1e-2,0.1}, every PWM of width 3 x 6 pairs; '
             '(b) seeded random PWMs (Dirichlet conc. 0.05-50, zero entries, uniform / one-hot / repeated columns mixed in): '
             '500 of width 1..7 checked against brute-force enumeration of all 4^w sequences AND the big-int counting '
             'recurrence, 300 of width 8..30 against the recurrence; bin sizes as above or uniform random in [0.01, 1]; '
             'every entry of every returned table compared; (c) p-value column of 150 fimo() runs (1-3 motifs of width '
             '1..8, 1-3 random sequences of length 20-60 with N, threshold 0.5/0.1/0.01, both strands); '
             '(d) 400 seeded random PWMs of width 1..12 from the EXTENDED column family (additionally all-zero columns, columns '
             'with sum 0.05-1.6, exactly tied entries, entries 1e-8..1e-3 next to the pseudocount, probabilities rounded to 2-4 '
             'decimals), eps log-uniform in [1e-6,0.1] incl. end points, bin uniform/log-uniform in [0.01,1] at full precision '
             'incl. end points, handed over as C / column-slice / negative-stride / strided-row float64 or C / '
             'column-slice float32 log-odds; (e) 120 _all_pwm_to_mapping calls (1-10 motifs of width 1..16 incl. rc copies, '
             'float64 or float32), every entry of every table; (f) p-value column of 150 further fimo() runs: 1-6 motifs of '
             'width 1..20, threshold 1.0 / 0.5 / 0.01 / 1e-3 / 1e-4, consensus / one-mismatch / anti-consensus of motif and rc '
             'planted at offsets incl. 0 and L-w, reverse_complement True/False, dim 0/1, float64/float32 motifs, torch '
             'float32 / float64 / int8 and numpy one-hot input, default bin_size/eps in 40 % of the runs',
    'thorough': 'as quick with (a) widths 1-3 x all 48 pairs and width 4 x 6 pairs, (b) up to 6000 + 4000 random PWMs, '
                '(c) up to 1500 fimo() runs with widths 1..12, (d) up to 4000 extended-family PWMs of width 1..30, (e) up to '
                '1200 _all_pwm_to_mapping calls, (f) up to 1500 further fimo() runs with widths 1..30 (each part bounded by '
                'its share of the 10 min budget)',
}


# ----------------------------------------------------------------------------- oracle

def log_odds(pwm, eps):
    """the float64 log-odds matrix exactly as a caller of _pwm_to_mapping builds it (4 x w numpy)"""
    P = numpy.array(pwm, dtype=numpy.float64)
    return numpy.log2(P + eps) - math.log2(0.25)


def log_odds32(pwm, eps):
    """the float32 log-odds matrix exactly as fimo() builds it from float32 PWMs (same numpy expression)"""
    P = numpy.array(pwm, dtype=numpy.float32)
    return numpy.log2(P + eps) - math.log2(0.25)


def discretise(lp, bin_size, rel_guard=0.0):
    """integer letter scores; second value: True if some entry sits on a rounding tie (then the
    discretised score is not well defined and the case is not asserted).  rel_guard widens the tie
    zone relative to |q| (float32 log-odds: the quotient may be formed in either precision)."""
    n, w = lp.shape
    ints, tie = [], False
    for k in range(n):
        row = []
        for i in range(w):
            q = float(lp[k, i]) / bin_size
            if abs(abs(q - math.floor(q)) - 0.5) < 1e-9 + rel_guard * abs(q):
                tie = True
            row.append(int(round(q)))
        ints.append(row)
    return ints, tie


def pmf_counts(ints):
    """exact counts: dict score -> number of sequences (big ints), by the counting recurrence
    N_i(s) = sum_k N_{i-1}(s - v[k][i]).  Dense object arrays hold Python ints."""
    n, w = len(ints), len(ints[0])
    lo = hi = 0
    cur = numpy.array([1], dtype=object)
    for i in range(w):
        col = [ints[k][i] for k in range(n)]
        cmin, cmax = min(col), max(col)
        new = numpy.zeros(len(cur) + cmax - cmin, dtype=object)
        new[:] = 0                      # Python ints, arbitrary precision
        for v in col:
            d = v - cmin
            new[d:d + len(cur)] += cur
        cur, lo, hi = new, lo + cmin, hi + cmax
    return {lo + j: int(c) for j, c in enumerate(cur) if c != 0}


def pmf_enumerate(ints):
    """brute force over all 4^w sequences"""
    n, w = len(ints), len(ints[0])
    out = {}
    for seq in itertools.product(range(n), repeat=w):
        s = 0
        for i, k in enumerate(seq):
            s += ints[k][i]
        out[s] = out.get(s, 0) + 1
    return out


class Tail:
    """tail(b) as exact integer numerator over 4^w"""

    def __init__(self, counts, w):
        self.w = w
        self.total = 4 ** w
        self.lo, self.hi = min(counts), max(counts)
        acc, self.num = 0, {}
        for s in range(self.hi, self.lo - 1, -1):
            acc += counts.get(s, 0)
            self.num[s] = acc
        assert acc == self.total, 'oracle error: counts do not sum to 4^w'

    def numer(self, b):
        if b > self.hi:
            return 0
        if b < self.lo:
            return self.total
        return self.num[b]

    def log2p(self, b):
        k = self.numer(b)
        return -math.inf if k == 0 else math.log2(k) - 2 * self.w

    def p(self, b):
        return self.numer(b) / self.total


F32_GUARD = 5e-7       # ~4 float32 ulps, relative to the quotient log-odds / bin_size


def exact_tail(pwm, eps, bin_size, brute=False, f32=False):
    if f32:
        lp = log_odds32(pwm, eps)
        ints, tie = discretise(lp, bin_size, F32_GUARD)
    else:
        lp = log_odds(pwm, eps)
        ints, tie = discretise(lp, bin_size)
    counts = pmf_counts(ints)
    if brute:
        if pmf_enumerate(ints) != counts:
            raise AssertionError('oracle error: enumeration and counting recurrence disagree')
    return lp, ints, tie, Tail(counts, len(ints[0]))


# ----------------------------------------------------------------------------- checks

def _fmt(x):
    return repr(float(x))


def _p2(t):
    """2**t as text, safe for garbage table entries"""
    try:
        return repr(2.0 ** float(t))
    except OverflowError:
        return '2**%r (overflow)' % float(t)


def compare_table(smallest, table, tail, max_msgs=4):
    """all clauses T1-T7 for one returned (smallest, table); returns list of strings"""
    out, nbad = [], {}
    smallest = int(smallest)
    table = numpy.asarray(table, dtype=numpy.float64)
    L = len(table)

    def bad(tag, msg):
        nbad[tag] = nbad.get(tag, 0) + 1
        if nbad[tag] == 1:
            out.append(msg)

    if L == 0:
        return ['empty table']
    if smallest > tail.lo or smallest + L - 1 < tail.hi:
        bad('T7', 'T7 attainable scores [%d, %d] not all inside the table bins [%d, %d]' % (tail.lo, tail.hi, smallest, smallest + L - 1))
    for idx in range(L):
        b = idx + smallest
        t = float(table[idx])
        e = tail.log2p(b)
        if math.isnan(t):
            bad('T1', 'T1 NaN at bin %d (idx %d of %d); exact p = %s' % (b, idx, L, _fmt(tail.p(b))))
            continue
        if t > LOG_TOL:
            bad('T2', 'T2 p-value > 1: 2**table = %s at bin %d (idx %d); exact p = %s' % (_p2(t), b, idx, _fmt(tail.p(b))))
            continue
        if e == -math.inf:
            if t != -math.inf:
                bad('T4', 'T4 bin %d is above the highest attainable score %d but p = %s (not 0)' % (b, tail.hi, _p2(t)))
        elif t == -math.inf or t == math.inf:
            bad('T4', 'T4 p = %s at attainable-or-lower bin %d (idx %d); exact p = %s' % (_p2(t), b, idx, _fmt(tail.p(b))))
        elif abs(t - e) > LOG_TOL:
            bad('T3', 'T3 p = %s at bin %d (idx %d of %d) but the exact tail probability is %s (%d/4^%d)' % (
                _p2(t), b, idx, L, _fmt(tail.p(b)), tail.numer(b), tail.w))
        if idx + 1 < L:
            u = float(table[idx + 1])
            if not math.isnan(u) and u > t + 1e-12:
                bad('T6', 'T6 table increases from bin %d (%s) to bin %d (%s)' % (b, _fmt(t), b + 1, _fmt(u)))
    i0 = tail.lo - smallest
    if 0 <= i0 < L:
        t = float(table[i0])
        if math.isnan(t) or abs(t) > LOG_TOL:
            bad('T5', 'T5 p at the lowest attainable score %d is %s, not 1' % (tail.lo, _p2(t) if not math.isnan(t) else 'nan'))
    out = out[:max_msgs + 3]
    if out:
        out[0] += '  [failing entries by clause: %s]' % ', '.join('%s x%d' % kv for kv in sorted(nbad.items()))
    return out


LAYOUTS64 = ['C', 'slice', 'neg', 'rows']      # ('F' works too; left out: one more numba specialisation to compile)
LAYOUTS32 = ['C', 'slice']


def lay_out(lp, layout):
    """the same 4 x w matrix (same dtype, same values) in another memory layout"""
    n, w = lp.shape
    if layout == 'C':
        return numpy.ascontiguousarray(lp)
    if layout == 'F':
        return numpy.asfortranarray(lp)
    if layout == 'slice':           # what fimo() passes: a column range of the concatenated motifs
        big = numpy.empty((n, w + 5), dtype=lp.dtype)
        big[:, 0::2] = 7.25
        big[:, 1::2] = -11.5
        big[:, 2:2 + w] = lp
        return big[:, 2:2 + w]
    if layout == 'neg':             # negative strides on both axes
        return numpy.ascontiguousarray(lp[::-1, ::-1])[::-1, ::-1]
    if layout == 'rows':            # every second row of a taller matrix
        big = numpy.full((2 * n, w), 3.75, dtype=lp.dtype)
        big[0::2] = lp
        return big[0::2]
    raise ValueError(layout)


def _raised(e):
    return '%s: %s' % (type(e).__name__, ' '.join(str(e).split())[:200])


def check_table(case):
    """case: {'kind': 'table', 'pwm': 4 x w nested list, 'eps', 'bin', 'brute': bool,
    optional 'layout' (see lay_out, default 'C'), 'f32': bool (float32 log-odds)}"""
    pwm, eps, bin_size = case['pwm'], case['eps'], case['bin']
    f32 = bool(case.get('f32', False))
    lp, ints, tie, tail = exact_tail(pwm, eps, bin_size, brute=case.get('brute', False), f32=f32)
    case['_tie'] = tie
    if tie:
        return []
    arr = lay_out(lp, case.get('layout', 'C'))
    assert arr.dtype == lp.dtype and numpy.array_equal(arr, lp), 'oracle error: layout changed the matrix'
    try:
        smallest, table = F._pwm_to_mapping(arr, float(bin_size))
    except Exception as e:
        return ['_pwm_to_mapping raised %s' % _raised(e)]
    return compare_table(smallest, table, tail)


def check_all_mapping(case):
    """case: {'kind': 'all-map', 'pwms': [4 x w list, ...], 'eps', 'bin', 'f32': bool}: one call of
    _all_pwm_to_mapping on the concatenated log-odds matrix, as fimo() makes it; every table judged"""
    pwms, eps, bin_size, f32 = case['pwms'], case['eps'], case['bin'], bool(case.get('f32', False))
    lps, tails = [], []
    for pwm in pwms:
        lp, ints, tie, tail = exact_tail(pwm, eps, bin_size, f32=f32)
        lps.append(lp)
        tails.append(None if tie else tail)
    case['_n_asserted'] = sum(t is not None for t in tails)
    cat = numpy.concatenate(lps, axis=-1)
    lengths = numpy.cumsum([0] + [lp.shape[1] for lp in lps]).astype(numpy.uint64)
    try:
        smallests, tables = F._all_pwm_to_mapping(cat, lengths, float(bin_size))
    except Exception as e:
        return ['_all_pwm_to_mapping raised %s' % _raised(e)]
    if len(smallests) != len(pwms) or len(tables) != len(pwms):
        return ['_all_pwm_to_mapping returned %d offsets and %d tables for %d motifs' % (len(smallests), len(tables), len(pwms))]
    out = []
    for i, tail in enumerate(tails):
        if tail is None:
            continue
        v = compare_table(smallests[i], tables[i], tail, max_msgs=1)
        if v and len(out) < 3:
            out.append('motif %d of %d (width %d): %s' % (i, len(pwms), tail.w, v[0]))
    return out


def _seq_from(rng, L, pN):
    return ''.join('N' if rng.random() < pN else rng.choice(ALPHA) for _ in range(L))


def one_hot(seqs):
    L = len(seqs[0])
    X = torch.zeros(len(seqs), 4, L, dtype=torch.float32)
    for b, s in enumerate(seqs):
        for i, ch in enumerate(s):
            if ch in ALPHA:
                X[b, ALPHA.index(ch), i] = 1
    return X


def window_score(lp, s, start):
    """sum over the window of log2((pwm+eps)/0.25); unknown characters contribute 0"""
    sc = 0.0
    for j in range(lp.shape[1]):
        ch = s[start + j]
        if ch in ALPHA:
            sc += float(lp[ALPHA.index(ch), j])
    return sc


def score_bins(score, bin_size):
    """the admissible bins of a score: floor(score/bin) with a 1e-11 relative guard for the
    summation order; for negative scores the statement does not say whether the bin is found by
    flooring or by truncation toward zero, both are admitted (DESIGN: undecided)."""
    q = score / bin_size
    d = 1e-11 * max(1.0, abs(q))
    bins = {math.floor(q - d), math.floor(q + d)}
    if q < 0:
        bins |= {math.ceil(q - d), math.ceil(q + d)}
    return bins


def _as_input(X, seq_type):
    """the same one-hot batch in another container / dtype accepted by fimo()"""
    if seq_type == 'torch64':
        return X.double()
    if seq_type == 'torchint8':
        return X.to(torch.int8)
    if seq_type == 'numpy32':
        return X.numpy()
    return X


def check_fimo_pvalues(case):
    """case: {'kind': 'fimo-p', 'pwms': [4 x w list ...], 'seqs': [...equal length], 'eps', 'bin', 'threshold',
    optional 'rc' (True), 'dim' (0), 'f32' (False: float64 motif tensors), 'seq_type' ('torch32' | 'torch64' |
    'torchint8' | 'numpy32'), 'defaults' (False; True: bin_size and eps are NOT passed and must be 0.1 / 1e-4)}
    Only the p-value column of the hits that ARE reported is judged here (which windows are
    reported is C12)."""
    out = []
    pwms, seqs, eps, bin_size, thr = case['pwms'], case['seqs'], case['eps'], case['bin'], case['threshold']
    rc, dim, f32 = bool(case.get('rc', True)), int(case.get('dim', 0)), bool(case.get('f32', False))
    motifs = {'m%d' % i: torch.tensor(p, dtype=torch.float32 if f32 else torch.float64) for i, p in enumerate(pwms)}
    X = _as_input(one_hot(seqs), case.get('seq_type', 'torch32'))
    kw = {}
    if case.get('defaults', False):
        assert bin_size == 0.1 and eps == 0.0001, 'oracle error: defaults case must carry the default bin_size / eps'
    else:
        kw = {'bin_size': bin_size, 'eps': eps}
    if dim != 0:
        kw['dim'] = dim
    case['_n_checked'] = 0
    try:
        hits = F.fimo(motifs, X, threshold=thr, reverse_complement=rc, **kw)
    except Exception as e:
        return ['fimo() call (narrowest motif: width %d, %d motifs) raised %s' % (min(len(p[0]) for p in pwms), len(pwms), _raised(e))]
    n_checked = 0
    orac = {}
    for mi, pwm in enumerate(pwms):
        P = numpy.array(pwm, dtype=numpy.float32 if f32 else numpy.float64)
        for strand, Q in (('+', P), ('-', P[::-1, ::-1])):
            lp, ints, tie, tail = exact_tail(Q.tolist(), eps, bin_size, f32=f32)
            neg_cols = {j for j in range(len(ints[0])) if max(ints[k][j] for k in range(len(ints))) < 0}
            orac[(mi, strand)] = (lp, tie, tail, neg_cols)
    for fi, df in enumerate(hits):
        for r in df.itertuples(index=False):
            r = dict(zip(df.columns, r))
            mi = fi if dim == 0 else int(r['motif_idx'])     # dim=1: one frame per sequence, all motifs
            if not 0 <= mi < len(pwms) or r['strand'] not in ('+', '-'):
                continue
            w = len(pwms[mi][0])
            lp, tie, tail, neg_cols = orac[(mi, r['strand'])]
            if tie:
                continue
            si, st = int(r['sequence_name']), int(r['start'])
            if not (0 <= si < len(seqs) and 0 <= st <= len(seqs[si]) - w):
                continue        # coordinates are C12's business
            sc = window_score(lp, seqs[si], st)
            got = float(r['p-value'])
            bins = score_bins(sc, bin_size)
            if (not ASSERT_UNKNOWN_CHAR_ABOVE_HIGHEST_ATTAINABLE and min(bins) > tail.hi
                    and any(seqs[si][st + j] not in ALPHA for j in neg_cols)):
                continue        # see POSSIBLE DEFECT at the top of this file
            cands = [tail.p(b) for b in bins]
            n_checked += 1
            ok = (not math.isnan(got)) and any(abs(got - c) <= 1e-9 * max(c, 1e-300) for c in cands)
            if not ok and len([o for o in out if (' width 1,' in o) == (w == 1)]) < 2:
                out.append('fimo hit (motif %d width %d, strand %s, seq %d, start %d, score %s) has p-value %s; exact tail '
                           'probability of its score bin is %s' % (mi, w, r['strand'], si, st, _fmt(sc), _fmt(got), ' or '.join(_fmt(c) for c in cands)))
    case['_n_checked'] = n_checked
    return out


# ----------------------------------------------------------------------------- generators

def _dirichlet(rng, conc):
    g = [rng.gammavariate(conc, 1.0) for _ in range(4)]
    s = sum(g)
    if s <= 0:
        g = [1.0, 0.0, 0.0, 0.0]
        s = 1.0
    return [x / s for x in g]


def _zero_col(rng):
    k = rng.randint(1, 3)                       # number of zero entries
    zero = set(rng.sample(range(4), k))
    g = [0.0 if i in zero else rng.random() + 0.05 for i in range(4)]
    s = sum(g)
    return [x / s for x in g]


def _onehot_col(rng):
    j = rng.randrange(4)
    return [1.0 if i == j else 0.0 for i in range(4)]


def random_column(rng, flavour):
    if flavour == 'uniform':
        return [0.25] * 4
    if flavour == 'onehot':
        return _onehot_col(rng)
    if flavour == 'zeros':
        return _zero_col(rng)
    if flavour == 'sharp':
        return _dirichlet(rng, rng.choice([0.05, 0.1, 0.3]))
    if flavour == 'flat':
        return _dirichlet(rng, rng.choice([2.0, 5.0, 50.0]))
    return _dirichlet(rng, 1.0)


def random_pwm(rng, w):
    """4 x w nested list, columns sum to 1 (up to rounding)"""
    style = rng.choice(['dir', 'dir', 'sharp', 'flat', 'mixed', 'mixed', 'zeros', 'onehot', 'uniform', 'repeat'])
    if style == 'mixed':
        cols = [random_column(rng, rng.choice(['uniform', 'onehot', 'zeros', 'sharp', 'flat', 'dir'])) for _ in range(w)]
    elif style == 'repeat':
        c = random_column(rng, rng.choice(['zeros', 'sharp', 'dir']))
        cols = [list(c) for _ in range(w)]
    else:
        cols = [random_column(rng, style) for _ in range(w)]
    return [[cols[i][k] for i in range(w)] for k in range(4)]


def random_column2(rng, flavour):
    """the extended column family (audit round); falls back to random_column"""
    if flavour == 'allzero':
        return [0.0] * 4
    if flavour == 'unnorm':             # entries in [0, 1], column sum 0.05 .. 1.6
        g = [rng.random() for _ in range(4)]
        if rng.random() < 0.3:
            g[rng.randrange(4)] = 0.0
        t = rng.choice([0.05, 0.3, 0.9, 0.99, 1.01, 1.2, 1.6]) / max(sum(g), 1e-9)
        return [min(1.0, x * t) for x in g]
    if flavour == 'tied':               # exactly equal entries
        if rng.random() < 0.5:
            a = rng.uniform(0.01, 0.49)
            c = [a, a, 0.5 - a, 0.5 - a]
        else:
            a = rng.uniform(0.01, 0.33)
            c = [a, a, a, 1 - 3 * a]
        rng.shuffle(c)
        return c
    if flavour == 'tiny':               # small entries of the order of the pseudocount
        c = [10 ** rng.uniform(-8, -3) for _ in range(3)]
        c.append(1.0 - sum(c))
        rng.shuffle(c)
        return c
    if flavour == 'rounded':            # probabilities as printed in a MEME file
        d = rng.choice([2, 3, 4])
        return [round(x, d) for x in _dirichlet(rng, rng.choice([0.3, 1.0, 3.0]))]
    return random_column(rng, flavour)


FLAVOURS2 = ['allzero', 'unnorm', 'tied', 'tiny', 'rounded', 'uniform', 'onehot', 'zeros', 'sharp', 'flat', 'dir']


def random_pwm2(rng, w):
    """4 x w nested list from the extended column family (columns need not sum to 1)"""
    style = rng.choice(['mixed', 'mixed', 'mixed', 'new', 'new', 'one-odd', 'old'])
    if style == 'old':
        return random_pwm(rng, w)
    if style == 'mixed':
        cols = [random_column2(rng, rng.choice(FLAVOURS2)) for _ in range(w)]
    elif style == 'new':
        f = rng.choice(FLAVOURS2[:5])
        cols = [random_column2(rng, f) for _ in range(w)]
    else:                               # an ordinary motif with one odd column at a random place (incl. first / last)
        cols = [random_column(rng, 'dir') for _ in range(w)]
        cols[rng.choice([0, w - 1, rng.randrange(w)])] = random_column2(rng, rng.choice(FLAVOURS2[:5]))
    return [[cols[i][k] for i in range(w)] for k in range(4)]


def random_eps2(rng):
    u = rng.random()
    if u < 0.15:
        return rng.choice([1e-6, 0.1])                  # the end points of the stated range
    if u < 0.4:
        return rng.choice(EPSS)
    return 10 ** rng.uniform(-6, -1)


def random_bin2(rng, small_ok=True):
    u = rng.random()
    if u < 0.15:
        b = rng.choice([0.01, 1.0])                     # the end points of the stated range
    elif u < 0.4:
        b = rng.choice(BIN_SIZES)
    elif u < 0.7:
        b = rng.uniform(0.01, 1.0)
    else:
        b = 10 ** rng.uniform(-2, 0)
    if not small_ok and b < 0.05:
        b = rng.choice([0.05, 0.1, 0.25])
    return b


COMPL = {'A': 'T', 'C': 'G', 'G': 'C', 'T': 'A', 'N': 'N'}


def _plant(rng, seqs, pwm, strand, what):
    """overwrite a window of one sequence with the consensus / a one-mismatch neighbour / the anti-consensus
    of the motif (strand '-': of its reverse complement), at offset 0, L - w or a random one"""
    w = len(pwm[0])
    pick = max if what != 'anti' else min
    word = [ALPHA[pick(range(4), key=lambda k: pwm[k][j])] for j in range(w)]
    if what == 'mismatch':
        word[rng.randrange(w)] = rng.choice(ALPHA)
    word = ''.join(word)
    if strand == '-':
        word = ''.join(COMPL[c] for c in reversed(word))
    si = rng.randrange(len(seqs))
    L = len(seqs[si])
    off = rng.choice([0, L - w, rng.randint(0, L - w)])
    seqs[si] = seqs[si][:off] + word + seqs[si][off + w:]


def random_fimo_case2(rng, wmax):
    nm = rng.choice([1, 1, 2, 3, 4, 6])
    pwms = []
    for _ in range(nm):
        w = rng.randint(1, wmax) if rng.random() < 0.8 else rng.randint(1, 3)
        pwms.append(random_pwm2(rng, w) if rng.random() < 0.5 else random_pwm(rng, w))
    maxw = max(len(p[0]) for p in pwms)
    L = rng.randint(maxw, maxw + 40)
    seqs = [_seq_from(rng, L, 0.03) for _ in range(rng.randint(1, 3))]
    rc = rng.random() < 0.7
    for pwm in pwms:
        for strand in ('+', '-') if rc else ('+',):
            if rng.random() < 0.8:
                _plant(rng, seqs, pwm, strand, rng.choice(['consensus', 'consensus', 'mismatch', 'anti']))
    defaults = rng.random() < 0.4
    case = {'kind': 'fimo-p', 'pwms': pwms, 'seqs': seqs,
            'eps': 0.0001 if defaults else random_eps2(rng),
            'bin': 0.1 if defaults else random_bin2(rng, small_ok=maxw <= 8),
            'threshold': rng.choice([1.0, 1.0, 0.5, 0.01, 1e-3, 1e-4, 1e-4]),
            'rc': rc, 'dim': 1 if rng.random() < 0.25 else 0, 'f32': rng.random() < 0.3,
            'seq_type': rng.choice(['torch32', 'torch32', 'torch64', 'torchint8', 'numpy32']), 'defaults': defaults}
    return case


LIB = [
    [0.25, 0.25, 0.25, 0.25],
    [1.0, 0.0, 0.0, 0.0], [0.0, 1.0, 0.0, 0.0], [0.0, 0.0, 1.0, 0.0], [0.0, 0.0, 0.0, 1.0],
    [0.5, 0.5, 0.0, 0.0],
    [0.0, 0.2, 0.3, 0.5],
    [0.7, 0.1, 0.15, 0.05],
    [0.26, 0.24, 0.27, 0.23],
]


def finding_for(w):
    # the two classes of failing input known on the pinned tree (DESIGN section 6, #7 and #6)
    return 'width-1-table-uninitialised' if w == 1 else 'table-not-exact-tail-width-ge-2'


def _run_table(rep, pwm, eps, bin_size, brute, section, key, layout=None, f32=False):
    w = len(pwm[0])
    case = {'kind': 'table', 'pwm': pwm, 'eps': eps, 'bin': bin_size, 'brute': brute}
    if layout is not None:
        case['layout'] = layout
    if f32:
        case['f32'] = True
    viol = check_table(case)
    tie = case.pop('_tie', False)
    rep.case(key, nontrivial=not tie, section=section,
             sample={'w': w, 'eps': eps, 'bin': bin_size, 'pwm_col0': [pwm[k][0] for k in range(4)]})
    if viol:
        head = '_pwm_to_mapping table is not the exact tail distribution (width %s)' % ('1' if w == 1 else '>= 2')
        if layout is not None or f32:
            head += ' [%s %s]' % ('float32' if f32 else 'float64', layout or 'C')
        rep.violation('%s | w=%d bin=%s eps=%s: %s' % (head.ljust(80), w, bin_size, eps, ' ;; '.join(viol[:3])), case, finding=finding_for(w))
    return viol


def _run_fimo(rep, case, key, section):
    viol = check_fimo_pvalues(case)
    n = case.pop('_n_checked', 0)
    rep.case(key, nontrivial=n > 0, section=section,
             sample={'widths': [len(p[0]) for p in case['pwms']], 'hits_checked': n, 'threshold': case['threshold']})
    for w1 in (True, False):
        vs = [v for v in viol if (' width 1,' in v) == w1]
        if vs:
            head = 'fimo() hit p-value is not the exact tail probability of its score bin (width %s)' % ('1' if w1 else '>= 2')
            opts = ''
            if len(case) > 6:
                opts = ' [rc=%s dim=%s %s %s thr=%s%s]' % (case.get('rc', True), case.get('dim', 0), 'float32' if case.get('f32') else 'float64',
                                                            case.get('seq_type', 'torch32'), case['threshold'], ' defaults' if case.get('defaults') else '')
            rep.violation('%s | %s%s' % (head.ljust(80), ' ;; '.join(vs[:2]), opts), case, finding=finding_for(1 if w1 else 2))
    return viol


STOP_AFTER = 60     # violations


def _enough(rep):
    """The kernels under test index arrays without bounds checks: a refuted table computation may also write
    out of bounds, and a heap corruption that aborts the process later would lose the whole report.  Once the
    property is refuted STOP_AFTER times nothing more is learnt by continuing, so the run ends there."""
    if len(rep.violations) < STOP_AFTER:
        return False
    if not getattr(rep, '_c11_stopped', False):
        rep._c11_stopped = True
        rep.note('stopped early: %d violations recorded (not continuing to call a refuted kernel that indexes without bounds checks)' % len(rep.violations))
    return True


def _warm_up(rep):
    pwm = [[0.7, 0.1], [0.1, 0.7], [0.1, 0.1], [0.1, 0.1]]
    t0 = __import__('time').time()
    try:
        for f32 in (False, True):
            for layout in (LAYOUTS32 if f32 else LAYOUTS64):
                check_table({'kind': 'table', 'pwm': pwm, 'eps': 1e-4, 'bin': 0.5, 'brute': False, 'layout': layout, 'f32': f32})
            if hasattr(F, '_all_pwm_to_mapping'):
                check_all_mapping({'kind': 'all-map', 'pwms': [pwm, pwm], 'eps': 1e-4, 'bin': 0.5, 'f32': f32})
            check_fimo_pvalues({'kind': 'fimo-p', 'pwms': [pwm], 'seqs': ['ACGTACGTAC'], 'eps': 1e-4, 'bin': 0.5, 'threshold': 0.5, 'f32': f32})
    except Exception as e:      # whatever is wrong shows up in the counted cases
        rep.note('warm-up: %s' % _raised(e))
    rep.note('warm-up (compilation of the float32 / non-contiguous specialisations): %.1f s' % (__import__('time').time() - t0))


def _sub_rng(rep, tag):
    import random
    return random.Random('%s-%s-%s' % (rep.seed, rep.tier, tag))


def run(rep):
    import time
    thorough = rep.tier == 'thorough'
    budget = rep.budget_s
    torch.set_num_threads(1)
    try:
        r = F.logaddexp2(-math.inf, -math.inf)
        if r != -math.inf:
            rep.note('diagnostic: compiled fimo.logaddexp2(-inf, -inf) returns %r in this environment (fastmath=True)' % (r,))
    except Exception as e:    # diagnostic only
        rep.note('diagnostic: logaddexp2 probe failed: %r' % (e,))

    # (a) exhaustive over the column library ------------------------------------------------
    all_pairs = [(b, e) for b in BIN_SIZES for e in EPSS]
    few_pairs = [(b, e) for b in (0.1, 0.5, 1.0) for e in (1e-4, 0.1)]
    plan = [(1, all_pairs), (2, all_pairs), (3, all_pairs if thorough else few_pairs)] + ([(4, few_pairs)] if thorough else [])
    t_end = time.time() + budget * 0.25
    for w, pairs in plan:
        done = True
        for cols in itertools.product(range(len(LIB)), repeat=w):
            pwm = [[LIB[c][k] for c in cols] for k in range(4)]
            for (b, e) in pairs:
                _run_table(rep, pwm, e, b, True, 'library-exhaustive', ('lib', cols, b, e))
            if time.time() > t_end or _enough(rep):
                done = False
                break
        if done:
            rep.mark_exhaustive('every PWM of width %d with columns from the 9-column library x %d (bin, eps) pairs, all 4^w sequences enumerated' % (w, len(pairs)))
        else:
            rep.note('library part (width %d) cut by its time share' % w)
            break

    # (d) extended column family, eps / bin at full precision, memory layouts, float32 ---------
    if _enough(rep):
        return
    _warm_up(rep)          # numba specialisations for the new dtypes / layouts are compiled outside the time shares
    rng = _sub_rng(rep, 'variants')
    n_var = 4000 if thorough else 400
    wmax_var = 30 if thorough else 12
    t_end = time.time() + budget * 0.12
    for k in range(n_var):
        if time.time() > t_end or rep.out_of_time() or _enough(rep):
            rep.note('extended-family part stopped after %d cases' % k)
            break
        w = 1 + k % wmax_var
        pwm = random_pwm2(rng, w)
        e = random_eps2(rng)
        b = random_bin2(rng, small_ok=w <= 8 or k % 5 == 0 or (thorough and w <= 16))
        f32 = rng.random() < 0.3
        layout = rng.choice(LAYOUTS32 if f32 else LAYOUTS64)
        _run_table(rep, pwm, e, b, w <= 6, 'extended-family-layouts-float32', ('var', k), layout=layout, f32=f32)

    # (e) _all_pwm_to_mapping: the call fimo() makes, every entry of every table ----------------
    if not hasattr(F, '_all_pwm_to_mapping'):
        rep.note('fimo._all_pwm_to_mapping does not exist in this tree: part (e) skipped')
    else:
        rng = _sub_rng(rep, 'allmap')
        n_all = 1200 if thorough else 120
        t_end = time.time() + budget * 0.08
        for k in range(n_all):
            if time.time() > t_end or rep.out_of_time() or _enough(rep):
                rep.note('_all_pwm_to_mapping part stopped after %d cases' % k)
                break
            nm = rng.choice([1, 2, 3, 5, 10])
            pwms = []
            for _ in range(nm):
                w = rng.choice([1, 1, 2, 3]) if rng.random() < 0.3 else rng.randint(1, 16)
                pwms.append(random_pwm2(rng, w))
            if rng.random() < 0.5:                      # fimo() appends the reverse complements
                pwms = pwms + [[row[::-1] for row in p[::-1]] for p in pwms]
            maxw = max(len(p[0]) for p in pwms)
            case = {'kind': 'all-map', 'pwms': pwms, 'eps': random_eps2(rng), 'bin': random_bin2(rng, small_ok=maxw <= 8),
                    'f32': k % 4 == 3}
            viol = check_all_mapping(case)
            n = case.pop('_n_asserted', 0)
            rep.case(('am', k), nontrivial=n > 0, section='all-pwm-to-mapping',
                     sample={'widths': [len(p[0]) for p in pwms], 'bin': case['bin'], 'eps': case['eps'], 'f32': case['f32']})
            if viol:
                head = '_all_pwm_to_mapping table is not the exact tail distribution'
                rep.violation('%s | %d motifs bin=%s eps=%s %s: %s' % (head.ljust(80), len(pwms), case['bin'], case['eps'],
                              'float32' if case['f32'] else 'float64', ' ;; '.join(viol[:2])), case,
                              finding=finding_for(min(len(p[0]) for p in pwms)))

    # (f) fimo() p-value column: both ends of the table, options and dtypes never passed in (c) ---
    rng = _sub_rng(rep, 'fimo2')
    n_f2 = 1500 if thorough else 150
    t_end = time.time() + budget * 0.15
    for k in range(n_f2):
        if time.time() > t_end or rep.out_of_time() or _enough(rep):
            rep.note('fimo p-value part (f) stopped after %d cases' % k)
            break
        case = random_fimo_case2(rng, 30 if thorough else 20)
        _run_fimo(rep, case, ('fp2', k), 'fimo-p-value-planted-options')

    # (b) random PWMs ------------------------------------------------------------------------
    rng = _sub_rng(rep, 'small')
    n_small = 6000 if thorough else 500
    t_end = time.time() + budget * 0.15
    for k in range(n_small):
        if time.time() > t_end or rep.out_of_time() or _enough(rep):
            rep.note('random small-width part stopped after %d cases' % k)
            break
        w = 1 + k % 7
        pwm = random_pwm(rng, w)
        b = rng.choice(BIN_SIZES) if rng.random() < 0.7 else round(rng.uniform(0.01, 1.0), 4)
        e = rng.choice(EPSS)
        _run_table(rep, pwm, e, b, True, 'random-w<=7-enumerated', ('rs', k))
    rng = _sub_rng(rep, 'large')
    n_large = 4000 if thorough else 300
    t_end = time.time() + budget * 0.17
    for k in range(n_large):
        if time.time() > t_end or rep.out_of_time() or _enough(rep):
            rep.note('random large-width part stopped after %d cases' % k)
            break
        w = 30 - k % 23                    # 30, 29, ..., 8, 30, ...
        pwm = random_pwm(rng, w)
        b = rng.choice(BIN_SIZES) if rng.random() < 0.7 else round(rng.uniform(0.01, 1.0), 4)
        if not thorough and b < 0.05 and k % 4:
            b = rng.choice([0.1, 0.25, 0.5])
        e = rng.choice(EPSS)
        _run_table(rep, pwm, e, b, False, 'random-w8-30-bigint', ('rl', k))

    # (c) the p-value column of fimo() -------------------------------------------------------
    rng = _sub_rng(rep, 'fimo')
    n_f = 1500 if thorough else 150
    wmax = 12 if thorough else 8
    for k in range(n_f):
        if rep.left() < budget * 0.05 or _enough(rep):
            rep.note('fimo p-value part stopped after %d cases' % k)
            break
        nm = rng.randint(1, 3)
        pwms = [random_pwm(rng, rng.randint(1, wmax)) for _ in range(nm)]
        L = rng.randint(20, 60)
        seqs = [_seq_from(rng, L, 0.03) for _ in range(rng.randint(1, 3))]
        case = {'kind': 'fimo-p', 'pwms': pwms, 'seqs': seqs, 'eps': rng.choice(EPSS), 'bin': rng.choice([0.05, 0.1, 0.25, 0.5, 1.0]),
                'threshold': rng.choice([0.5, 0.1, 0.01])}
        _run_fimo(rep, case, ('fp', k), 'fimo-p-value-column')


def replay(case):
    k = case.get('kind')
    if k == 'table':
        return check_table(dict(case))
    if k == 'fimo-p':
        c = dict(case)
        out = check_fimo_pvalues(c)
        return out
    if k == 'all-map':
        return check_all_mapping(dict(case))
    return ['unknown replay kind']
