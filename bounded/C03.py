"""Bounded stand-in for C03 (predict is transparent to batching) — never counted as proved.

All checks call the REAL tangermeme.predict.predict (device='cpu') and compare with the right-hand
side of the statement computed literally: for every example i the model is called on the single
example (X[i:i+1], args[0][i:i+1], ...) in evaluation mode with gradients disabled, and the
per-example outputs are concatenated in input order (per output for tuple / list models).

 kind 'rec'    exact-integer *recording* models without parameters: the main output of example i is
               the concatenation of the complete row X[i] and of the complete rows args[k][i] (plus a
               code of the dtype in which X and every args entry reached the model), so any
               mis-pairing / re-ordering / dropped or duplicated example / silent cast changes the
               result and nothing can cancel; further outputs have other shapes and dtypes (int64
               (b,2,1), float64 (b,), bool (b,1)).  The model logs (self.training, some module of
               the tree in training mode, torch.is_grad_enabled()) at every call.
 kind 'ext'    the same recording model on the input classes the plain sweep never passes
               (every choice below is drawn from the seeded generator, (n, b, #args) are enumerated):
                 * the model is handed over in one of 5 states: train, eval, top-level flag eval but
                   a child / only a grand-child in training mode (model.eval(); child.train()),
                   top-level train but child eval - predict must run ALL of it in evaluation mode;
                 * X / args are non-contiguous views: every other row of a larger tensor (the rows in
                   between and the storage offset must be neither used nor written), a permuted tensor
                   whose leading dimension has stride 1, args expanded from one row (stride 0), args[0]
                   being the very object X and args[2] the very object args[1];
                 * X of rank 1, 2, 3, 4; X dtypes incl. uint8 / int32 / float16; args pool rotated
                   (int64 with values up to 2**40, float64, int32, bool, float32);
                 * models WITH a parameter of dtype float32 / float64 / float16 (predict then casts X;
                   all values are exactly representable, see 'Not asserted');
                 * further output kinds: named tuple, list of 4 (with a bool output), the inputs
                   themselves handed back (views of X / args), 2 output rows per example, a model
                   that returns rows only for some examples (0-row batches);
                 * batch sizes 2n, 10**9, default (32) with n > 32 up to 100, every b with n % b == 1;
                 * verbose=True (progress bar swallowed), device=torch.device('cpu').
 kind 'seq'    call histories on ONE model object: 3-5 predict calls with changing n / b / number of
               args / X dtype and rank / model state, some on the very same X object whose content was changed in place
               in between - every call must satisfy the statement (nothing may be carried over).
 kind 'mode'   float32 models with parameters whose train and eval behaviour differ (Dropout,
               BatchNorm1d with non-trivial running statistics, both), handed over in train mode or
               in a mixed state (top-level eval, dropout / batch-norm child in training mode; or the
               reverse).  All weights, inputs and statistics are small integers (BatchNorm: eps = 1,
               running_var = 3, so 1/sqrt(var+eps) = 1/2), hence float32 arithmetic is exact and the
               comparison is bitwise.  Also: outputs do not require grad, BatchNorm statistics are
               not updated.
 kind 'reject' one args entry gets a different leading dimension (n-1, n+1, 1, 2n, 0, n+b); the model
               used here ignores the content of args, so only predict's own check can reject.  Also
               with batch_size omitted / 1 / n, a bad entry that is an expanded (stride-0) view, a
               model with parameters, every hand-over state.

Not asserted (the statement does not say it): the container type of a multi-output result (list vs
tuple), the mode of the model after the call, how many examples the model sees per call, the dtype
in which X reaches a model that HAS parameters (predict casts X to the parameter dtype; the values
used are exact in that dtype and the model computes in float64, so the cast is invisible), whether
the result shares memory with X for a model that hands its input back, the content of stderr.
A model that writes into its own input would write into X through predict (the batches are views);
that is the model's doing and is not exercised.
"""
import collections
import copy
import io
import random
import sys

import torch

from tangermeme.predict import predict

torch.set_num_threads(1)

OUT_KINDS = ('tensor', 'tuple1', 'tuple2', 'tuple3', 'list1', 'list2', 'list3')
N_OUT = {'tensor': 1, 'tuple1': 1, 'tuple2': 2, 'tuple3': 3, 'list1': 1, 'list2': 2, 'list3': 3, 'list4': 4, 'ntuple2': 2}
XDTYPES = {'float64': torch.float64, 'float32': torch.float32, 'int64': torch.int64, 'int8': torch.int8}

# --- extended input classes (kind 'ext' / 'seq')
EXT_OUT = OUT_KINDS + ('ntuple2', 'list4', 'ident', 'rep2', 'filter')
EXT_XD = dict(XDTYPES, uint8=torch.uint8, int32=torch.int32, float16=torch.float16)
PDTYPES = {'float32': torch.float32, 'float64': torch.float64, 'float16': torch.float16}
LAYOUTS = ('contig', 'strided', 'permuted', 'expanded', 'alias')
XSHAPES = {'r1': (), 'r2': (5,), 'r3': (2, 3), 'r4': (2, 1, 3)}
MSTATES = ('train', 'eval', 'top-eval-sub-train', 'top-eval-deep-train', 'top-train-sub-eval')
CALLS = ('kw', 'verbose', 'devobj')
DT_CODE = {torch.float64: 1, torch.float32: 2, torch.float16: 3, torch.int64: 4, torch.int32: 5, torch.int8: 6,
           torch.uint8: 7, torch.bool: 8, torch.bfloat16: 9, torch.int16: 10}
NT2 = collections.namedtuple('NT2', ['first', 'second'])

SCOPE = {
    'quick': ('recording models: every n in 1..40 x every batch size b in 1..n+3 x 0-3 extra arguments (940 x 4 combinations), '
              '3 of the 7 output kinds {tensor, tuple of 1/2/3, list of 1/2/3} per combination (rotating), X dtype rotating over '
              'float64/float32/int64/int8, args passed as tuple/list (None or empty for 0 args); dropout / batch-norm / both models handed over in train mode: every n in 1..40 x every b in 1..n+3 '
              'x {0,1} extra arguments (one model kind per combination, rotating); rejection: every n in 1..40 x 1-3 args x every position of the bad entry x leading '
              'dimensions {n-1, n+1, 1, 2n, 0, n+b} x 2 batch sizes; batch_size omitted (default 32) for every n. '
              'EXTENDED (run first): every n in 1..40 and n in {41,63,64,65,96,97,100} x b in {1,2,3,n-1,n,n+1,2n,10**9,default, every b<n with n%b==1 (up to 3)} x 0-3 args, '
              'each with a seeded draw of: hand-over state of the model (train / eval / top-level eval with a child or only a grand-child in training mode / top train with child eval), '
              'memory layout of X and args (contiguous, every-other-row view with offset, permuted, stride-0 expanded args, args aliasing X and each other), X rank 1-4, '
              'X dtype (7), rotated args pool (int64 up to 2**40, float64, int32, bool, float32), model without / with a float32/float64/float16 parameter, '
              '12 output kinds (7 + named tuple, list of 4 incl. bool, inputs handed back, 2 rows per example, rows for some examples only), verbose=True, device object; '
              'call histories: 3-5 consecutive predict calls on one model object (changing n, b, #args, X dtype / rank, model state, X changed in place between calls), 4 per n; '
              'dropout / batch-norm / both models in mixed states (top-level eval + child train, top-level train + child eval, eval): every n x b in {1,2,n,n+2,default} x 3 states; '
              'rejection additionally with batch_size omitted / 1 / n, expanded bad entry, model with parameter, every hand-over state'),
    'thorough': ('recording models: every n in 1..40 x every b in 1..n+3 x 0-3 extra arguments x all 7 output kinds x 3 data seeds, X dtype rotating; '
                 'dropout / batch-norm / both models: every n x every b x {0,1} extra arguments x all 3 model kinds; rejection as in quick with every batch size in {1, n, n+3}; '
                 'additionally n in {41..43, 64, 97} with b in 1..n+3 for tensor / tuple3 outputs. '
                 'EXTENDED (run first) as in quick but every b in 1..n+3 plus {2n, 10**9, default} with 4 seeded draws per (n, b, #args), 20 call histories per n, '
                 'mixed-state dropout / batch-norm models for every b in 1..n+3 x all 3 model kinds x 4 states'),
}


# ----------------------------------------------------------------------------------------------
# models
# ----------------------------------------------------------------------------------------------

class Probe(torch.nn.Module):
    """identity; exists only so that the recording model has a grand-child whose mode can differ"""

    def forward(self, x):
        return x


class Wrap(torch.nn.Module):
    def __init__(self):
        super().__init__()
        self.probe = Probe()

    def forward(self, x):
        return self.probe(x)


def _some_training(model):
    return any(bool(m.training) for m in model.modules())


class Rec(torch.nn.Module):
    """row-wise, exact-integer recording model; parameter-free unless pdtype is given"""

    def __init__(self, out, tolerant=False, pdtype=None):
        super().__init__()
        self.out = out
        self.tolerant = tolerant
        self.log = []
        self.inner = Wrap()
        self.has_param = pdtype is not None
        if pdtype is not None:
            self.w = torch.nn.Parameter(torch.zeros(2, dtype=PDTYPES[pdtype]))

    def forward(self, X, *args):
        # the children are never invoked (they compute nothing); their mode is read here
        self.log.append((self.training, torch.is_grad_enabled(), X.shape[0],
                         self.training or self.inner.training or self.inner.probe.training))
        b = X.shape[0]
        if self.out == 'ident':                           # the inputs themselves, untouched
            return X if not args else (X,) + tuple(args)
        if self.tolerant:
            args = ()
        # dtype in which the inputs arrive (for X only if predict has no parameter dtype to cast to)
        dts = (None if self.has_param else X.dtype,) + tuple(a.dtype for a in args)
        codes = _CODES.get(dts)
        if codes is None:
            codes = _CODES[dts] = torch.tensor([[0 if d is None else DT_CODE.get(d, 99) for d in dts]], dtype=torch.float64)
        feats = [X.reshape(b, -1).to(torch.float64)] + [a.reshape(b, -1).to(torch.float64) for a in args] + [codes.expand(b, -1)]
        F = torch.cat(feats, dim=1)                       # the complete rows: identity of the pairing
        if self.out == 'tensor':
            return F
        if self.out == 'rep2':                            # two output rows per example
            return F.repeat_interleave(2, dim=0)
        if self.out == 'filter':                          # rows only for the examples with an even X[i, 0, ..., 0]
            return F[F[:, 0].to(torch.int64) % 2 == 0]
        k = N_OUT[self.out]
        outs = [F]
        if k >= 2:
            outs.append((F[:, :2].to(torch.int64) * 3 + 1).reshape(b, 2, 1))
        if k >= 3:
            outs.append((F * torch.arange(1, F.shape[1] + 1, dtype=torch.float64)).sum(dim=1))
        if k >= 4:
            outs.append(F[:, :1].to(torch.int64) % 2 == 1)
        if self.out == 'ntuple2':
            return NT2(*outs)
        return tuple(outs) if self.out.startswith('tuple') else list(outs)


_CODES = {}


def _set_state(model, mstate):
    """hand-over state of the model; 'sub' = the direct children that matter, 'deep' = only a grand-child"""
    if isinstance(model, Rec):
        subs, deep = [model.inner], [model.inner.probe]
    else:
        subs = [m for m in (model.drop, model.bn) if m is not None]
        deep = subs
    if mstate == 'train':
        model.train()
    elif mstate == 'eval':
        model.eval()
    elif mstate == 'top-eval-sub-train':
        model.eval()
        for m in subs:
            m.train()
    elif mstate == 'top-eval-deep-train':
        model.eval()
        for m in deep:
            m.train()
    elif mstate == 'top-train-sub-eval':
        model.train()
        for m in subs:
            m.eval()
    else:
        raise ValueError('unknown model state %r' % (mstate,))


class ModeModel(torch.nn.Module):
    """float32 model with exact small-integer arithmetic whose train and eval behaviour differ"""

    def __init__(self, kind, seed, C=3, L=4, H=5):
        super().__init__()
        g = torch.Generator().manual_seed(seed)
        self.kind = kind
        self.log = []
        self.drop = torch.nn.Dropout(0.5) if kind in ('dropout', 'both') else None
        self.bn = None
        if kind in ('bn', 'both'):
            self.bn = torch.nn.BatchNorm1d(C, eps=1.0)
            with torch.no_grad():
                self.bn.running_mean.copy_(torch.randint(-3, 4, (C,), generator=g).float())
                self.bn.running_var.fill_(3.0)
                self.bn.weight.copy_(torch.randint(1, 4, (C,), generator=g).float() * 2)
                self.bn.bias.copy_(torch.randint(-3, 4, (C,), generator=g).float())
        self.lin = torch.nn.Linear(C * L, H)
        with torch.no_grad():
            self.lin.weight.copy_(torch.randint(-3, 4, (H, C * L), generator=g).float())
            self.lin.bias.copy_(torch.randint(-3, 4, (H,), generator=g).float())

    def forward(self, X, a=None):
        self.log.append((bool(self.training), bool(torch.is_grad_enabled()), int(X.shape[0]), _some_training(self)))
        h = X
        if self.bn is not None:
            h = self.bn(h)
        if self.drop is not None:
            h = self.drop(h)
        y = self.lin(h.reshape(h.shape[0], -1))
        if a is not None:
            y = y + a
        return y


# ----------------------------------------------------------------------------------------------
# data
# ----------------------------------------------------------------------------------------------

def _rec_data(n, nargs, seed, xdtype):
    g = torch.Generator().manual_seed(seed * 1009 + n)
    hi = 100 if xdtype == 'int8' else 1000
    X = torch.randint(0, hi, (n, 2, 3), generator=g)
    X[:, 0, 0] = torch.arange(n)                                   # row identity
    X = X.to(XDTYPES[xdtype])
    pool = [torch.randint(0, 2 ** 20, (n,), generator=g),                                   # int64 (n,)
            torch.randint(-500, 500, (n, 2), generator=g).to(torch.float64),                # float64 (n, 2)
            torch.randint(0, 2 ** 15, (n, 1, 3), generator=g).to(torch.int32)]              # int32 (n, 1, 3)
    for k, a in enumerate(pool):                                   # make the row identity visible in every arg too
        a.reshape(n, -1)[:, 0] = (torch.arange(n) * (k + 2) + 7).to(a.dtype)
    return X, pool[:nargs]


def _per_example(model, X, args):
    """the right-hand side of the statement, literally: one example at a time, eval mode, no grad"""
    model.eval()
    rows = []
    with torch.no_grad():
        for i in range(X.shape[0]):
            r = model(X[i:i + 1], *[a[i:i + 1] for a in args])
            rows.append([r] if isinstance(r, torch.Tensor) else list(r))
    return [torch.cat([row[o] for row in rows]) for o in range(len(rows[0]))]


def _per_example2(model, X, args):
    """(the model returns a bare tensor, right-hand side of the statement)"""
    model.eval()
    with torch.no_grad():
        single = isinstance(model(X[0:1], *[a[0:1] for a in args]), torch.Tensor)
    model.log.clear()
    return single, _per_example(model, X, args)


def _compare(y, expected, single):
    out = []
    if single:
        if not isinstance(y, torch.Tensor):
            return ['model returns a tensor but predict returned %s' % type(y).__name__]
        ys = [y]
    else:
        if not isinstance(y, (list, tuple)) or not all(isinstance(t, torch.Tensor) for t in y):
            return ['model returns %d tensors but predict returned %s' % (len(expected), type(y).__name__)]
        if len(y) != len(expected):
            return ['model returns %d tensors but predict returned %d' % (len(expected), len(y))]
        ys = list(y)
    for o, (got, exp) in enumerate(zip(ys, expected)):
        if tuple(got.shape) != tuple(exp.shape):
            out.append('output %d has shape %s, the concatenation over examples has shape %s' % (o, tuple(got.shape), tuple(exp.shape)))
            continue
        if got.dtype != exp.dtype:
            out.append('output %d has dtype %s, the concatenation over examples has dtype %s' % (o, got.dtype, exp.dtype))
        if got.numel() == 0:
            continue
        neq = (got.to(torch.float64) != exp.to(torch.float64)).reshape(got.shape[0], -1).any(dim=1)
        if bool(neq.any()):
            i = int(neq.nonzero()[0])
            out.append('output %d differs from the per-example result at %d of %d examples, first at example %d: got %s expected %s'
                       % (o, int(neq.sum()), got.shape[0], i, got[i].flatten().tolist()[:12], exp[i].flatten().tolist()[:12]))
    return out


def _flags(log):
    out = []
    if not log:
        return ['the model was never called']
    if any(e[0] for e in log):
        out.append('the model was called in training mode')
    elif any(len(e) > 3 and e[3] for e in log):
        out.append('a sub-module of the model was still in training mode during the forward call (top-level flag eval)')
    if any(e[1] for e in log):
        out.append('the model was called with gradients enabled')
    return out


def _call_predict(model, X, args, b, args_as, call='kw'):
    if args_as == 'none':
        a = None
    elif args_as == 'list':
        a = list(args)
    else:
        a = tuple(args)
    kw = {'args': a, 'device': torch.device('cpu') if call == 'devobj' else 'cpu'}
    if b is not None:
        kw['batch_size'] = b
    if call != 'verbose':
        return predict(model, X, **kw)
    err = sys.stderr
    sys.stderr = io.StringIO()                            # the progress bar goes here
    try:
        return predict(model, X, verbose=True, **kw)
    finally:
        sys.stderr = err


# ----------------------------------------------------------------------------------------------
# checks
# ----------------------------------------------------------------------------------------------

_EXP_CACHE = {}


def check_rec(case):
    n, b, nargs, out, seed, xdtype = case['n'], case['b'], case['nargs'], case['out'], case['seed'], case['xdtype']
    X, args = _rec_data(n, nargs, seed, xdtype)
    key = (n, nargs, out, seed, xdtype)
    if key not in _EXP_CACHE:
        if len(_EXP_CACHE) > 4000:
            _EXP_CACHE.clear()
        _EXP_CACHE[key] = _per_example(Rec(out), X, args)
    expected = _EXP_CACHE[key]
    X0, args0 = X.clone(), [a.clone() for a in args]
    model = Rec(out)
    model.train()
    viol = []
    try:
        y = _call_predict(model, X, args, b, case.get('args_as', 'tuple'))
    except Exception as ex:
        return ['predict raised %s (%s) on a valid request' % (type(ex).__name__, str(ex)[:80])]
    viol += _compare(y, expected, out == 'tensor')
    viol += _flags(model.log)
    if not torch.equal(X, X0) or X.dtype != X0.dtype:
        viol.append('X was modified')
    if any(not torch.equal(a, a0) for a, a0 in zip(args, args0)):
        viol.append('an args entry was modified')
    return viol


def _mode_data(n, nargs, seed):
    g = torch.Generator().manual_seed(seed * 7919 + n)
    X = torch.randint(-8, 9, (n, 3, 4), generator=g).float()
    X[:, 0, 0] = torch.arange(n).float()
    args = [torch.randint(-50, 50, (n, 5), generator=g).float()][:nargs]
    return X, args


_MODE_CACHE = {}


def check_mode(case):
    n, b, nargs, kind, seed = case['n'], case['b'], case['nargs'], case['model'], case['seed']
    X, args = _mode_data(n, nargs, seed)
    model = ModeModel(kind, seed)
    key = (kind, n, nargs, seed)
    if key not in _MODE_CACHE:                            # model and data are functions of the key
        if len(_MODE_CACHE) > 2000:
            _MODE_CACHE.clear()
        ref = copy.deepcopy(model)
        _MODE_CACHE[key] = (ref, _per_example(ref, X, args))
    ref, expected = _MODE_CACHE[key]
    X0, args0 = X.clone(), [a.clone() for a in args]
    _set_state(model, case.get('mstate', 'train'))
    viol = []
    try:
        y = _call_predict(model, X, args, b, 'tuple' if nargs else 'none')
    except Exception as ex:
        return ['predict raised %s (%s) on a valid request' % (type(ex).__name__, str(ex)[:80])]
    viol += _compare(y, expected, True)
    viol += _flags(model.log)
    if isinstance(y, torch.Tensor) and (y.requires_grad or y.grad_fn is not None):
        viol.append('the result is attached to an autograd graph (gradients were enabled)')
    if model.bn is not None:
        if not (torch.equal(model.bn.running_mean, ref.bn.running_mean) and torch.equal(model.bn.running_var, ref.bn.running_var)
                and int(model.bn.num_batches_tracked) == int(ref.bn.num_batches_tracked)):
            viol.append('batch-norm running statistics were updated (the model was run in training mode)')
    if not torch.equal(X, X0):
        viol.append('X was modified')
    if any(not torch.equal(a, a0) for a, a0 in zip(args, args0)):
        viol.append('an args entry was modified')
    return viol


def check_reject(case):
    n, b, nargs, k, m, seed = case['n'], case['b'], case['nargs'], case['k'], case['m'], case['seed']
    X, args = _rec_data(n, nargs, seed, 'float64')
    g = torch.Generator().manual_seed(seed + 5)
    shape = (m,) + tuple(args[k].shape[1:])
    if case.get('bad_layout') == 'expanded' and m >= 1:
        args[k] = torch.randint(0, 100, (1,) + shape[1:], generator=g).to(args[k].dtype).expand(shape)
    elif case.get('bad_layout') == 'strided':
        args[k] = torch.randint(0, 100, (2 * m + 1,) + shape[1:], generator=g).to(args[k].dtype)[1::2]
    else:
        args[k] = torch.randint(0, 100, shape, generator=g).to(args[k].dtype)
    assert args[k].shape[0] == m != n
    model = Rec(case.get('out', 'tensor'), tolerant=True, pdtype=case.get('pdtype'))
    _set_state(model, case.get('mstate', 'eval'))
    try:
        _call_predict(model, X, args, b, case.get('args_as', 'tuple'), case.get('call', 'kw'))
    except Exception:
        return []
    return ['args[%d] has leading dimension %d but X has %d examples, and predict returned a result instead of rejecting' % (k, m, n)]


def _ext_data(n, nargs, seed, xdtype, xshape, layout, arot):
    """X, args (possibly non-contiguous / aliasing views) and the list of underlying base tensors"""
    g = torch.Generator().manual_seed(seed * 1013 + n * 7 + 1)
    bases = []

    def mk(tail, lo, hi, dtype, ident, lay):
        tail = tuple(tail)
        if lay == 'permuted' and not tail:
            lay = 'strided'
        if dtype == torch.bool:
            raw = lambda shape: torch.randint(0, 2, shape, generator=g).to(torch.bool)
        else:
            raw = lambda shape: torch.randint(lo, hi, shape, generator=g).to(dtype)
        if lay == 'strided':                              # rows 1, 3, 5, ... of a larger tensor
            base = raw((2 * n + 3,) + tail)
            v = base[1::2][:n]
        elif lay == 'permuted':                           # leading dimension has stride 1
            base = raw(tail + (n,))
            v = base.movedim(-1, 0)
        elif lay == 'expanded':                           # one row, stride 0
            base = raw((1,) + tail)
            v = base.expand((n,) + tail)
        else:
            base = raw((n,) + tail)
            v = base
        if ident is not None and lay != 'expanded' and dtype != torch.bool:
            v[(slice(None),) + (0,) * len(tail)] = ident.to(dtype)       # row identity, written through the view
        assert v.shape[0] == n
        bases.append(base)
        return v

    small = xdtype in ('int8', 'uint8')
    xl = 'contig' if layout in ('expanded', 'alias') else layout
    X = mk(XSHAPES[xshape], 0, 100 if small else 1000, EXT_XD[xdtype], torch.arange(n), xl)
    al = 'contig' if layout == 'alias' else layout
    pool = [((), 0, 2 ** 40, torch.int64), ((2,), -500, 500, torch.float64), ((1, 3), 0, 2 ** 15, torch.int32),
            ((2,), 0, 2, torch.bool), ((3,), 0, 2 ** 20, torch.float32)]
    args = []
    for j in range(nargs):
        tail, lo, hi, dt = pool[(arot + j) % len(pool)]
        args.append(mk(tail, lo, hi, dt, torch.arange(n) * (j + 2) + 7, al))
    if layout == 'alias' and nargs >= 1:
        args[0] = X                                       # the very same object
        if nargs >= 3:
            args[2] = args[1]
    return X, args, bases


def _meta(t):
    return (tuple(t.shape), tuple(t.stride()), t.dtype, t.storage_offset(), t.data_ptr())


def _run_one(model, X, args, bases, b, args_as, call, single, expected):
    """one predict call on prepared inputs, all clauses of the statement"""
    bases0 = [t.clone() for t in bases]
    metas = [_meta(t) for t in [X] + list(args)]
    model.log.clear()
    try:
        y = _call_predict(model, X, args, b, args_as, call)
    except Exception as ex:
        return ['predict raised %s (%s) on a valid request' % (type(ex).__name__, str(ex)[:80])]
    viol = _compare(y, expected, single)
    viol += _flags(model.log)
    ys = [y] if isinstance(y, torch.Tensor) else [t for t in y if isinstance(t, torch.Tensor)] if isinstance(y, (list, tuple)) else []
    if any(t.requires_grad for t in ys):
        viol.append('the result is attached to an autograd graph (gradients were enabled)')
    if any(not torch.equal(t, t0) for t, t0 in zip(bases, bases0)):
        viol.append('X, an args entry or the memory around them was modified')
    if metas != [_meta(t) for t in [X] + list(args)]:
        viol.append('shape / stride / dtype / storage of X or an args entry was modified')
    return viol


_EXT_CACHE = {}


def check_ext(case):
    n, b, nargs, out, seed = case['n'], case['b'], case['nargs'], case['out'], case['seed']
    xdtype, xshape, layout, pdtype, arot = case['xdtype'], case['xshape'], case['layout'], case['pdtype'], case['arot']
    X, args, bases = _ext_data(n, nargs, seed, xdtype, xshape, layout, arot)
    key = (n, nargs, out, seed, xdtype, xshape, layout, pdtype, arot)
    if key not in _EXT_CACHE:
        if len(_EXT_CACHE) > 3000:
            _EXT_CACHE.clear()
        _EXT_CACHE[key] = _per_example2(Rec(out, pdtype=pdtype), X, args)
    single, expected = _EXT_CACHE[key]
    model = Rec(out, pdtype=pdtype)
    _set_state(model, case['mstate'])
    return _run_one(model, X, args, bases, b, case['args_as'], case['call'], single, expected)


def check_seq(case):
    """several predict calls on one model object; step: {n, b, nargs, seed, mstate, reuse, layout, call, xdtype, xshape}"""
    out, pdtype, xdtype, xshape = case['out'], case['pdtype'], case['xdtype'], case['xshape']
    model = Rec(out, pdtype=pdtype)
    prev = None
    viol = []
    for j, st in enumerate(case['steps']):
        if st['reuse'] and prev is not None and prev[0].shape[0] == st['n'] and len(prev[1]) == st['nargs']:
            X, args, bases = prev                         # the same objects, content changed in place
            for t in bases:
                if t.dtype != torch.bool:
                    t.add_(1)
        else:
            X, args, bases = _ext_data(st['n'], st['nargs'], st['seed'], st.get('xdtype', xdtype), st.get('xshape', xshape), st['layout'], j)
        prev = (X, args, bases)
        single, expected = _per_example2(Rec(out, pdtype=pdtype), X, args)
        _set_state(model, st['mstate'])
        w = _run_one(model, X, args, bases, st['b'], 'tuple' if (st['nargs'] or j % 2) else 'none', st['call'], single, expected)
        viol += ['call %d of %d on the same model: %s' % (j + 1, len(case['steps']), t) for t in w]
    return viol


def _finding(w):
    if 'raised' in w:
        return 'predict-raised'
    if 'instead of rejecting' in w:
        return 'args-leading-dim-not-rejected'
    if 'training mode' in w or 'batch-norm' in w:
        return 'model-not-in-eval-mode'
    if 'gradients' in w or 'autograd' in w:
        return 'gradients-enabled'
    if 'modified' in w:
        return 'input-modified'
    if 'has shape' in w:
        return 'output-shape'
    if 'dtype' in w:
        return 'output-dtype'
    if 'differs from the per-example' in w:
        return 'output-not-per-example-concatenation'
    if 'predict returned' in w:
        return 'output-structure'
    if 'never called' in w:
        return 'model-never-called'
    return 'other'


CHECKS = {'rec': check_rec, 'mode': check_mode, 'reject': check_reject, 'ext': check_ext, 'seq': check_seq}
MAX_PER_FINDING = 25


def _do(rep, case, section, count, sample=None):
    viol = CHECKS[case['kind']](case)
    rep.case(tuple(sorted(case.items())), nontrivial=True, sample=sample, section=section)
    for w in viol:
        f = _finding(w)
        count[f] = count.get(f, 0) + 1
        if count[f] <= MAX_PER_FINDING:
            rep.violation('%s: %s' % (case['kind'], w), case, finding=f)
        elif count[f] == MAX_PER_FINDING + 1:
            rep.note('more than %d violations of class %s; further ones are only counted' % (MAX_PER_FINDING, f))


# ----------------------------------------------------------------------------------------------
# run
# ----------------------------------------------------------------------------------------------

def _draw_ext(rng, n, b, nargs, seed):
    """the free choices of one 'ext' case, from the seeded generator"""
    out = rng.choice(EXT_OUT)
    layout = rng.choice(LAYOUTS)
    if nargs == 0 and layout in ('expanded', 'alias'):
        layout = rng.choice(('strided', 'permuted'))
    pdtype = rng.choice((None, None, 'float32', 'float64', 'float16'))
    if out == 'ident':
        pdtype = None                                     # predict's cast of X would show in the handed-back input
    return {'kind': 'ext', 'n': n, 'b': b, 'nargs': nargs, 'out': out, 'seed': seed,
            'xdtype': rng.choice(list(EXT_XD)), 'xshape': rng.choice(list(XSHAPES)), 'layout': layout, 'pdtype': pdtype,
            'arot': rng.randrange(5), 'mstate': rng.choice(MSTATES), 'call': rng.choice(CALLS + ('kw',)),
            'args_as': rng.choice(('none', 'list')) if nargs == 0 else rng.choice(('tuple', 'list'))}


def _ext_batch_sizes(n, thorough):
    if thorough and n <= 40:
        return list(range(1, n + 4)) + [2 * n, 10 ** 9, None]
    bs = {1, 2, 3, n - 1, n, n + 1, 2 * n, 10 ** 9}
    if n > 40:
        bs |= {31, 32, 33}
    bs |= set([b for b in range(2, n) if n % b == 1][:3])           # last batch holds exactly one example
    return sorted(b for b in bs if b >= 1) + [None]


def _draw_seq(rng, n, seed):
    steps = []
    for j in range(rng.randrange(3, 6)):
        reuse = j > 0 and rng.random() < 0.4
        m = steps[-1]['n'] if reuse else rng.choice((n, n, max(1, n - 1), n + 1, rng.randrange(1, 41)))
        steps.append({'n': m, 'b': rng.choice((1, 2, 3, max(1, m - 1), m, m + 1, None, rng.randrange(1, m + 4))),
                      'nargs': steps[-1]['nargs'] if reuse else rng.randrange(4), 'seed': seed + j, 'mstate': rng.choice(MSTATES),
                      'reuse': reuse, 'layout': rng.choice(('contig', 'strided', 'permuted', 'expanded')), 'call': rng.choice(CALLS + ('kw',)),
                      'xdtype': rng.choice(('float64', 'float32', 'int64', 'int32', 'float16')), 'xshape': rng.choice(list(XSHAPES))})
    out = rng.choice(EXT_OUT)
    return {'kind': 'seq', 'out': out, 'pdtype': None if out == 'ident' else rng.choice((None, 'float32', 'float16')),
            'xdtype': rng.choice(('float64', 'float32', 'int64', 'int32', 'float16')), 'xshape': rng.choice(list(XSHAPES)), 'steps': steps}


def _run_extended(rep, seed0, count, order, thorough):
    """the input classes the plain sweep does not pass; cheap, so it goes first"""
    rng = random.Random(seed0 * 31 + 5)
    kinds = ('dropout', 'bn', 'both')
    mixed = ('top-eval-sub-train', 'top-train-sub-eval', 'eval') + (('train',) if thorough else ())
    done = True
    for n in order + [41, 63, 64, 65, 96, 97, 100]:
        if rep.out_of_time():
            done = False
            break
        for b in _ext_batch_sizes(n, thorough):
            for nargs in range(4):
                for t in range(4 if thorough else 1):
                    case = _draw_ext(rng, n, b, nargs, seed0 + t)
                    _do(rep, case, 'extended-input-classes', count, sample=case)
        for t in range(20 if thorough else 4):
            case = _draw_seq(rng, n, seed0 + 100 * t)
            _do(rep, case, 'call-histories', count, sample=case)
        if n > 40:
            continue
        # train / eval observable models in mixed hand-over states
        bs = list(range(1, n + 4)) + [None] if thorough else sorted({1, 2, n, n + 2}) + [None]
        for i, b in enumerate(bs):
            for j, mstate in enumerate(mixed):
                for kind in (kinds if thorough else (kinds[(n + i + j) % 3],)):
                    case = {'kind': 'mode', 'model': kind, 'n': n, 'b': b, 'nargs': (n + i + j) % 2, 'seed': seed0, 'mstate': mstate}
                    _do(rep, case, 'train-vs-eval-models(mixed-state)', count, sample=case)
        # rejection: other batch sizes, layouts of the bad entry, models with parameters, hand-over states
        for nargs in (1, 2, 3):
            for b in (None, 1, n):
                for mm in sorted({n - 1, n + 1, 1, 2 * n, 0, n + 32} - {n}):
                    case = {'kind': 'reject', 'n': n, 'b': b, 'nargs': nargs, 'k': rng.randrange(nargs), 'm': mm, 'seed': seed0,
                            'out': rng.choice(OUT_KINDS), 'args_as': rng.choice(('tuple', 'list')),
                            'bad_layout': rng.choice(('contig', 'expanded', 'strided')), 'pdtype': rng.choice((None, 'float32', 'float16')),
                            'mstate': rng.choice(MSTATES), 'call': rng.choice(CALLS)}
                    _do(rep, case, 'rejection(extended)', count, sample=case)
    if done:
        rep.mark_exhaustive('extended input classes: every n in 1..40 (+7 larger n) x the listed batch sizes x 0-3 extra arguments, other choices drawn (seeded)')
    else:
        rep.note('time budget reached inside the extended section')


def run(rep):
    thorough = rep.tier == 'thorough'
    seed0 = rep.rng.randrange(0, 10 ** 6)
    count = {}
    xd = list(XDTYPES)
    kinds = ('dropout', 'bn', 'both')
    done = True
    ns = list(range(1, 41))
    # interleave small and large n so that a time-out still leaves every regime covered
    order = [ns[i // 2] if i % 2 == 0 else ns[-1 - i // 2] for i in range(len(ns))]
    _run_extended(rep, seed0, count, order, thorough)
    for n in order:
        for b in list(range(1, n + 4)) + [None]:
            if rep.out_of_time():
                done = False
                break
            bb = 0 if b is None else b
            for nargs in range(4):
                r = n + bb + nargs
                outs = OUT_KINDS if thorough else (OUT_KINDS[r % 7], OUT_KINDS[(r + 3) % 7], OUT_KINDS[(r + 5) % 7])
                for oi, out in enumerate(outs):
                    for t in range(3 if thorough else 1):
                        case = {'kind': 'rec', 'n': n, 'b': b, 'nargs': nargs, 'out': out, 'seed': seed0 + t,
                                'xdtype': xd[(r + oi + t) % 4],
                                'args_as': ('none' if (r + oi) % 2 else 'list') if nargs == 0 else ('tuple' if (r + oi) % 2 else 'list')}
                        _do(rep, case, 'recording-models', count, sample=case)
            for nargs in (0, 1):
                for kind in (kinds if thorough else (kinds[(n + bb + nargs) % 3],)):
                    case = {'kind': 'mode', 'model': kind, 'n': n, 'b': b, 'nargs': nargs, 'seed': seed0}
                    _do(rep, case, 'train-vs-eval-models', count, sample=case)
        # rejection
        for nargs in (1, 2, 3):
            for k in range(nargs):
                for b in ((1, n, n + 3) if thorough else (2, n + 1)):
                    for mm in sorted({n - 1, n + 1, 1, 2 * n, 0, n + b} - {n}):
                        case = {'kind': 'reject', 'n': n, 'b': b, 'nargs': nargs, 'k': k, 'm': mm, 'seed': seed0,
                                'out': OUT_KINDS[(n + k) % 7], 'args_as': 'tuple' if (n + k + mm) % 2 else 'list'}
                        _do(rep, case, 'rejection', count, sample=case)
    if done:
        rep.mark_exhaustive('every n in 1..40 x every batch size 1..n+3 (+ default) x 0-3 extra arguments' +
                            (' x every output kind' if thorough else ' (output kinds / dtypes rotating)'))
    else:
        rep.note('time budget reached before all n were covered')
    if thorough:
        for n in (41, 42, 43, 64, 97):
            for b in range(1, n + 4):
                if rep.out_of_time():
                    break
                for nargs in (0, 3):
                    for out in ('tensor', 'tuple3'):
                        case = {'kind': 'rec', 'n': n, 'b': b, 'nargs': nargs, 'out': out, 'seed': seed0, 'xdtype': xd[(n + b) % 4],
                                'args_as': 'none' if nargs == 0 else 'tuple'}
                        _do(rep, case, 'recording-models(n>40)', count)
    if count:
        rep.note('violations per class: ' + ', '.join('%s=%d' % kv for kv in sorted(count.items())))


def replay(case):
    f = CHECKS.get(case.get('kind'))
    if f is None:
        return ['unknown replay kind']
    return f(case)
