"""Bounded stand-in for C03 (predict is transparent to batching) — never counted as proved.

All checks call the REAL tangermeme.predict.predict (device='cpu') and compare with the right-hand
side of the statement computed literally: for every example i the model is called on the single
example (X[i:i+1], args[0][i:i+1], ...) in evaluation mode with gradients disabled, and the
per-example outputs are concatenated in input order (per output for tuple / list models).

 kind 'rec'    exact-integer *recording* models without parameters: the main output of example i is
               the concatenation of the complete row X[i] and of the complete rows args[k][i], so any
               mis-pairing / re-ordering / dropped or duplicated example changes the result and
               nothing can cancel; further outputs have other shapes and dtypes (int64 (b,2,1),
               float64 (b,)).  The model logs (self.training, torch.is_grad_enabled()) at every call.
 kind 'mode'   float32 models with parameters whose train and eval behaviour differ (Dropout,
               BatchNorm1d with non-trivial running statistics, both), handed over in train mode.  All
               weights, inputs and statistics are small integers (BatchNorm: eps = 1, running_var = 3,
               so 1/sqrt(var+eps) = 1/2), hence float32 arithmetic is exact and the comparison is
               bitwise.  Also: outputs do not require grad, BatchNorm statistics are not updated.
 kind 'reject' one args entry gets a different leading dimension (n-1, n+1, 1, 2n, 0, n+b); the model
               used here ignores the content of args, so only predict's own check can reject.

Not asserted (the statement does not say it): the container type of a multi-output result (list vs
tuple), the mode of the model after the call, how many examples the model sees per call.
"""
import copy

import torch

from tangermeme.predict import predict

OUT_KINDS = ('tensor', 'tuple1', 'tuple2', 'tuple3', 'list1', 'list2', 'list3')
N_OUT = {'tensor': 1, 'tuple1': 1, 'tuple2': 2, 'tuple3': 3, 'list1': 1, 'list2': 2, 'list3': 3}
XDTYPES = {'float64': torch.float64, 'float32': torch.float32, 'int64': torch.int64, 'int8': torch.int8}

SCOPE = {
    'quick': ('recording models: every n in 1..40 x every batch size b in 1..n+3 x 0-3 extra arguments (940 x 4 combinations), '
              '3 of the 7 output kinds {tensor, tuple of 1/2/3, list of 1/2/3} per combination (rotating), X dtype rotating over '
              'float64/float32/int64/int8, args passed as tuple/list (None or empty for 0 args); dropout / batch-norm / both models handed over in train mode: every n in 1..40 x every b in 1..n+3 '
              'x {0,1} extra arguments (one model kind per combination, rotating); rejection: every n in 1..40 x 1-3 args x every position of the bad entry x leading '
              'dimensions {n-1, n+1, 1, 2n, 0, n+b} x 2 batch sizes; batch_size omitted (default 32) for every n'),
    'thorough': ('recording models: every n in 1..40 x every b in 1..n+3 x 0-3 extra arguments x all 7 output kinds x 3 data seeds, X dtype rotating; '
                 'dropout / batch-norm / both models: every n x every b x {0,1} extra arguments x all 3 model kinds; rejection as in quick with every batch size in {1, n, n+3}; '
                 'additionally n in {41..43, 64, 97} with b in 1..n+3 for tensor / tuple3 outputs'),
}


# ----------------------------------------------------------------------------------------------
# models
# ----------------------------------------------------------------------------------------------

class Rec(torch.nn.Module):
    """parameter-free, row-wise, exact-integer recording model"""

    def __init__(self, out, tolerant=False):
        super().__init__()
        self.out = out
        self.tolerant = tolerant
        self.log = []

    def forward(self, X, *args):
        self.log.append((bool(self.training), bool(torch.is_grad_enabled()), int(X.shape[0])))
        b = X.shape[0]
        feats = [X.reshape(b, -1).to(torch.float64)]
        if not self.tolerant:
            feats += [a.reshape(b, -1).to(torch.float64) for a in args]
        F = torch.cat(feats, dim=1)                       # the complete rows: identity of the pairing
        o2 = (F[:, :2].to(torch.int64) * 3 + 1).reshape(b, 2, 1)
        o3 = (F * torch.arange(1, F.shape[1] + 1, dtype=torch.float64)).sum(dim=1)
        k = N_OUT[self.out]
        outs = [F, o2, o3][:k]
        if self.out == 'tensor':
            return outs[0]
        return tuple(outs) if self.out.startswith('tuple') else list(outs)


class ModeModel(torch.nn.Module):
    """float32 model with exact small-integer arithmetic whose train and eval behaviour differ"""

    def __init__(self, kind, seed, C=3, L=4, H=5):
        super().__init__()
        g = torch.Generator().manual_seed(seed)
        self.kind = kind
        self.log = []
        self.drop = torch.nn.Dropout(0.5) if kind in ('dropout', 'both') else None
        self.bn = None
        if kind in ('bn', 'both'):
            self.bn = torch.nn.BatchNorm1d(C, eps=1.0)
            with torch.no_grad():
                self.bn.running_mean.copy_(torch.randint(-3, 4, (C,), generator=g).float())
                self.bn.running_var.fill_(3.0)
                self.bn.weight.copy_(torch.randint(1, 4, (C,), generator=g).float() * 2)
                self.bn.bias.copy_(torch.randint(-3, 4, (C,), generator=g).float())
        self.lin = torch.nn.Linear(C * L, H)
        with torch.no_grad():
            self.lin.weight.copy_(torch.randint(-3, 4, (H, C * L), generator=g).float())
            self.lin.bias.copy_(torch.randint(-3, 4, (H,), generator=g).float())

    def forward(self, X, a=None):
        self.log.append((bool(self.training), bool(torch.is_grad_enabled()), int(X.shape[0])))
        h = X
        if self.bn is not None:
            h = self.bn(h)
        if self.drop is not None:
            h = self.drop(h)
        y = self.lin(h.reshape(h.shape[0], -1))
        if a is not None:
            y = y + a
        return y


# ----------------------------------------------------------------------------------------------
# data
# ----------------------------------------------------------------------------------------------

def _rec_data(n, nargs, seed, xdtype):
    g = torch.Generator().manual_seed(seed * 1009 + n)
    hi = 100 if xdtype == 'int8' else 1000
    X = torch.randint(0, hi, (n, 2, 3), generator=g)
    X[:, 0, 0] = torch.arange(n)                                   # row identity
    X = X.to(XDTYPES[xdtype])
    pool = [torch.randint(0, 2 ** 20, (n,), generator=g),                                   # int64 (n,)
            torch.randint(-500, 500, (n, 2), generator=g).to(torch.float64),                # float64 (n, 2)
            torch.randint(0, 2 ** 15, (n, 1, 3), generator=g).to(torch.int32)]              # int32 (n, 1, 3)
    for k, a in enumerate(pool):                                   # make the row identity visible in every arg too
        a.reshape(n, -1)[:, 0] = (torch.arange(n) * (k + 2) + 7).to(a.dtype)
    return X, pool[:nargs]


def _per_example(model, X, args):
    """the right-hand side of the statement, literally: one example at a time, eval mode, no grad"""
    model.eval()
    rows = []
    with torch.no_grad():
        for i in range(X.shape[0]):
            r = model(X[i:i + 1], *[a[i:i + 1] for a in args])
            rows.append([r] if isinstance(r, torch.Tensor) else list(r))
    return [torch.cat([row[o] for row in rows]) for o in range(len(rows[0]))]


def _compare(y, expected, single):
    out = []
    if single:
        if not isinstance(y, torch.Tensor):
            return ['model returns a tensor but predict returned %s' % type(y).__name__]
        ys = [y]
    else:
        if not isinstance(y, (list, tuple)) or not all(isinstance(t, torch.Tensor) for t in y):
            return ['model returns %d tensors but predict returned %s' % (len(expected), type(y).__name__)]
        if len(y) != len(expected):
            return ['model returns %d tensors but predict returned %d' % (len(expected), len(y))]
        ys = list(y)
    for o, (got, exp) in enumerate(zip(ys, expected)):
        if tuple(got.shape) != tuple(exp.shape):
            out.append('output %d has shape %s, the concatenation over examples has shape %s' % (o, tuple(got.shape), tuple(exp.shape)))
            continue
        if got.dtype != exp.dtype:
            out.append('output %d has dtype %s, the concatenation over examples has dtype %s' % (o, got.dtype, exp.dtype))
        neq = (got.to(torch.float64) != exp.to(torch.float64)).reshape(got.shape[0], -1).any(dim=1)
        if bool(neq.any()):
            i = int(neq.nonzero()[0])
            out.append('output %d differs from the per-example result at %d of %d examples, first at example %d: got %s expected %s'
                       % (o, int(neq.sum()), got.shape[0], i, got[i].flatten().tolist()[:12], exp[i].flatten().tolist()[:12]))
    return out


def _flags(log):
    out = []
    if not log:
        return ['the model was never called']
    if any(t for (t, g, b) in log):
        out.append('the model was called in training mode')
    if any(g for (t, g, b) in log):
        out.append('the model was called with gradients enabled')
    return out


def _call_predict(model, X, args, b, args_as):
    if args_as == 'none':
        a = None
    elif args_as == 'list':
        a = list(args)
    else:
        a = tuple(args)
    if b is None:
        return predict(model, X, args=a, device='cpu')
    return predict(model, X, args=a, batch_size=b, device='cpu')


# ----------------------------------------------------------------------------------------------
# checks
# ----------------------------------------------------------------------------------------------

_EXP_CACHE = {}


def check_rec(case):
    n, b, nargs, out, seed, xdtype = case['n'], case['b'], case['nargs'], case['out'], case['seed'], case['xdtype']
    X, args = _rec_data(n, nargs, seed, xdtype)
    key = (n, nargs, out, seed, xdtype)
    if key not in _EXP_CACHE:
        if len(_EXP_CACHE) > 4000:
            _EXP_CACHE.clear()
        _EXP_CACHE[key] = _per_example(Rec(out), X, args)
    expected = _EXP_CACHE[key]
    X0, args0 = X.clone(), [a.clone() for a in args]
    model = Rec(out)
    model.train()
    viol = []
    try:
        y = _call_predict(model, X, args, b, case.get('args_as', 'tuple'))
    except Exception as ex:
        return ['predict raised %s (%s) on a valid request' % (type(ex).__name__, str(ex)[:80])]
    viol += _compare(y, expected, out == 'tensor')
    viol += _flags(model.log)
    if not torch.equal(X, X0) or X.dtype != X0.dtype:
        viol.append('X was modified')
    if any(not torch.equal(a, a0) for a, a0 in zip(args, args0)):
        viol.append('an args entry was modified')
    return viol


def _mode_data(n, nargs, seed):
    g = torch.Generator().manual_seed(seed * 7919 + n)
    X = torch.randint(-8, 9, (n, 3, 4), generator=g).float()
    X[:, 0, 0] = torch.arange(n).float()
    args = [torch.randint(-50, 50, (n, 5), generator=g).float()][:nargs]
    return X, args


def check_mode(case):
    n, b, nargs, kind, seed = case['n'], case['b'], case['nargs'], case['model'], case['seed']
    X, args = _mode_data(n, nargs, seed)
    model = ModeModel(kind, seed)
    ref = copy.deepcopy(model)
    expected = _per_example(ref, X, args)
    X0, args0 = X.clone(), [a.clone() for a in args]
    model.train()
    viol = []
    try:
        y = _call_predict(model, X, args, b, 'tuple' if nargs else 'none')
    except Exception as ex:
        return ['predict raised %s (%s) on a valid request' % (type(ex).__name__, str(ex)[:80])]
    viol += _compare(y, expected, True)
    viol += _flags(model.log)
    if isinstance(y, torch.Tensor) and (y.requires_grad or y.grad_fn is not None):
        viol.append('the result is attached to an autograd graph (gradients were enabled)')
    if model.bn is not None:
        if not (torch.equal(model.bn.running_mean, ref.bn.running_mean) and torch.equal(model.bn.running_var, ref.bn.running_var)
                and int(model.bn.num_batches_tracked) == int(ref.bn.num_batches_tracked)):
            viol.append('batch-norm running statistics were updated (the model was run in training mode)')
    if not torch.equal(X, X0):
        viol.append('X was modified')
    if any(not torch.equal(a, a0) for a, a0 in zip(args, args0)):
        viol.append('an args entry was modified')
    return viol


def check_reject(case):
    n, b, nargs, k, m, seed = case['n'], case['b'], case['nargs'], case['k'], case['m'], case['seed']
    X, args = _rec_data(n, nargs, seed, 'float64')
    g = torch.Generator().manual_seed(seed + 5)
    shape = (m,) + tuple(args[k].shape[1:])
    args[k] = torch.randint(0, 100, shape, generator=g).to(args[k].dtype)
    model = Rec(case.get('out', 'tensor'), tolerant=True)
    try:
        _call_predict(model, X, args, b, case.get('args_as', 'tuple'))
    except Exception:
        return []
    return ['args[%d] has leading dimension %d but X has %d examples, and predict returned a result instead of rejecting' % (k, m, n)]


def _finding(w):
    if 'raised' in w:
        return 'predict-raised'
    if 'instead of rejecting' in w:
        return 'args-leading-dim-not-rejected'
    if 'training mode' in w or 'batch-norm' in w:
        return 'model-not-in-eval-mode'
    if 'gradients' in w or 'autograd' in w:
        return 'gradients-enabled'
    if 'modified' in w:
        return 'input-modified'
    if 'has shape' in w:
        return 'output-shape'
    if 'dtype' in w:
        return 'output-dtype'
    if 'differs from the per-example' in w:
        return 'output-not-per-example-concatenation'
    if 'predict returned' in w:
        return 'output-structure'
    if 'never called' in w:
        return 'model-never-called'
    return 'other'


CHECKS = {'rec': check_rec, 'mode': check_mode, 'reject': check_reject}
MAX_PER_FINDING = 25


def _do(rep, case, section, count, sample=None):
    viol = CHECKS[case['kind']](case)
    rep.case(tuple(sorted(case.items())), nontrivial=True, sample=sample, section=section)
    for w in viol:
        f = _finding(w)
        count[f] = count.get(f, 0) + 1
        if count[f] <= MAX_PER_FINDING:
            rep.violation('%s: %s' % (case['kind'], w), case, finding=f)
        elif count[f] == MAX_PER_FINDING + 1:
            rep.note('more than %d violations of class %s; further ones are only counted' % (MAX_PER_FINDING, f))


# ----------------------------------------------------------------------------------------------
# run
# ----------------------------------------------------------------------------------------------

def run(rep):
    thorough = rep.tier == 'thorough'
    seed0 = rep.rng.randrange(0, 10 ** 6)
    count = {}
    xd = list(XDTYPES)
    kinds = ('dropout', 'bn', 'both')
    done = True
    ns = list(range(1, 41))
    # interleave small and large n so that a time-out still leaves every regime covered
    order = [ns[i // 2] if i % 2 == 0 else ns[-1 - i // 2] for i in range(len(ns))]
    for n in order:
        for b in list(range(1, n + 4)) + [None]:
            if rep.out_of_time():
                done = False
                break
            bb = 0 if b is None else b
            for nargs in range(4):
                r = n + bb + nargs
                outs = OUT_KINDS if thorough else (OUT_KINDS[r % 7], OUT_KINDS[(r + 3) % 7], OUT_KINDS[(r + 5) % 7])
                for oi, out in enumerate(outs):
                    for t in range(3 if thorough else 1):
                        case = {'kind': 'rec', 'n': n, 'b': b, 'nargs': nargs, 'out': out, 'seed': seed0 + t,
                                'xdtype': xd[(r + oi + t) % 4],
                                'args_as': ('none' if (r + oi) % 2 else 'list') if nargs == 0 else ('tuple' if (r + oi) % 2 else 'list')}
                        _do(rep, case, 'recording-models', count, sample=case)
            for nargs in (0, 1):
                for kind in (kinds if thorough else (kinds[(n + bb + nargs) % 3],)):
                    case = {'kind': 'mode', 'model': kind, 'n': n, 'b': b, 'nargs': nargs, 'seed': seed0}
                    _do(rep, case, 'train-vs-eval-models', count, sample=case)
        # rejection
        for nargs in (1, 2, 3):
            for k in range(nargs):
                for b in ((1, n, n + 3) if thorough else (2, n + 1)):
                    for mm in sorted({n - 1, n + 1, 1, 2 * n, 0, n + b} - {n}):
                        case = {'kind': 'reject', 'n': n, 'b': b, 'nargs': nargs, 'k': k, 'm': mm, 'seed': seed0,
                                'out': OUT_KINDS[(n + k) % 7], 'args_as': 'tuple' if (n + k + mm) % 2 else 'list'}
                        _do(rep, case, 'rejection', count, sample=case)
    if done:
        rep.mark_exhaustive('every n in 1..40 x every batch size 1..n+3 (+ default) x 0-3 extra arguments' +
                            (' x every output kind' if thorough else ' (output kinds / dtypes rotating)'))
    else:
        rep.note('time budget reached before all n were covered')
    if thorough:
        for n in (41, 42, 43, 64, 97):
            for b in range(1, n + 4):
                if rep.out_of_time():
                    break
                for nargs in (0, 3):
                    for out in ('tensor', 'tuple3'):
                        case = {'kind': 'rec', 'n': n, 'b': b, 'nargs': nargs, 'out': out, 'seed': seed0, 'xdtype': xd[(n + b) % 4],
                                'args_as': 'none' if nargs == 0 else 'tuple'}
                        _do(rep, case, 'recording-models(n>40)', count)
    if count:
        rep.note('violations per class: ' + ', '.join('%s=%d' % kv for kv in sorted(count.items())))


def replay(case):
    f = CHECKS.get(case.get('kind'))
    if f is None:
        return ['unknown replay kind']
    return f(case)
