"""Bounded stand-in for C14 (TOMTOM scores / p-values vs an independent complete-score reference).

Never counted as proved.  Two observation points, as fixed by the property:

 (K) tomtom._integer_distances_and_histogram is called on the same pre-processed inputs the wrapper
     builds (pooled target columns of both strands, hashing disabled or verified injective) and its
     outputs are compared with exact distances: gamma = -Euclidean distance, the integerised
     similarity x in [0, n_score_bins] is monotone (non-increasing) in the exact distance, the
     histogram f is the multiplicity-weighted frequency of x, the score of an unaligned column
     (`offset`) is the integerised median.
 (R) tomtom(...) is compared with a numpy reference written from the statement and fed with that
     integerised matrix x: score(o) = sum_{aligned} x + (#unaligned query columns) * offset,
     best = max over all nq+nt-1 relative offsets, reported (offset, overlap) attain it,
     p = 1 - prod_o P(S_o < best) with S_o the sum of independent columns drawn from the pooled
     target-column distribution (pmf by convolution, tail sums), strands merged as
     1-(1-min p)^2 with the higher-scoring strand reported.

Metamorphic clauses: self-match (best score attained at offset 0 / full overlap), reverse-
complemented targets only flip the reported strand.

Argument combinations (the property quantifies over configurations; every one of them is compared
with the same reference): n_cache left at its default, raised to n_score_bins, set to exactly the
largest offset of the call (boundary offset == n_cache, the smallest value tomtom accepts without
complaint) or well above it; n_median_bins 50 / 200 / 999 / 1000 / 5000 (the harness' kernel call
gets the same value, so the unaligned-column score is the median as binned by the real code);
n_target_bins None / 2 / 37 / 100 / 1000 (always verified injective); queries and / or targets given as
torch tensors; n_jobs 1 or 2; n_nearest = k (every reported (query, idx) row must be the verified cell
of the full matrix - the ordering / selection of the k rows is C13's business and not asserted here).

Shape grid: queries of every length 1..L against target sets whose lengths are exactly 1..t_max, for
every t_max - every triple (query length, target length, longest target of the call) with its
neighbours nq == nt, nq == nt +- 1, nq >= t_max + 2, nq < every target; the null background of a
target length depends on all three.

Not asserted (statement silent): which of several equally scoring alignments / strands is reported;
which k targets n_nearest selects and in what order.

Not exercised: float32 inputs (each dtype costs a further ~30 s numba compilation of the parallel
kernel per process); n_jobs=-1 (all cores of a shared machine).

Observation kept out of the assertions (undefined behaviour, not a deterministic wrong value): with
hashing, _p_values sizes t_sums by the number of UNIQUE pooled columns, so a target longer than that
writes a few int16 past the end of the scratch array.
"""
import math

import numpy
import torch

from tangermeme.tools import tomtom as TT
from tangermeme.tools.tomtom import tomtom

SCOPE = {
    'quick': 'one-hot queries (all of length 1, 6 of length 2, 6 of length 3, co-processed in groups of 4) against 6 fixed '
             'one-hot target sets, rc on/off, n_score_bins in {20,100,127,200}; shape grid: queries of all lengths 1..8 in one '
             'call against targets of lengths exactly 1..t_max for every t_max 1..9, rc on/off (n_cache default or exactly the '
             'largest offset); up to 1300 seeded random query/target sets (time permitting): 1-4 (5%: 6-10) queries and 1-5 '
             'targets of length 1-25 (styles short / mixed / long / every target at least 2 shorter than some query / every '
             'query shorter than every target / all lengths equal), PWM columns on grids 1/1 (one-hot), 1/2, 1/4, 1/10, 1/20 '
             'and continuous Dirichlet, optionally drawn from a pool of 3-6 columns, n_score_bins in '
             '{10,25,50,100,127,128,150,200} or (20%) uniform in 10..200, n_cache default / n_score_bins (when > 100) / '
             'exactly the largest offset / largest offset + 157, n_median_bins 1000 or (20%) 50 / 200 / 999 / 5000, rc on/off, '
             'hashing off or 2 / 37 / 100 / 1000 bins verified injective, inputs as numpy arrays or (15%) torch tensors '
             '(queries, targets or both), n_jobs 1 or (6% of multi-query sets) 2, (15%) additionally n_nearest = k with every '
             'reported row compared with the verified full-matrix cell; a quarter of the sets contain the queries as targets '
             '(self-match); every third set also as rc-target metamorphic pair; every (query, target, strand) cell and every '
             'merged cell is compared',
    'thorough': 'same families; all 84 one-hot queries of length 1-3 against 12 fixed target sets; shape grid with query lengths '
                '1..12 and t_max 1..14 on two PWM grids; random sets until the time budget (a few thousand), up to 6 (5%: 12) '
                'queries x 8 targets, n_score_bins uniformly from 10..200 in half of the sets',
}

ALPH = 'ACGT'
P_ATOL = 2e-11
P_RTOL = 1e-9
D_TOL = 2e-7          # -sqrt(|x|^2+|y|^2-2xy) loses half the digits near 0
NBINS = (10, 25, 50, 100, 127, 128, 150, 200)


# ----------------------------------------------------------------------------- input descriptions
def gen_pwms(spec):
    """spec = {'seed', 'lens', 'grid', 'alpha'[, 'pool']}: deterministic list of (4, len) float64 PWMs.
    grid 0 = continuous Dirichlet(alpha); grid G >= 1: column = multinomial(G, Dirichlet(alpha)) / G.
    pool p > 0: columns are drawn from a pool of p columns (many duplicate columns)."""
    rs = numpy.random.RandomState(spec['seed'])
    G, alpha, pool = spec['grid'], spec.get('alpha', 0.5), spec.get('pool', 0)

    def col():
        w = rs.dirichlet(numpy.ones(4) * alpha)
        if G == 0:
            return w
        w = w / w.sum()
        return rs.multinomial(G, w).astype('float64') / G
    cols = [col() for _ in range(pool)] if pool else None
    out = []
    for l in spec['lens']:
        if cols is None:
            out.append(numpy.stack([col() for _ in range(l)], axis=1))
        else:
            out.append(numpy.stack([cols[rs.randint(len(cols))] for _ in range(l)], axis=1))
    return out


def mats(desc):
    """desc: list whose items are a string (one-hot), a nested 4 x len list, or a gen_pwms spec"""
    out = []
    for d in desc:
        if isinstance(d, str):
            a = numpy.zeros((4, len(d)), dtype='float64')
            for i, c in enumerate(d):
                a[ALPH.index(c), i] = 1.0
            out.append(a)
        elif isinstance(d, dict):
            out.extend(gen_pwms(d))
        else:
            out.append(numpy.array(d, dtype='float64'))
    return out


def _rc(T):
    return numpy.ascontiguousarray(T[::-1, ::-1])


def pooled(Ts, rc, n_target_bins):
    """the pooled target columns exactly as the wrapper presents them to the kernels (harness
    pre-condition code, not an oracle): returns (Ts_both_strands, unique columns U, counts, inv) or
    None if hashing would merge two different columns (outside the property's quantifier)."""
    Ts2 = Ts + [_rc(T) for T in Ts] if rc else list(Ts)
    T = numpy.concatenate(Ts2, axis=-1)
    if n_target_bins is None:
        return Ts2, T, numpy.ones(T.shape[1], dtype='int64'), numpy.arange(T.shape[1])
    T_min = T.min(axis=-1, keepdims=True)
    T_max = T.max(axis=-1, keepdims=True)
    T_max[T_max == T_min] = T_min[T_max == T_min] + 1
    T_ints = numpy.around((T - T_min) / (T_max - T_min) * (n_target_bins - 1))
    T_ints = T_ints.T.dot(n_target_bins ** numpy.arange(len(T))[:, None])
    _, idx, inv, counts = numpy.unique(T_ints.flatten(), return_index=True, return_inverse=True, return_counts=True)
    U = T[:, idx]
    if not numpy.array_equal(U[:, inv], T):
        return None
    return Ts2, numpy.ascontiguousarray(U), counts.astype('int64'), inv


def degenerate(Qs, U):
    """a query column equidistant from every pooled target column: the median binning divides by
    zero (ZeroDivisionError, never a wrong result) - such inputs are skipped"""
    for Q in Qs:
        for i in range(Q.shape[1]):
            d = numpy.sqrt(((U - Q[:, i:i + 1]) ** 2).sum(axis=0))
            if d.max() - d.min() < 1e-6:
                return True
    return False


# ----------------------------------------------------------------------------- (K) kernel vs exact distances
def kernel(Qs, iq, U, counts, n_score_bins, n_median_bins=1000):
    """run the real tomtom._integer_distances_and_histogram for query iq.
    returns x (n_unique_cols, nq) int64 in query-column order, offset, f, gamma, and violations"""
    Q = numpy.concatenate(Qs, axis=-1)
    Q_norm = (Q ** 2).sum(axis=0)
    U_norm = (U ** 2).sum(axis=0)
    nq = int(Qs[iq].shape[1])
    q0 = int(sum(q.shape[1] for q in Qs[:iq]))
    nu = U.shape[1]
    gamma = numpy.full((nu, nq), numpy.nan)
    gamma_int = numpy.full((nu, nq), -30000, dtype='int16')   # wide store: the exact x - offset
    f = numpy.full((nq, n_score_bins + 1), numpy.nan)
    medians = numpy.full(nq, numpy.nan)
    median_bins = numpy.full((n_median_bins, 2), numpy.nan)
    off = int(TT._integer_distances_and_histogram(Q, U, gamma, gamma_int, f, medians, median_bins, Q_norm, U_norm,
                                                  counts, q0, nq, n_score_bins))
    x = gamma_int[:, ::-1].astype('int64') + off
    out = []
    Qi = Qs[iq]
    d = numpy.sqrt(((U[:, :, None] - Qi[:, None, :]) ** 2).sum(axis=0))      # (nu, nq) exact distances
    if not numpy.all(numpy.abs(gamma + d) <= D_TOL):
        out.append(('kernel-distance', 'gamma != -Euclidean distance (max err %.3g)' % float(numpy.nanmax(numpy.abs(gamma + d)))))
    if x.min() < 0 or x.max() > n_score_bins:
        out.append(('kernel-range', 'integerised similarity outside [0, n_score_bins]: [%d, %d]' % (x.min(), x.max())))
        return x, off, f, gamma, out
    tot = float(counts.sum())
    for i in range(nq):
        # monotone: strictly closer column never gets a smaller integer similarity
        order = numpy.argsort(d[:, i], kind='stable')
        ds, xs = d[order, i], x[order, i]
        pref_min = numpy.minimum.accumulate(xs)
        k = numpy.searchsorted(ds, ds - D_TOL, side='left')     # columns [0, k) are closer by more than D_TOL
        bad = [(j, k[j]) for j in range(nu) if k[j] > 0 and xs[j] > pref_min[k[j] - 1]]
        if bad:
            out.append(('kernel-monotone', 'query column %d: a farther target column has a larger integer similarity' % i))
        h = numpy.bincount(x[:, i], weights=counts.astype('float64'), minlength=n_score_bins + 1) / tot
        if not numpy.all(numpy.abs(h - f[i]) <= 1e-12):
            out.append(('kernel-histogram', 'query column %d: f is not the weighted frequency of the integer similarities' % i))
        # the unaligned-column score `off` is the integerised (binned, approximate) weighted median
        asc = numpy.argsort(-d[:, i], kind='stable')             # ascending similarity
        cs = numpy.cumsum(counts[asc])
        lo = asc[numpy.searchsorted(cs, tot / 2.0, side='left')]
        hi = asc[min(numpy.searchsorted(cs, tot / 2.0, side='right'), nu - 1)]
        # the binned median is the mean of the values that share the median's bin: it is within one
        # median-bin width of the median element, i.e. within n_score_bins / (n_median_bins - 1)
        # integer units (plus rounding)
        mtol = 1 + n_score_bins // max(1, n_median_bins - 1)
        if not (x[lo, i] - mtol <= off <= x[hi, i] + mtol):
            out.append(('kernel-median', 'query column %d: score of an unaligned column %d is not the integerised median (%d..%d)'
                        % (i, off, x[lo, i], x[hi, i])))
    return x, off, f, gamma, out


# ----------------------------------------------------------------------------- (R) reference
class NullRef:
    """null distribution of the complete score of one query, from the integerised matrix"""

    def __init__(self, x, counts, off, n_score_bins):
        self.nq = x.shape[1]
        self.off = off
        tot = float(counts.sum())
        self.pm = [numpy.bincount(x[:, i], weights=counts.astype('float64'), minlength=n_score_bins + 1) / tot
                   for i in range(self.nq)]
        self.span = {}

    def span_pmf(self, a, b):
        """pmf of sum_{i=a..b} X_i (independent columns), support 0..(b-a+1)*n_bins"""
        if (a, b) not in self.span:
            if a == b:
                v = self.pm[a]
            elif a == 0 or (b != self.nq - 1):
                v = numpy.convolve(self.span_pmf(a, b - 1), self.pm[b])
            else:
                v = numpy.convolve(self.span_pmf(a + 1, b), self.pm[a])
            self.span[(a, b)] = v
        return self.span[(a, b)]

    def p_value(self, nt, best):
        """1 - prod_o P(S_o <= best - 1) over the nq+nt-1 offsets"""
        nq, off = self.nq, self.off
        log_prod = 0.0
        for o in range(-(nq - 1), nt):
            a, b = max(0, -o), min(nq - 1, nt - 1 - o)
            pmf = self.span_pmf(a, b)
            s = best - off * (nq - (b - a + 1))           # P(span sum >= s)
            if s <= 0:
                return 1.0
            sf = float(pmf[s:].sum()) if s < len(pmf) else 0.0
            if sf >= 1.0:
                return 1.0
            log_prod += math.log1p(-sf)
        return -math.expm1(log_prod)


def align_scores(xt, nq, off):
    """xt: (nt, nq) integer similarities of the target's columns; dict offset -> (score, overlap)"""
    nt = xt.shape[0]
    res = {}
    for o in range(-(nq - 1), nt):
        a, b = max(0, -o), min(nq - 1, nt - 1 - o)
        s = sum(int(xt[i + o, i]) for i in range(a, b + 1)) + off * (nq - (b - a + 1))
        res[o] = (s, b - a + 1)
    return res


def classify(x, off, best_scores, n_score_bins):
    """stable key of the input class a disagreeing cell belongs to"""
    g = x - off
    if n_score_bins > 127 and (g.min() < -128 or g.max() > 127):
        return 'int8-similarity-overflow'
    if any(b == 0 for b in best_scores):
        return 'best-score-0'
    if (x == 0).any():
        return 'null-mass-at-score-0'
    return None


def _call(Qs, Ts, case, n_cache=None, **extra):
    kw = dict(n_score_bins=case['n_score_bins'], n_target_bins=case.get('n_target_bins'),
              reverse_complement=case['rc'], n_jobs=case.get('n_jobs', 1))
    if n_cache is not None:
        kw['n_cache'] = int(n_cache)
    elif case['n_score_bins'] > 100:
        kw['n_cache'] = case['n_score_bins']          # offset <= n_score_bins always; keep offset <= n_cache
    if 'n_median_bins' in case:
        kw['n_median_bins'] = case['n_median_bins']
    kw.update(extra)
    tens = case.get('tensor') or ''
    if 'Q' in tens:
        Qs = [torch.from_numpy(numpy.ascontiguousarray(q)) for q in Qs]
    if 'T' in tens:
        Ts = [torch.from_numpy(numpy.ascontiguousarray(t)) for t in Ts]
    R = tomtom(Qs, Ts, **kw)
    if not isinstance(R, torch.Tensor):
        raise TypeError('tomtom returned %s, not a tensor' % type(R).__name__)
    return R.numpy()


def _n_cache(case, offs):
    """n_cache_mode 'tight': exactly the largest offset of the call (tomtom complains only when
    offset > n_cache); 'wide': well above it; absent: tomtom's default (n_score_bins when > 100)"""
    mode = case.get('n_cache_mode')
    if mode == 'tight':
        return max(offs)
    if mode == 'wide':
        return max(offs) + 157
    return None


def check_ref(case):
    """every (query, target, strand) cell of one tomtom call against the reference, and - with
    reverse_complement - the merged cell against the two single-strand cells.  Returns strings
    '[finding-key] message'."""
    return ['[%s] %s' % kv for kv in _check_ref(case)[0]]


def _check_ref(case):
    Qs, Ts = mats(case['Q']), mats(case['T'])
    nb, rc = case['n_score_bins'], case['rc']
    pl = pooled(Ts, rc, case.get('n_target_bins'))
    if pl is None:
        return [], {'skipped': 'hashing not injective'}
    Ts2, U, counts, inv = pl
    if degenerate(Qs, U):
        return [], {'skipped': 'degenerate'}
    out = []
    nmb = case.get('n_median_bins', 1000)
    n_t = len(Ts)
    try:
        # (K) first: the offsets are needed to choose n_cache on the boundary
        kers = [kernel(Qs, iq, U, counts, nb, nmb) for iq in range(len(Qs))]
        n_cache = _n_cache(case, [k[1] for k in kers])
        # single-strand cells: with rc the same pooled columns are obtained by passing both strands
        # as explicit targets
        S = _call(Qs, Ts2, case, n_cache, reverse_complement=False)
        M = _call(Qs, Ts, case, n_cache) if rc else None
        N = _call(Qs, Ts, case, n_cache, n_nearest=min(case['n_nearest'], n_t)) if case.get('n_nearest') else None
    except ZeroDivisionError:
        return [], {'skipped': 'ZeroDivisionError'}
    except Exception as e:                                 # the statement gives a value for every pair in the quantifier
        return [('call-raised', 'tomtom raised %s: %s' % (type(e).__name__, str(e)[:200]))], {}
    want = (5, len(Qs), len(Ts2))
    if S.shape != want or (M is not None and M.shape != (5, len(Qs), n_t)):
        return [('result-shape', 'result shape %s / %s for %d queries, %d targets' % (S.shape, None if M is None else M.shape, len(Qs), n_t))], {}
    starts = numpy.concatenate([[0], numpy.cumsum([T.shape[1] for T in Ts2])])
    stats = {'max_p_err': 0.0, 'cells': 0, 'ties': 0, 'classes': set()}
    for iq, Q in enumerate(Qs):
        nq = Q.shape[1]
        x, off, f, gamma, kv = kers[iq]
        for k, m in kv:
            out.append((k, 'query %d: %s' % (iq, m)))
        if any(k == 'kernel-range' for k, _ in kv):
            continue
        xfull = x[inv]                                    # (all pooled positions, nq)
        ref = NullRef(x, counts, off, nb)
        g = x - off
        wide = nb > 127 and (g.min() < -128 or g.max() > 127)
        zero_mass = bool((x == 0).any())
        bests = []
        for s in range(len(Ts2)):
            xt = xfull[starts[s]:starts[s + 1]]
            nt = xt.shape[0]
            al = align_scores(xt, nq, off)
            best = max(v[0] for v in al.values())
            bests.append(best)
            p_ref = ref.p_value(nt, best)
            cls = 'int8-similarity-overflow' if wide else 'best-score-0' if best == 0 else 'null-mass-at-score-0' if zero_mass else None
            stats['cells'] += 1
            if cls:
                stats['classes'].add(cls)
            p, sc, of, ov, st = (float(S[j, iq, s]) for j in range(5))
            tag = 'query %d (len %d) vs target %d%s (len %d)' % (iq, nq, s % n_t, ' rc' if s >= n_t else '', nt)
            if sc != best:
                out.append((cls or 'score-mismatch', '%s: score %r, reference maximum over offsets %d' % (tag, sc, best)))
                continue
            if st != 0:
                out.append((cls or 'strand-mismatch', '%s: strand %r without reverse complement' % (tag, st)))
            n_best = sum(1 for v in al.values() if v[0] == best)
            stats['ties'] += n_best > 1
            if not (of == int(of) and ov == int(ov) and int(of) in al and al[int(of)] == (best, int(ov))):
                out.append((cls or 'offset-overlap-mismatch', '%s: reported offset %r / overlap %r do not attain score %d (attained at offsets %s)'
                            % (tag, of, ov, best, sorted(o for o, v in al.items() if v[0] == best))))
            err = abs(p - p_ref)
            if not (err <= P_ATOL + P_RTOL * p_ref):
                out.append((cls or 'pvalue-mismatch', '%s: p-value %r, reference %r (score %d)' % (tag, p, p_ref, best)))
            else:
                if cls is None and err > stats['max_p_err']:
                    stats['max_p_err'], stats['max_p_at'] = err, (tag, p, p_ref, best)
            if case.get('self') and s == iq:
                if al[0] != (best, nq):
                    out.append((cls or 'self-match', '%s: a motif against itself scores %s at offset 0, best is %d' % (tag, al[0], best)))
                elif n_best == 1 and (of != 0 or ov != nq):
                    out.append((cls or 'self-match', '%s: self match reported at offset %r overlap %r' % (tag, of, ov)))
        if not rc:
            continue
        for it in range(n_t):
            a, b, m = S[:, iq, it], S[:, iq, it + n_t], M[:, iq, it]
            cls = 'int8-similarity-overflow' if wide else 'best-score-0' if min(bests[it], bests[it + n_t]) == 0 else None
            tag = 'query %d (len %d) vs target %d, strands merged' % (iq, nq, it)
            with numpy.errstate(all='ignore'):
                pm = float(1.0 - (1.0 - numpy.minimum(a[0], b[0])) ** 2)
            if not abs(float(m[0]) - pm) <= 1e-12:
                out.append((cls or 'strand-merge-mismatch', '%s: p-value %r, single-strand p-values %r / %r give %r' % (tag, float(m[0]), float(a[0]), float(b[0]), pm)))
            if m[1] != max(a[1], b[1]):
                out.append((cls or 'strand-merge-mismatch', '%s: score %r, single-strand scores %r / %r' % (tag, float(m[1]), float(a[1]), float(b[1]))))
            elif m[4] not in (0.0, 1.0) or (b if m[4] else a)[1] != m[1]:
                out.append((cls or 'strand-merge-mismatch', '%s: reported strand %r is not the higher scoring one (%r / %r)' % (tag, float(m[4]), float(a[1]), float(b[1]))))
            else:
                s = it + (n_t if m[4] else 0)
                al = align_scores(xfull[starts[s]:starts[s + 1]], nq, off)
                if m[1] == bests[s] and not (m[2] == int(m[2]) and int(m[2]) in al and al[int(m[2])] == (bests[s], int(m[3])) and m[3] == int(m[3])):
                    out.append((cls or 'strand-merge-mismatch', '%s: offset %r / overlap %r do not attain the score on the reported strand' % (tag, float(m[2]), float(m[3]))))
    if N is not None:
        out.extend(_check_nearest(N, M if rc else S, min(case['n_nearest'], n_t), len(Qs), n_t))
    return out, stats


def _check_nearest(N, F, k, n_q, n_t):
    """n_nearest=k: every reported (query, idx) row carries the values of that pair, i.e. of the cell
    of the full matrix F (which is compared with the reference cell by cell).  Which k targets are
    selected and their order is not asserted here."""
    if N.shape != (6, n_q, k):
        return [('nearest-row-mismatch', 'n_nearest=%d: result shape %s for %d queries' % (k, N.shape, n_q))]
    out = []
    for iq in range(n_q):
        idx = N[5, iq]
        if not (numpy.all(idx == numpy.floor(idx)) and idx.min() >= 0 and idx.max() < n_t and len(set(idx.tolist())) == k):
            out.append(('nearest-row-mismatch', 'query %d, n_nearest=%d of %d: target indices %s' % (iq, k, n_t, idx.tolist())))
            continue
        for r in range(k):
            a, b = N[:5, iq, r], F[:, iq, int(idx[r])]
            if not (numpy.array_equal(a[1:], b[1:]) and abs(float(a[0]) - float(b[0])) <= P_ATOL + P_RTOL * float(b[0])):
                out.append(('nearest-row-mismatch', 'query %d, n_nearest=%d: row %d (target %d) is %s, the pair gives %s'
                            % (iq, k, r, int(idx[r]), a.tolist(), b.tolist())))
    return out


def check_rcmeta(case):
    """tomtom(Q, T, rc=True) vs tomtom(Q, [rc(t) for t in T], rc=True): only the strand flips.
    Asserted only for cells where the two strands score differently (no tie) and where the
    integerised matrices of the two calls agree (the pooled column multiset is the same; float
    summation order inside the binned median may differ)."""
    return ['[%s] %s' % kv for kv in _check_rcmeta(case)[0]]


def _check_rcmeta(case):
    Qs, Ts = mats(case['Q']), mats(case['T'])
    Tr = [_rc(T) for T in Ts]
    c = dict(case, rc=True)
    c.pop('n_nearest', None)
    c.pop('n_cache_mode', None)
    nb, nmb = case['n_score_bins'], case.get('n_median_bins', 1000)
    pl, plr = pooled(Ts, True, case.get('n_target_bins')), pooled(Tr, True, case.get('n_target_bins'))
    if pl is None or plr is None or degenerate(Qs, pl[1]):
        return [], {'skipped': True}
    try:
        A, B = _call(Qs, Ts, c), _call(Qs, Tr, c)
    except ZeroDivisionError:
        return [], {'skipped': True}
    out, n_t, checked = [], len(Ts), 0
    starts = numpy.concatenate([[0], numpy.cumsum([T.shape[1] for T in pl[0]])])
    for iq in range(len(Qs)):
        nq = Qs[iq].shape[1]
        xa, offa, _, _, _ = kernel(Qs, iq, pl[1], pl[2], nb, nmb)
        xb, offb, _, _, _ = kernel(Qs, iq, plr[1], plr[2], nb, nmb)
        fa, fb = xa[pl[3]], xb[plr[3]]
        half = fa.shape[0] // 2
        if offa != offb or not numpy.array_equal(fa, numpy.concatenate([fb[half:], fb[:half]])):
            continue                                   # rounding of the binned median differs: nothing asserted
        g = xa - offa
        wide = nb > 127 and (g.min() < -128 or g.max() > 127)
        for it in range(n_t):
            a, b = [float(v) for v in A[:, iq, it]], [float(v) for v in B[:, iq, it]]
            al = [align_scores(fa[starts[s]:starts[s + 1]], nq, offa) for s in (it, it + n_t)]
            best = [max(v[0] for v in d.values()) for d in al]
            cls = 'int8-similarity-overflow' if wide else 'best-score-0' if min(best) == 0 else None
            checked += 1
            tag = 'query %d target %d' % (iq, it)
            if a[1] != b[1] or not abs(a[0] - b[0]) <= P_ATOL + P_RTOL * abs(a[0]):
                out.append((cls or 'rc-target-changes-result', '%s: (p, score) %r vs %r after reverse-complementing the targets' % (tag, a[:2], b[:2])))
                continue
            if best[0] == best[1]:
                continue                               # equal strands: either may be reported
            if a[4] + b[4] != 1 or a[3] != b[3]:
                out.append((cls or 'rc-target-changes-result', '%s: strands %r / %r, overlaps %r / %r' % (tag, a[4], b[4], a[3], b[3])))
            elif a[4] in (0.0, 1.0) and sum(1 for v in al[int(a[4])].values() if v[0] == max(best)) == 1 and a[2] != b[2]:
                out.append((cls or 'rc-target-changes-result', '%s: offsets %r vs %r' % (tag, a[2], b[2])))
    return out, {'checked': checked}


# ----------------------------------------------------------------------------- driver
def _warm(rep=None):
    """numba compiles tomtom._tomtom once per signature (hashing on / off) and the kernel once:
    ~60 s per process that is not driver work; excluded from the budget."""
    import time
    t = time.time()
    Q = mats(['ACG', 'A'])
    T = mats(['ACGT', 'CA', 'TTG'])
    tomtom(Q, T, n_jobs=1, n_target_bins=None)
    tomtom(Q, T, n_jobs=1, n_target_bins=100)
    pl = pooled(T, True, None)
    kernel(Q, 0, pl[1], pl[2], 20)
    dt = time.time() - t
    if rep is not None and dt > 2:
        rep.budget_s += dt
        rep.note('numba compilation of the tomtom kernels took %.0f s (excluded from the work budget)' % dt)


def _record(rep, case, res, section, key, nontrivial=True):
    viol, stats = res
    rep.case(key, nontrivial=nontrivial and not stats.get('skipped'), section=section,
             sample={k: case[k] for k in case if k not in ('Q', 'T')} | {'Q': str(case['Q'])[:120], 'T': str(case['T'])[:120]})
    # at most two violations per finding key and case are stored (every cell is still evaluated)
    seen = {}
    for k, m in viol:
        seen.setdefault(k, []).append(m)
    for k, ms in seen.items():
        for m in ms[:2]:
            rep.violation(m + (' (+%d more cells of this case)' % (len(ms) - 2) if len(ms) > 2 and m is ms[1] else ''), case, finding=k)
    return stats


ONEHOT_TARGETS = [
    ['C', 'A', 'G', 'T', 'CC'],
    ['CCC', 'AG', 'TTTT'],
    ['ACGT', 'AAAA', 'CG'],
    ['AC', 'CA', 'GGT', 'TTAAC'],
    ['A', 'C'],
    ['AAAC', 'AAAA', 'AACA'],
    ['ACGTACGT', 'TTTTTTTT', 'GATTACA'],
    ['G', 'GG', 'GGG', 'T'],
    ['ACG', 'CGT', 'GTA', 'TAC'],
    ['AT', 'TA', 'ATAT'],
    ['CCCCCCCCCCCC', 'A'],
    ['ACGTTGCA', 'TGCAACGT'],
]


def _onehot_queries(maxlen):
    import itertools
    for l in range(1, maxlen + 1):
        for t in itertools.product(ALPH, repeat=l):
            yield ''.join(t)


def _random_case(rng, thorough):
    grid = rng.choice([0, 0, 0, 1, 2, 4, 10, 20])
    nqs = rng.randint(1, 6 if thorough else 4)
    nts = rng.randint(1, 8 if thorough else 5)
    style = rng.choice(['short', 'mixed', 'mixed', 'long', 'qlong', 'tlong', 'equal'])
    if style in ('short', 'mixed') and rng.random() < 0.1:
        nqs = rng.randint(6, 12 if thorough else 10)       # long call histories on the per-thread scratch arrays
    if style in ('short', 'mixed', 'long'):
        hi = {'short': 6, 'mixed': 14, 'long': 25}[style]
        qlens = [rng.randint(1, hi) for _ in range(nqs)]
        tlens = [rng.randint(1, hi) for _ in range(nts)]
        if rng.random() < 0.3:
            tlens[0] = qlens[0]
        if rng.random() < 0.25:
            qlens[0] = 1
        if style == 'long':
            qlens[-1] = rng.randint(20, 25)
            tlens[-1] = rng.choice([rng.randint(1, 5), 25, rng.randint(20, 25)])
    elif style == 'qlong':
        # the longest target is at least 2 columns shorter than the last query (and than most of the others)
        tmax = rng.randint(1, 12)
        tlens = [rng.randint(1, tmax) for _ in range(nts)]
        tlens[rng.randrange(nts)] = tmax
        qlens = [rng.randint(tmax + 2, min(25, tmax + 12)) if rng.random() < 0.8 else rng.randint(1, tmax + 1) for _ in range(nqs)]
        qlens[-1] = rng.choice([tmax + 2, tmax + 3, rng.randint(tmax + 2, 25), 25])
    elif style == 'tlong':
        # every query is shorter than every target
        qmax = rng.randint(1, 10)
        qlens = [rng.randint(1, qmax) for _ in range(nqs)]
        tlens = [rng.choice([qmax + 1, qmax + 2, rng.randint(qmax + 1, 25), 25]) for _ in range(nts)]
    else:
        L = rng.choice([1, 2, 3, rng.randint(4, 24), 25])
        qlens, tlens = [L] * nqs, [L] * max(nts, 2)
    pool = rng.choice([0, 0, 3, 6]) if grid in (0, 10, 20) else rng.choice([0, 3])
    alpha = rng.choice([0.2, 0.5, 1.0])
    nb = rng.randint(10, 200) if rng.random() < (0.5 if thorough else 0.2) else rng.choice(NBINS)
    hashing = rng.choice([None, None, 100])
    if hashing is not None:
        hashing = rng.choice([2, 100]) if grid == 1 else rng.choice([100, 100, 100, 1000, 37])
    case = {'kind': 'ref',
            'Q': [{'seed': rng.randrange(10 ** 9), 'lens': qlens, 'grid': grid, 'alpha': alpha, 'pool': pool}],
            'T': [{'seed': rng.randrange(10 ** 9), 'lens': tlens, 'grid': grid, 'alpha': alpha, 'pool': pool}],
            'n_score_bins': nb, 'rc': rng.random() < 0.5,
            'n_target_bins': hashing}
    if rng.random() < 0.25:
        case['T'] = case['Q'] + case['T']
        case['self'] = True
    # rarely used arguments / input types; the reference is the same for all of them
    r = rng.random()
    if r < 0.15:
        case['n_cache_mode'] = 'tight'
    elif r < 0.25:
        case['n_cache_mode'] = 'wide'
    if rng.random() < 0.2:
        case['n_median_bins'] = rng.choice([50, 200, 999, 5000])
    if rng.random() < 0.15:
        case['tensor'] = rng.choice(['Q', 'T', 'QT'])
    if rng.random() < 0.15:
        case['n_nearest'] = rng.randint(1, len(tlens))
    if nqs >= 2 and rng.random() < 0.06:
        case['n_jobs'] = 2
    return case


def _shape_case(rng, t_max, L, rc, k):
    """queries of every length 1..L (shuffled) in one call against targets of lengths 1..t_max
    (+ one more of length t_max, shuffled): all (nq, nt) with this longest target"""
    qlens = list(range(1, L + 1))
    tlens = list(range(1, t_max + 1)) + [t_max]
    rng.shuffle(qlens)
    rng.shuffle(tlens)
    grid = (0, 4, 20, 0, 2, 10)[k % 6]
    case = {'kind': 'ref',
            'Q': [{'seed': rng.randrange(10 ** 9), 'lens': qlens, 'grid': grid, 'alpha': 0.5, 'pool': 0}],
            'T': [{'seed': rng.randrange(10 ** 9), 'lens': tlens, 'grid': grid, 'alpha': 0.5, 'pool': 0}],
            'n_score_bins': (100, 200, 25, 127, 50, 150)[(k // 2) % 6], 'rc': rc, 'n_target_bins': None}
    if k % 3 == 1:
        case['n_cache_mode'] = 'tight'
    return case


def run(rep):
    thorough = rep.tier == 'thorough'
    rng = rep.rng
    _warm(rep)
    # --- one-hot (coarsest grid) queries against fixed target sets: the smallest inputs first
    tsets = ONEHOT_TARGETS if thorough else ONEHOT_TARGETS[:6]
    qs = list(_onehot_queries(3))
    if not thorough:
        qs = [q for q in qs if len(q) == 1] + rng.sample([q for q in qs if len(q) == 2], 6) + rng.sample([q for q in qs if len(q) == 3], 6)
    n_onehot, complete = 0, True
    for ti, ts in enumerate(tsets):
        for rc in (False, True):
            # queries are co-processed in groups of 4 (every cell is checked individually)
            for g in range(0, len(qs), 4):
                if rep.left() < rep.budget_s * 0.5:
                    complete = False
                    break
                nb = 100 if g % 8 == 0 else rng.choice([20, 127, 200])
                case = {'kind': 'ref', 'Q': qs[g:g + 4], 'T': ts, 'n_score_bins': nb, 'rc': rc, 'n_target_bins': None}
                _record(rep, case, _check_ref(case), 'onehot', ('oh', ti, rc, g, nb))
                n_onehot += 1
    if thorough and complete:
        rep.mark_exhaustive('all one-hot queries of length 1-3 against the 12 fixed one-hot target sets, rc on/off')
    # --- shape grid: every (query length, target length, longest target)
    L, TM = (12, 14) if thorough else (8, 9)
    k, complete = 0, True
    for rep_i in range(2 if thorough else 1):
        for t_max in range(1, TM + 1):
            for rc in (False, True):
                if rep.left() < rep.budget_s * 0.4:
                    complete = False
                    break
                case = _shape_case(rng, t_max, L, rc, k)
                _record(rep, case, _check_ref(case), 'shape-grid', ('shape', rep_i, t_max, rc))
                k += 1
    if not complete:
        rep.note('shape grid cut short by the time budget after %d calls' % k)
    # --- seeded random sets
    k, maxerr, classes, skipped = 0, 0.0, set(), 0
    limit = 10 ** 9 if thorough else 1300
    while k < limit and rep.left() > (20 if thorough else 8):
        case = _random_case(rng, thorough)
        st = _record(rep, case, _check_ref(case), 'self' if case.get('self') else 'random', ('rnd', k))
        maxerr = max(maxerr, st.get('max_p_err', 0.0))
        classes |= st.get('classes', set())
        skipped += bool(st.get('skipped'))
        if k % 3 == 0:
            c2 = dict(case, kind='rcmeta')
            c2.pop('self', None)
            _record(rep, c2, _check_rcmeta(c2), 'rc-metamorphic', ('rcm', k))
        k += 1
    rep.note('random sets evaluated: %d (%d skipped: degenerate or hashing not injective); largest |p - p_ref| among agreeing '
             'cells outside the three defect classes: %.3g; input classes met: %s' % (k, skipped, maxerr, sorted(classes)))
    rep.note('not exercised: n_score_bins > n_cache with the default n_cache=100 (tomtom prints "Offset is larger than n_cache" '
             'and then writes past the scratch rows; observed to abort the process with heap corruption), so n_cache is raised '
             'to n_score_bins whenever n_score_bins > 100 (or set from the observed offsets: n_cache_mode tight / wide)')


def replay(case):
    _warm()
    k = case.get('kind')
    if k == 'ref':
        return check_ref(case)
    if k == 'rcmeta':
        return check_rcmeta(case)
    return ['unknown replay kind']
