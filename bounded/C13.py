"""Bounded stand-in for C13 (TOMTOM results independent of threads, co-processed queries, order).

Never counted as proved.  All comparisons are bit-wise (the float64 result tensors are compared as
raw bytes, so NaNs and signed zeros count).

 (B) batch / schedule independence: the row of a query computed ALONE with one thread is the
     baseline; the same query must get the same row in every other call: whole list with 1..16
     threads (n_jobs=k, or numba.set_num_threads(k) + n_jobs=-1), parallel chunk sizes, subsets,
     permutations, duplications of a mixed-length query list.  With one thread the queries of a call
     share one scratch slot, so permutations enumerate the "after a longer / shorter query" histories.
     Also: numba.get_num_threads() is the same before and after the call.
 (H) history: each query alone vs right after a longer / shorter query, after itself, sandwiched
     (one thread, so the scratch slot is certainly shared).
 (N) n_nearest = k: p-values ascending and equal to the k smallest of the full row (as a multiset:
     which of several targets with equal p-values is listed is not prescribed), indices distinct and
     in range, all five fields equal to the full row at the listed index.
 (A) annotate.annotate_seqlets: rows independent of the subset / order / duplication of seqlets and
     of n_jobs; idxs / p-values are those of tomtom's n_nearest on the extracted windows.

Extensions (audit round):
 - (B) also with an AMBIENT thread mask different from the default while n_jobs=k is passed
   (numba.set_num_threads(m); tomtom(n_jobs=k); the mask must be m again afterwards - in the worker
   the default mask equals NUMBA_NUM_THREADS, so "restore to the maximum" was indistinguishable from
   "restore to the saved value"); long lists (24-64 entries: the configuration's queries and three
   unrelated ones, with repeats) under 2..16 threads and chunk sizes 0/1/2/5/7, so that every thread
   really handles several queries concurrently with the others; 24 DIFFERENT queries of one length
   (equal cost: the threads reach the same statement at the same moment, which is when state that is
   shared between threads by mistake shows; found with a shared argsort buffer); queries / targets given as
   non-contiguous torch views (the form annotate_seqlets passes) next to numpy arrays; n_median_bins
   and n_cache off their defaults (n_cache down to its lower limit n_score_bins); odd n_score_bins;
   target sets of size 1, 2, with exact duplicates, and of 20-40 targets.
 - (H) also right after a DIFFERENT query of the same length, after its own prefix (one column
   shorter), after its extension (one column longer), after its reverse complement.
 - (N) the reference row is the query ALONE with one thread (not the full matrix of the same call),
   and n_nearest is also requested for permuted / duplicated / long lists under many threads.
 - every result row is also checked for its field domains (p in [0, 1], score / offset / overlap /
   strand integer-valued, score >= 0, 0 <= overlap <= min(len query, len target), -len query < offset
   < len target, strand in {0, 1} and 0 without reverse complement): a field that is not a function of
   (query, targets) - e.g. never written scratch - usually leaves these domains even when two calls
   happen to see the same garbage.
 - an exception in a call whose queries all succeed alone is a violation (the result of a query then
   depends on the co-processed ones); before, a ZeroDivisionError anywhere ended the case silently.
 - (A) also with annotate_seqlets' own defaults (no keyword at all: n_nearest=1, n_jobs=-1, hashing),
   seqlet tables with additional columns (float / string) and a non-default row index.

Not covered: float32 / integer X or PWMs (another numba specialisation of the same kernel), motifs
given as a MEME file name, unnormalised PWMs (offset > n_cache writes outside the scratch), an
exception raised by tomtom itself (the thread mask is then not restored - outside the statement).

Inputs where a query column is equidistant from every pooled target column are skipped (tomtom
raises ZeroDivisionError there: no result to compare).
"""
import itertools
import json

import numba
import numpy
import pandas
import torch

from tangermeme.annotate import annotate_seqlets
from tangermeme.tools.tomtom import tomtom

SCOPE = {
    'quick': '10 seeded configurations (3-6 queries of length 1-14, always one of length 1 and one of length 10-25; 3-6 targets '
             'of length 1-14; PWM columns one-hot, on grids 1/2, 1/4, 1/10 or continuous; n_score_bins in {20,50,100}, every other '
             'configuration n_score_bins in {7,33,64,99,100} with n_median_bins in {2,50,317,2000} and n_cache in {n_score_bins,137,250}; '
             'rc on/off; hashing off / 100 bins) + 5 fixed one-hot configurations (among them 1 target, 2 targets, exact duplicate '
             'targets) + 2 configurations with 23-43 targets (reduced families); per configuration: every query alone vs after a '
             'length-19 / 6 / 1 query, twice, sandwiched, after a different query of its length, after its prefix / extension / reverse '
             'complement (1 thread); whole list with every thread count 1..16 (n_jobs=k; thread mask k in {1,2,7,16} with n_jobs=-1; '
             'ambient mask m with n_jobs=k for (m,k) in (5,3),(2,7),(3,3),(16,1),(1,16), mask restored to m); chunk sizes 1-3; 4 lists '
             'of 24-64 entries (queries of the configuration + 3 unrelated ones, repeats) under 16/2/4/3 threads, chunk sizes 0/1/2/5/7, '
             'numpy or non-contiguous torch inputs, 2 of them also with n_nearest; 24 different queries of one length (1, 2 or 5) under '
             '16 and 4 threads, full and n_nearest; 8 permutations, 8 subsets, 8 duplications; for the configurations with <= 4 queries '
             'every ordered sub-list (all permutations of all subsets) with 1 thread; n_nearest = 1..n_targets (8 values for > 8 targets) '
             'against the row of the query alone, 2 duplicated / re-ordered lists with n_nearest; field domains of every row; '
             '4 annotate_seqlets configurations (8 one-hot seqlets of length 1-15, 5 motifs) x 12 sub-lists / orders / duplications, '
             'n_nearest 1-5, n_jobs in {1,2,4,16}, tables with extra float / string columns and a non-default index; 2 of them x 4 '
             'calls with no keyword at all',
    'thorough': 'same families, configurations until the time budget (about a hundred), up to 8 queries, both thread-count '
                'mechanisms for every k in 1..16, every ordered sub-list for <= 5 queries, 20 permutations / subsets / '
                'duplications each, 6 long lists and 4 equal-length rounds per configuration, n_nearest at thread counts 1, 3, 16, '
                '4 configurations with 23-43 targets, 24 annotate_seqlets sub-lists per configuration',
}

ALPH = 'ACGT'
MAX_THREADS = min(16, numba.config.NUMBA_NUM_THREADS)


# ----------------------------------------------------------------------------- inputs
def gen_pwms(spec):
    """spec = {'seed', 'lens', 'grid', 'alpha'[, 'pool']}: deterministic list of (4, len) float64 PWMs;
    grid 0 = continuous Dirichlet(alpha), grid G: multinomial(G, .)/G; pool p: columns drawn from p columns"""
    rs = numpy.random.RandomState(spec['seed'])
    G, alpha, pool = spec['grid'], spec.get('alpha', 0.5), spec.get('pool', 0)

    def col():
        w = rs.dirichlet(numpy.ones(4) * alpha)
        if G == 0:
            return w
        return rs.multinomial(G, w / w.sum()).astype('float64') / G
    cols = [col() for _ in range(pool)] if pool else None
    out = []
    for l in spec['lens']:
        if cols is None:
            out.append(numpy.stack([col() for _ in range(l)], axis=1))
        else:
            out.append(numpy.stack([cols[rs.randint(len(cols))] for _ in range(l)], axis=1))
    return out


def mats(desc):
    """desc: list whose items are a string (one-hot), a nested 4 x len list, or a gen_pwms spec"""
    out = []
    for d in desc:
        if isinstance(d, str):
            a = numpy.zeros((4, len(d)), dtype='float64')
            for i, c in enumerate(d):
                a[ALPH.index(c), i] = 1.0
            out.append(a)
        elif isinstance(d, dict):
            out.extend(gen_pwms(d))
        else:
            out.append(numpy.array(d, dtype='float64'))
    return out


def degenerate(Qs, Ts, rc):
    Ts2 = Ts + [T[::-1, ::-1] for T in Ts] if rc else Ts
    U = numpy.concatenate(Ts2, axis=-1)
    for Q in Qs:
        for i in range(Q.shape[1]):
            d = numpy.sqrt(((U - Q[:, i:i + 1]) ** 2).sum(axis=0))
            if d.max() - d.min() < 1e-6:
                return True
    return False


def _params(case):
    p = dict(n_score_bins=case.get('n_score_bins', 100), n_target_bins=case.get('n_target_bins'),
             reverse_complement=case.get('rc', True))
    for k in ('n_median_bins', 'n_cache'):
        if case.get(k) is not None:
            p[k] = case[k]
    return p


def _as_form(Ms, form):
    """'torch': every matrix as a non-contiguous float64 torch view into a wider tensor (what
    annotate_seqlets passes: X[e, :, s:t]); otherwise the numpy arrays themselves"""
    if form != 'torch':
        return Ms
    out = []
    for M in Ms:
        big = torch.full((4, M.shape[1] + 3), 0.25, dtype=torch.float64)
        big[:, 2:2 + M.shape[1]] = torch.from_numpy(numpy.ascontiguousarray(M))
        out.append(big[:, 2:2 + M.shape[1]])
    return out


def _run(Qs, Ts, params, sched, n_nearest=None):
    """one real call under a schedule {'n_jobs': k} | {'mask': m} | {'mask': m, 'n_jobs': k} [+ 'chunk': c]
    [+ 'form': 'torch']: 'mask' = ambient numba.set_num_threads(m) (n_jobs=-1 unless given); returns
    (ndarray (fields, n_queries, n_targets), violations about the thread-count restore)"""
    out = []
    before = numba.get_num_threads()
    chunk0 = numba.get_parallel_chunksize()
    Qs, Ts = _as_form(Qs, sched.get('form')), _as_form(Ts, sched.get('form'))
    try:
        if sched.get('chunk'):
            numba.set_parallel_chunksize(sched['chunk'])
        if 'mask' in sched:
            numba.set_num_threads(sched['mask'])
        n_jobs = sched.get('n_jobs', -1 if 'mask' in sched else 1)
        inside = numba.get_num_threads()
        R = tomtom(Qs, Ts, n_nearest=n_nearest, n_jobs=n_jobs, **params)
        after = numba.get_num_threads()
        if after != inside:
            out.append('[num-threads-not-restored] numba.get_num_threads() was %d before tomtom(n_jobs=%r) and %d after'
                       % (inside, n_jobs, after))
    finally:
        numba.set_num_threads(before)
        numba.set_parallel_chunksize(chunk0)
    return numpy.ascontiguousarray(R.numpy()), out


def _same(a, b):
    return a.shape == b.shape and a.dtype == b.dtype and a.tobytes() == b.tobytes()


_ALONE = {}


def _alone(case, Qs, Ts, iq):
    """baseline: query iq alone, one thread (memoised per configuration within a process)"""
    key = (json.dumps([case['Q'], case['T'], _params(case)], sort_keys=True), iq)
    if key not in _ALONE:
        if len(_ALONE) > 400:
            _ALONE.clear()
        _ALONE[key] = _run([Qs[iq]], Ts, _params(case), {'n_jobs': 1})[0][:, 0]
    return _ALONE[key]


def _zero_targets(case, Qs, Ts, iq):
    """classification only: targets against which query iq has a best alignment score of 0 on some
    strand (single-strand scores are read from a call that lists both strands as explicit targets)"""
    key = (json.dumps([case['Q'], case['T'], _params(case)], sort_keys=True), iq, 'zero')
    if key not in _ALONE:
        rc = case.get('rc', True)
        both = Ts + [numpy.ascontiguousarray(T[::-1, ::-1]) for T in Ts] if rc else Ts   # same pooled columns as the case
        R = _run([Qs[iq]], both, dict(_params(case), reverse_complement=False), {'n_jobs': 1})[0]
        sc = R[1, 0]
        z = (sc[:len(Ts)] == 0) | (sc[len(Ts):] == 0) if rc else sc == 0
        _ALONE[key] = z
    return _ALONE[key]


def _fmt(row, j):
    return '(p=%r score=%r offset=%r overlap=%r strand=%r)' % tuple(float(v) for v in row[:5, j])


def _domain(row, nq, tl, rc):
    """row: (>= 5, m) fields of one query (length nq) against m targets of lengths tl; returns a
    description of the first field outside its domain, or None"""
    row = numpy.asarray(row[:5], dtype='float64')
    tl = numpy.asarray(tl, dtype='float64')
    if not numpy.isfinite(row).all():
        return 'a field is not finite'
    p, sc, off, ov, st = row
    if ((p < -1e-9) | (p > 1 + 1e-9)).any():
        return 'p-value outside [0, 1]'
    for name, v in (('score', sc), ('offset', off), ('overlap', ov), ('strand', st)):
        if (v != numpy.floor(v)).any():
            return '%s not integer-valued' % name
    if (sc < 0).any():
        return 'negative score'
    if ((st != 0) & (st != 1)).any():
        return 'strand not in {0, 1}'
    if not rc and (st != 0).any():
        return 'strand 1 although reverse_complement=False'
    if ((ov < 0) | (ov > numpy.minimum(nq, tl))).any():
        return 'overlap outside 0..min(len(query), len(target))'
    if ((off <= -nq) | (off >= tl)).any():
        return 'offset outside -(len(query)-1)..len(target)-1'
    return None


def _baselines(case, Qs, Ts, idxs):
    """{i: row of query i alone, one thread} or None when tomtom cannot process one of them"""
    try:
        return {i: _alone(case, Qs, Ts, i) for i in sorted(set(idxs))}
    except ZeroDivisionError:
        return None


# ----------------------------------------------------------------------------- (B)
def check_batch(case):
    """case: Q, T, params, 'order' (indices into Q, repeats allowed), 'sched'"""
    Qs, Ts = mats(case['Q']), mats(case['T'])
    if degenerate(Qs, Ts, case.get('rc', True)):
        return []
    order = case['order']
    base = _baselines(case, Qs, Ts, order)
    if base is None:
        return []
    try:
        R, out = _run([Qs[i] for i in order], Ts, _params(case), case['sched'])
    except Exception as e:
        return ['[schedule-dependent-exception] %s (%s) for the list %s under %s although every query of it is '
                'processed alone without error' % (type(e).__name__, e, order, case['sched'])]
    if R.shape != (5, len(order), len(Ts)):
        return out + ['[shape] result shape %s for %d queries x %d targets' % (R.shape, len(order), len(Ts))]
    tl = [T.shape[1] for T in Ts]
    for pos, i in enumerate(order):
        row = R[:, pos]
        d = _domain(row, Qs[i].shape[1], tl, case.get('rc', True))
        if d is not None:
            out.append('[field-out-of-domain] query %d (len %d) at position %d of %s under %s: %s: p=%s score=%s offset=%s '
                       'overlap=%s strand=%s (target lengths %s)' % ((i, Qs[i].shape[1], pos, order, case['sched'], d)
                                                                     + tuple(row[f].tolist() for f in range(5)) + (tl,)))
            continue
        if _same(row, base[i]):
            continue
        cells = [j for j in range(len(Ts)) if not _same(row[:, j], base[i][:, j])]
        zt = _zero_targets(case, Qs, Ts, i)
        zero = all(zt[j] for j in cells)
        j = cells[0]
        out.append('[%s] query %d (len %d) at position %d of %s under %s differs from the same query alone in %d of %d targets; '
                   'target %d: %s vs alone %s' % ('best-score-0' if zero else 'schedule-dependent-result', i, Qs[i].shape[1], pos,
                                                  order, case['sched'], len(cells), len(Ts), j, _fmt(row, j), _fmt(base[i], j)))
    return out


POISON = [{'seed': 77, 'lens': [19], 'grid': 0, 'alpha': 1.0}, {'seed': 78, 'lens': [1], 'grid': 0, 'alpha': 1.0},
          {'seed': 79, 'lens': [6], 'grid': 0, 'alpha': 1.0}]


def _history_lists(q, i):
    """(name, query list, positions of q in it): the single worker thread handles q right after the
    other entries, so its scratch slot still holds their intermediate values"""
    long_, short_, mid_ = mats(POISON)
    L = q.shape[1]
    same = mats([{'seed': 800 + 31 * L + i, 'lens': [L], 'grid': 0, 'alpha': 1.0}])[0]
    lists = [('after a length-19 query', [long_, q], [1]), ('after a length-1 query', [short_, q], [1]),
             ('after a length-6 query', [mid_, q], [1]), ('twice in a row', [q, q], [0, 1]),
             ('around a length-19 query', [q, long_, q], [0, 2]),
             ('after a different query of the same length', [same, q], [1]),
             ('after its own extension by one column', [numpy.concatenate([q, same[:, :1]], axis=1), q], [1]),
             ('after its reverse complement', [numpy.ascontiguousarray(q[::-1, ::-1]), q], [1])]
    if L > 1:
        lists.append(('after its own prefix (one column shorter)', [numpy.ascontiguousarray(q[:, :-1]), q], [1]))
    return lists


def check_history(case):
    """query case['iq'] alone vs the same query processed by the same (single) thread right after a
    longer / shorter / medium unrelated query, after itself, sandwiched, after a different query of
    the same length, after its own prefix / extension / reverse complement"""
    Qs, Ts = mats(case['Q']), mats(case['T'])
    rc = case.get('rc', True)
    if degenerate(Qs, Ts, rc):
        return []
    i = case['iq']
    q = Qs[i]
    out = []
    base = _baselines(case, Qs, Ts, [i])
    if base is None:
        return []
    base = base[i]
    zt = None
    tl = [T.shape[1] for T in Ts]
    for name, lst, pos in _history_lists(q, i):
        if degenerate(lst, Ts, rc):
            continue                     # the companion query cannot be processed at all
        try:
            R, o = _run(lst, Ts, _params(case), {'n_jobs': 1})
        except Exception as e:
            out.append('[schedule-dependent-exception] %s (%s) for query %d (len %d) %s although it is processed '
                       'alone without error' % (type(e).__name__, e, i, q.shape[1], name))
            continue
        out += o
        for ps in pos:
            d = _domain(R[:, ps], q.shape[1], tl, rc)
            if d is not None:
                out.append('[field-out-of-domain] query %d (len %d) %s (position %d, one thread): %s: %s'
                           % (i, q.shape[1], name, ps, d, R[:5, ps].tolist()))
            elif not _same(R[:, ps], base):
                cells = [j for j in range(len(Ts)) if not _same(R[:, ps, j], base[:, j])]
                zt = _zero_targets(case, Qs, Ts, i) if zt is None else zt
                j = cells[0]
                out.append('[%s] query %d (len %d) %s (position %d, one thread) differs from the same query alone in %d of %d '
                           'targets; target %d: %s vs alone %s' % ('best-score-0' if all(zt[c] for c in cells) else 'schedule-dependent-result',
                                                                  i, q.shape[1], name, ps, len(cells), len(Ts), j, _fmt(R[:, ps], j), _fmt(base, j)))
    return out


# ----------------------------------------------------------------------------- (N)
def check_nearest(case):
    """case: Q, T, params, n_nearest, sched[, order]: every row of the n_nearest call against the row
    of the same query ALONE with one thread and n_nearest=None"""
    Qs, Ts = mats(case['Q']), mats(case['T'])
    if degenerate(Qs, Ts, case.get('rc', True)):
        return []
    k, nt = case['n_nearest'], len(Ts)
    order = case.get('order')
    order = list(range(len(Qs))) if order is None else order
    base = _baselines(case, Qs, Ts, order)
    if base is None:
        return []
    try:
        N, out = _run([Qs[i] for i in order], Ts, _params(case), case['sched'], n_nearest=k)
    except Exception as e:
        return ['[schedule-dependent-exception] %s (%s) for the list %s with n_nearest=%d under %s although every '
                'query of it is processed alone without error' % (type(e).__name__, e, order, k, case['sched'])]
    if N.shape != (6, len(order), k):
        return out + ['[n-nearest-mismatch] result shape %s for n_nearest=%d, %d queries' % (N.shape, k, len(order))]
    tl = numpy.array([T.shape[1] for T in Ts])
    for pos, iq in enumerate(order):
        full, nn = base[iq], N[:, pos]
        key = 'best-score-0' if _zero_targets(case, Qs, Ts, iq).any() else 'n-nearest-mismatch'
        tag = 'query %d (len %d) at position %d of %s under %s, n_nearest=%d of %d' % (iq, Qs[iq].shape[1], pos, order, case['sched'], k, nt)
        idx = nn[5]
        if not numpy.isfinite(idx).all() or not all(v == int(v) and 0 <= v < nt for v in idx) or len(set(idx.tolist())) != k:
            out.append('[%s] %s: indices %s are not distinct target indices' % (key, tag, idx.tolist()))
            continue
        idx = idx.astype('int64')
        d = _domain(nn, Qs[iq].shape[1], tl[idx], case.get('rc', True))
        if d is not None:
            out.append('[field-out-of-domain] %s: %s: %s' % (tag, d, nn[:5].tolist()))
            continue
        if not all(nn[0, a] <= nn[0, a + 1] for a in range(k - 1)):
            out.append('[%s] %s: p-values not ascending: %s' % (key, tag, nn[0].tolist()))
        if not _same(numpy.sort(full[0])[:k], numpy.sort(nn[0])):
            out.append('[%s] %s: p-values %s are not the %d smallest of the row of the query alone %s' % (key, tag, nn[0].tolist(), k, full[0].tolist()))
        if not _same(numpy.ascontiguousarray(full[:, idx]), numpy.ascontiguousarray(nn[:5])):
            out.append('[%s] %s: fields differ from the row of the query alone at the listed indices %s' % (key, tag, idx.tolist()))
    return out


# ----------------------------------------------------------------------------- (A)
def _annot_inputs(case):
    rs = numpy.random.RandomState(case['xseed'])
    n_ex, L = case['n_examples'], case['length']
    X = torch.zeros(n_ex, 4, L, dtype=torch.float64)
    ids = rs.randint(0, 4, size=(n_ex, L))
    for e in range(n_ex):
        X[e, ids[e], numpy.arange(L)] = 1.0
    motifs = {'m%d' % i: torch.from_numpy(m) for i, m in enumerate(mats(case['T']))}
    return X, motifs


def _seqlet_table(rows, case):
    """the seqlet DataFrame; 'extra_cols': further columns after the three used ones ('float': one float column, else float + string);
    'reindex': a descending, non-contiguous row index as left behind by filtering / sorting"""
    df = pandas.DataFrame([list(r) for r in rows], columns=['example_idx', 'start', 'end'])
    if case.get('extra_cols'):
        df['attribution'] = [0.5 + r[1] / 7.0 for r in rows]
        if case['extra_cols'] != 'float':
            df['name'] = ['s%d' % r[2] for r in rows]
    if case.get('reindex'):
        df.index = [3 * j + 5 for j in range(len(rows))][::-1]
    return df


def check_annotate(case):
    """case: xseed, n_examples, length, seqlets [[ex, start, end]...], T (motifs), order, n_nearest, n_jobs, rc
    [, defaults: call annotate_seqlets(X, seqlets, motifs) without any keyword][, extra_cols][, reindex]"""
    X, motifs = _annot_inputs(case)
    seq = case['seqlets']
    defaults = bool(case.get('defaults'))
    kw = {} if defaults else dict(_params(case))
    Qs = [X[e, :, s:t].numpy() for e, s, t in seq]
    Ts = [m.numpy() for m in motifs.values()]
    if degenerate(Qs, Ts, case.get('rc', True)):
        return []
    nt, order = len(Ts), case['order']
    before = numba.get_num_threads()
    out = []
    try:
        try:
            base = {}
            for i in sorted(set(order)):
                d1 = pandas.DataFrame([seq[i]], columns=['example_idx', 'start', 'end'])
                if defaults:
                    base[i] = annotate_seqlets(X, d1, motifs, n_jobs=1)
                else:
                    base[i] = annotate_seqlets(X, d1, motifs, n_nearest=case['n_nearest'], n_jobs=1, **kw)
            F = {i: numpy.ascontiguousarray(tomtom([Qs[i]], Ts, n_jobs=1, **kw).numpy())[:, 0] for i in sorted(set(order))}
        except ZeroDivisionError:
            return []
        k = int(base[order[0]][0].shape[1]) if defaults else case['n_nearest']
        df = _seqlet_table([seq[i] for i in order], case)
        try:
            if defaults:
                idxs, pvals = annotate_seqlets(X, df, motifs)
            else:
                idxs, pvals = annotate_seqlets(X, df, motifs, n_nearest=k, n_jobs=case['n_jobs'], **kw)
        except Exception as e:
            return ['[schedule-dependent-exception] %s (%s) for the seqlets %s (table with columns %s, index %s) although each of '
                    'them is annotated alone without error' % (type(e).__name__, e, order, list(df.columns), list(df.index))]
        if numba.get_num_threads() != before:
            out.append('[num-threads-not-restored] numba.get_num_threads() changed across annotate_seqlets')
    finally:
        numba.set_num_threads(before)
    nj = 'default' if defaults else case['n_jobs']
    if tuple(idxs.shape) != (len(order), k) or tuple(pvals.shape) != (len(order), k) or idxs.dtype != torch.int32:
        return out + ['[annotate-shape] idxs %s %s / p-values %s for %d seqlets, n_nearest=%d'
                      % (tuple(idxs.shape), idxs.dtype, tuple(pvals.shape), len(order), k)]
    for pos, i in enumerate(order):
        bi, bp = base[i]
        zero = bool(_zero_targets(dict(case, Q=[q.tolist() for q in Qs]), Qs, Ts, i).any())
        tag = 'seqlet %d %s at position %d of %s (n_jobs=%s)' % (i, seq[i], pos, order, nj)
        if not (_same(idxs[pos].numpy(), bi[0].numpy()) and _same(pvals[pos].numpy(), bp[0].numpy())):
            out.append('[%s] %s: (idxs, p) %s %s differ from the seqlet annotated alone %s %s'
                       % ('best-score-0' if zero else 'schedule-dependent-result', tag, idxs[pos].tolist(), pvals[pos].tolist(),
                          bi[0].tolist(), bp[0].tolist()))
            continue
        full = F[i]
        id_ = idxs[pos].numpy().astype('int64')
        ok = len(set(id_.tolist())) == k and all(0 <= v < nt for v in id_) \
            and _same(numpy.sort(full[0])[:k], pvals[pos].numpy()) and _same(numpy.ascontiguousarray(full[0, id_]), pvals[pos].numpy())
        if not ok:
            out.append('[%s] %s: idxs %s / p-values %s are not the %d smallest p-values of tomtom\'s full row %s'
                       % ('best-score-0' if zero else 'annotate-vs-tomtom', tag, id_.tolist(), pvals[pos].tolist(), k, full[0].tolist()))
    return out


# ----------------------------------------------------------------------------- driver
def _warm(rep=None):
    """numba compiles tomtom._tomtom once per signature (hashing on / off): not driver work"""
    import time
    t = time.time()
    Q, T = mats(['ACG', 'A']), mats(['ACGT', 'CA', 'TTG'])
    tomtom(Q, T, n_jobs=1, n_target_bins=None)
    tomtom(Q, T, n_jobs=1, n_target_bins=100)
    dt = time.time() - t
    if rep is not None and dt > 2:
        rep.budget_s += dt
        rep.note('numba compilation of the tomtom kernels took %.0f s (excluded from the work budget)' % dt)


def _emit(rep, case, viols, section, key, sample=False):
    rep.case(key, nontrivial=True, section=section, sample=case if sample else None)
    for v in viols[:3]:
        finding, _, msg = v.partition('] ')
        rep.violation(msg, case, finding=finding.lstrip('['))


def _config(rng, thorough, idx):
    grid = [1, 0, 2, 0, 4, 10, 1, 0][idx % 8]
    nq = rng.randint(4, 8 if thorough else 6) if idx % 3 else rng.randint(3, 5 if thorough else 4)
    nt = rng.randint(3, 6)
    qlens = [rng.randint(1, 14) for _ in range(nq)]
    qlens[rng.randrange(nq)] = 1
    qlens[rng.randrange(nq)] = rng.randint(10, 25)
    tlens = [rng.randint(1, 14) for _ in range(nt)]
    pool = rng.choice([0, 3]) if grid != 1 else rng.choice([0, 2, 3])
    alpha = rng.choice([0.2, 0.5, 1.0])
    cfg = {'Q': [{'seed': rng.randrange(10 ** 9), 'lens': qlens, 'grid': grid, 'alpha': alpha, 'pool': pool}],
           'T': [{'seed': rng.randrange(10 ** 9), 'lens': tlens, 'grid': grid, 'alpha': alpha, 'pool': pool}],
           'n_score_bins': rng.choice([20, 50, 100]), 'rc': rng.random() < 0.5, 'n_target_bins': rng.choice([None, None, 100])}
    # every other configuration leaves the defaults of the remaining size parameters: odd n_score_bins, few / many /
    # a prime number of median bins, n_cache above the default or at its lower limit (offset <= n_score_bins for PWM columns)
    if idx % 2 == 0:
        cfg['n_score_bins'] = rng.choice([7, 33, 64, 99, 100])
        cfg['n_median_bins'] = rng.choice([2, 50, 317, 2000])
        cfg['n_cache'] = rng.choice([cfg['n_score_bins'], 137, 250])
    return cfg


def _config_wide(rng, idx):
    """many short targets (with exact duplicates): long p-value rows for the n_nearest selection"""
    nt = rng.randint(20, 40)
    grid = [4, 0, 1][idx % 3]
    tl = [rng.randint(2, 6) for _ in range(nt)]
    return {'Q': [{'seed': rng.randrange(10 ** 9), 'lens': [rng.randint(2, 9), 1, rng.randint(10, 16)], 'grid': grid, 'alpha': 0.5, 'pool': 0}],
            'T': [{'seed': rng.randrange(10 ** 9), 'lens': tl, 'grid': grid, 'alpha': 0.5, 'pool': 0 if grid else 6}, 'ACGT', 'ACGT', 'GGA'],
            'n_score_bins': rng.choice([50, 100]), 'rc': bool(idx % 2), 'n_target_bins': None}


FIXED = [
    {'Q': ['A', 'ACGTACGTAC', 'CC', 'A', 'GATTACA'], 'T': ['C', 'A', 'G', 'T', 'CC'], 'n_score_bins': 100, 'rc': False, 'n_target_bins': None},
    {'Q': ['AA', 'C', 'ACGTTGCATG', 'TT'], 'T': ['CCC', 'AG', 'TTTT', 'ACGTA'], 'n_score_bins': 100, 'rc': True, 'n_target_bins': None},
    # a single target; two targets; exact duplicates among the targets (certain p-value ties), one of them its own reverse complement
    {'Q': ['AC', 'G', 'ACGTACGGT', 'TTG'], 'T': ['ACGTA'], 'n_score_bins': 100, 'rc': False, 'n_target_bins': None},
    {'Q': ['GATTACA', 'T', 'CA'], 'T': ['CAG', 'TTGCA'], 'n_score_bins': 100, 'rc': True, 'n_target_bins': None},
    {'Q': ['ACG', 'T', 'ACGTTGCATGCA', 'GT'], 'T': ['ACGT', 'TTA', 'ACGT', 'TTA', 'ACGT', 'CCGTA'], 'n_score_bins': 100, 'rc': True,
     'n_target_bins': None, 'n_median_bins': 317, 'n_cache': 100},
]


def _batch_section(rep, cfg, ci, rng, thorough, light=False):
    Qs_, Ts_ = mats(cfg['Q']), mats(cfg['T'])
    if degenerate(Qs_, Ts_, cfg['rc']) or degenerate(mats(POISON), Ts_, cfg['rc']):
        return False                     # tomtom raises ZeroDivisionError on such sets: nothing to compare
    nq = len(Qs_)
    nt = len(Ts_)
    allq = list(range(nq))
    n_var = (20 if thorough else 8) if not light else 3
    ext = dict(cfg, Q=list(cfg['Q']) + POISON)          # the queries of the configuration + 3 unrelated ones (indices nq..nq+2)

    def go(order, sched, section, sample=False, base=cfg):
        case = dict(base, kind='batch', order=list(order), sched=sched)
        _emit(rep, case, check_batch(case), section, ('b', ci, tuple(order), json.dumps(sched, sort_keys=True), base is ext, base is lock), sample)

    def near(k, sched, order=None, base=cfg, section='n_nearest', sample=False):
        case = dict(base, kind='nearest', n_nearest=k, sched=sched)
        if order is not None:
            case['order'] = list(order)
        _emit(rep, case, check_nearest(case), section, ('n', ci, k, json.dumps(sched, sort_keys=True), tuple(order or ()), base is ext, base is lock), sample)

    def long_list():
        return [rng.randrange(nq + 3) for _ in range(rng.randint(24, 64))]

    # 24 different queries of one length (1, 2 or 5): their iterations cost the same, so the threads reach the same
    # statement at the same time - the arrangement in which state shared between threads by mistake is most visible
    lock = dict(cfg, Q=[{'seed': rng.randrange(10 ** 9), 'lens': [[1, 2, 5][ci % 3]] * 24, 'grid': 0, 'alpha': 1.0}])
    if degenerate(mats(lock['Q']), Ts_, cfg['rc']):
        lock = None

    for i in allq:
        case = dict(cfg, kind='history', iq=i)
        _emit(rep, case, check_history(case), 'history-1-thread', ('h', ci, i))
    # ambient thread mask m (not the default) while n_jobs=k is passed: the mask must be m again afterwards
    for m, k in ((5, 3), (2, 7), (3, 3), (MAX_THREADS, 1), (1, MAX_THREADS)):
        if max(m, k) <= MAX_THREADS and (m, k) != (MAX_THREADS, MAX_THREADS):
            go(allq, {'mask': m, 'n_jobs': k}, 'threads-ambient-mask', sample=(ci == 0 and m == 5))
    near(min(2, nt), {'mask': min(3, MAX_THREADS), 'n_jobs': 2}, section='threads-ambient-mask')
    for k in (range(1, MAX_THREADS + 1) if not light else (1, 2, 5, MAX_THREADS)):
        go(allq, {'n_jobs': k}, 'threads', sample=(k == 3 and ci < 2))
        if thorough or k in (1, 2, 7, MAX_THREADS):
            go(allq, {'mask': k}, 'threads')
    for c in (1, 2, 3):
        go(allq, {'n_jobs': rng.choice([2, 3, 4]), 'chunk': c}, 'chunksize')
    # long lists: every thread handles several queries while the others are running
    for v in range((6 if thorough else 4) if not light else 2):
        sched = {'n_jobs': [MAX_THREADS, 2, 4, 3, 8, 5][v % 6] if v else MAX_THREADS}
        sched['n_jobs'] = min(sched['n_jobs'], MAX_THREADS)
        c = rng.choice([0, 1, 2, 5, 7])
        if c:
            sched['chunk'] = c
        if v % 2:
            sched['form'] = 'torch'
        go(long_list(), sched, 'long-list', base=ext, sample=(ci == 1 and v == 1))
    near(rng.randint(1, nt), {'n_jobs': MAX_THREADS}, order=long_list(), base=ext, section='n_nearest-long-list')
    near(nt, {'n_jobs': rng.choice([2, 3, 6]), 'chunk': rng.choice([1, 2]), 'form': 'torch'}, order=long_list(), base=ext,
         section='n_nearest-long-list')
    if lock is not None:
        for v in range((4 if thorough else 2) if not light else 1):
            th = [MAX_THREADS, 4, 8, 2][v % 4]
            go(range(24), {'n_jobs': min(th, MAX_THREADS)}, 'lockstep', base=lock)
            near(nt, {'n_jobs': min(th, MAX_THREADS)}, order=range(24), base=lock, section='lockstep')
            near(rng.randint(1, nt), {'n_jobs': MAX_THREADS, 'chunk': 1 + v}, order=range(24), base=lock, section='lockstep')
    go(allq, {'n_jobs': 2, 'form': 'torch'}, 'torch-views')
    go(allq[::-1], {'n_jobs': 1, 'form': 'torch'}, 'torch-views')
    if nq <= (5 if thorough else 4) and not light:
        for m in range(1, nq + 1):
            for sub in itertools.permutations(allq, m):
                go(sub, {'n_jobs': 1}, 'ordered-sublists-1-thread')
        rep.mark_exhaustive('configuration %d: every ordered sub-list of its %d queries with one thread' % (ci, nq))
    for _ in range(n_var):
        perm = allq[:]
        rng.shuffle(perm)
        go(perm, {'n_jobs': rng.choice([1, 1, 2, rng.randint(1, MAX_THREADS)])}, 'permutation')
        sub = rng.sample(allq, rng.randint(1, nq - 1))
        go(sub, {'n_jobs': rng.choice([1, 1, 2, 3])}, 'subset')
        dup = [rng.choice(allq) for _ in range(rng.randint(2, 2 * nq))]
        if rng.random() < 0.3:
            dup = [dup[0]] * rng.randint(2, 5)
        go(dup, {'n_jobs': rng.choice([1, 1, 2, 5])}, 'duplication')
    ks = range(1, nt + 1) if nt <= 8 else sorted({1, 2, 3, nt // 2, nt - 1, nt, rng.randint(4, nt - 2), rng.randint(4, nt - 2)})
    for k in ks:
        for th in ([1, 3, MAX_THREADS] if thorough else [1 if k % 2 else 3]):
            near(k, {'n_jobs': th}, sample=(k == 2 and ci == 0))
    # n_nearest for re-ordered / duplicated lists (one thread: the scratch slot that is argsorted is shared)
    for _ in range(3 if thorough else 2):
        order = [rng.choice(allq) for _ in range(rng.randint(2, 2 * nq))]
        near(rng.randint(1, nt), {'n_jobs': rng.choice([1, 1, 2, MAX_THREADS])}, order=order, section='n_nearest-reordered')
    return True


def _annot_section(rep, ai, rng, thorough):
    n_ex, L = 3, 40
    seq = []
    for _ in range(8):
        l = rng.choice([1, 2, 3, 5, 8, 12, 15])
        s = rng.randint(0, L - l)
        seq.append([rng.randrange(n_ex), s, s + l])
    grid = [0, 1, 4, 0][ai % 4]
    base = {'kind': 'annotate', 'xseed': rng.randrange(10 ** 9), 'n_examples': n_ex, 'length': L, 'seqlets': seq,
            'T': [{'seed': rng.randrange(10 ** 9), 'lens': [rng.randint(1, 10) for _ in range(5)], 'grid': grid, 'alpha': 0.3, 'pool': 0}],
            'rc': bool(ai % 2), 'n_target_bins': None, 'n_score_bins': 100}
    X_, motifs_ = _annot_inputs(base)
    if degenerate([X_[e, :, a:b].numpy() for e, a, b in seq], [m.numpy() for m in motifs_.values()], base['rc']):
        return 0
    allq = list(range(len(seq)))
    for v in range(24 if thorough else 12):
        if v == 0:
            order = allq
        elif v % 3 == 1:
            order = rng.sample(allq, rng.randint(1, len(allq)))
        elif v % 3 == 2:
            order = [rng.choice(allq) for _ in range(rng.randint(2, 10))]
        else:
            order = allq[::-1]
        case = dict(base, order=order, n_nearest=rng.randint(1, 5), n_jobs=rng.choice([1, 1, 2, 4, MAX_THREADS]))
        if v % 4 == 1:
            case['extra_cols'] = 'float' if v % 8 == 1 else 'mixed'
        if v % 4 in (2, 1) and v > 3:
            case['reindex'] = True
        _emit(rep, case, check_annotate(case), 'annotate_seqlets', ('a', ai, v), sample=(v == 1 and ai == 0))
    # annotate_seqlets(X, seqlets, motifs) with no keyword at all (n_nearest, n_jobs, hashing, strands: the defaults);
    # only for continuous motifs (every target column is its own hash bucket)
    if grid == 0:
        dbase = dict(base, rc=True, n_target_bins=100, n_score_bins=100, defaults=True)
        if not degenerate([X_[e, :, a:b].numpy() for e, a, b in seq], [m.numpy() for m in motifs_.values()], True):
            for v, order in enumerate([allq, allq[::-1], [rng.choice(allq) for _ in range(20)], rng.sample(allq, 3)]):
                case = dict(dbase, order=order, n_nearest=1, n_jobs=-1, extra_cols=['float', None, 'mixed', None][v], reindex=(v >= 2))
                _emit(rep, case, check_annotate(case), 'annotate_seqlets-defaults', ('ad', ai, v))
    return 1


def run(rep):
    thorough = rep.tier == 'thorough'
    rng = rep.rng
    _warm(rep)
    if MAX_THREADS < 16:
        rep.note('only %d numba threads available: thread counts 1..%d covered' % (MAX_THREADS, MAX_THREADS))
    ci = n_ann = n_deg = k = 0
    for cfg in FIXED:
        _batch_section(rep, cfg, ci, rng, thorough)
        ci += 1
    for w in range(4 if thorough else 2):
        if _batch_section(rep, _config_wide(rng, w), ci, rng, thorough, light=True):
            ci += 1
    n_cfg = 10 ** 9 if thorough else 10 + ci
    while ci < n_cfg:
        if rep.left() < (30 if thorough else 10):
            rep.note('time budget reached after %d configurations' % ci)
            break
        k += 1
        if not _batch_section(rep, _config(rng, thorough, k), ci, rng, thorough):
            n_deg += 1
            continue
        ci += 1
        if ci % 3 == 0 and (thorough or n_ann < 4):
            n_ann += _annot_section(rep, n_ann, rng, thorough)
    while not thorough and n_ann < 4 and rep.left() > 5:
        n_ann += _annot_section(rep, n_ann, rng, thorough)
    rep.note('%d query/target configurations (%d generated ones skipped: a column equidistant from all target columns), '
             '%d annotate_seqlets configurations' % (ci, n_deg, n_ann))


def replay(case):
    """re-runs one stored case.  The known violations of this property come from reads of
    uninitialised scratch memory, whose content depends on the allocator: the case is re-run up to
    three times (baselines recomputed) and the first non-empty list of violations is returned."""
    _warm()
    k = case.get('kind')
    fn = {'batch': check_batch, 'nearest': check_nearest, 'annotate': check_annotate, 'history': check_history}.get(k)
    if fn is None:
        return ['unknown replay kind']
    out = []
    for _ in range(3):
        _ALONE.clear()
        out = fn(case)
        if out:
            break
    return out
