"""Bounded stand-in for C15 (sequence representations) — never counted as proved.

All checks call the REAL tangermeme.utils functions and compare with oracles written from the
property statement:

 ohe        one_hot_encode / characters on strings over alphabet+ignore:
              X[c, p] == 1  <=>  s[p] == alphabet[c]   (ignored characters: all-zero column),
              X has the requested dtype and shape (len(alphabet), len(s)),
              characters(X, allow_N=True) == s with every ignored character replaced by 'N',
              characters(X) == s when s has no ignored character,
              (flag 'variants') the same two decodings with force=True and from a contiguous copy of X,
              one_hot_encode(characters(X, allow_N=True), ignore=['N']) == X   (other direction;
              only asserted when 'N' is not itself a letter of the alphabet).
            The DNA configuration is also called with alphabet / ignore / dtype left to their defaults
            (flag 'omit'; the dtype of the result is then not asserted).
 reject     a string with one character outside alphabet and ignore (ASCII, other-case twin of a
            letter or of an ignored character, non-ASCII) at any position - of a short string, or
            first / last / middle / random in a string of 65 .. 100000 characters - must raise.
 revcomp    involutive complement maps (pairs + fixed points) in alphabet order:
              string form: rc(s)[p] == map[s[L-1-p]] ('N' -> 'N'), rc(rc(s)) == s,
              tensor form: rc(X)[c, p] == X[index(map[alphabet[c]]), L-1-p], rc(rc(X)) == X (values and dtype),
              agreement: one_hot_encode(rc(s)) == rc(one_hot_encode(s)),
              (flag 'coded') the tensor form on a tensor with pairwise distinct entries (not one-hot):
              rc(rc(Y)) == Y and the same formula,
              (allow_N=False) the same on strings in which no N has to pass through.
 chunk      chunk k of sequence i is X_i[:, k*(size-overlap) : k*(size-overlap)+size], rows of
            sequence i follow those of sequence i-1 (integer position-coded tensors, so no two
            entries are equal);  unchunk(chunk(X), lengths, overlap)[i][..., p] == X_i[..., p] for
            every p below size + (K_i-1)*(size-overlap) (= every position covered by a complete
            chunk).  The length of the unchunked tensor beyond that is not asserted.  The input
            sequences come contiguous, as transposed views (what one_hot_encode returns), as windows
            of a larger tensor and as strided views; the chunk tensor goes to unchunk as returned,
            as numpy array and as contiguous copy; keyword and positional calls.
 history    many calls in ONE process (the statement quantifies over single calls, so no result may
            depend on earlier calls): the steps are ordinary ohe / reject / revcomp / chunk cases
            evaluated in order -
              one alphabet with an ignore set that changes from call to call (a character ignored
              earlier and not ignored now must be rejected), also through the default arguments,
              re-partitions of a 3-5 character universe into letters (any order) / ignored / outside,
              one key set with changing complement maps and key orders, default map in between,
              the same list / dict OBJECT rewritten by the caller between the calls ('shared'),
              returned tensors overwritten in place by the caller and the identical call repeated
              ('scribble'), every other returned tensor compared with a private copy after each step.
            A failing history is stored cut after its first failing step once that cut fails in a
            FRESH interpreter (tried at most twice per run), otherwise together with every step
            executed before it in the run; replay(case) re-runs the steps in order.

Not asserted (the statement does not demand it): alphabets given as tuple / str (a tuple raises
TypeError in one_hot_encode on the pinned tree), unchunk(lengths=None) (raises on the pinned
tree although documented), sequences shorter than one chunk, complement maps that are not
involutions, complex dtypes, characters(allow_N=False) on all-zero columns, the dtype returned
by one_hot_encode when none is requested, reverse_complement(allow_N=False) on a string with N.

Sections marked LITERAL are inside the literal quantifier text ("every string", "all dtypes",
"all ASCII alphabets") but are corner inputs; they have their own finding keys and can be
switched off with LITERAL_EDGES = False without touching anything else.
"""
import itertools
import random

import numpy
import torch

from tangermeme.utils import one_hot_encode, characters, reverse_complement, chunk, unchunk

LITERAL_EDGES = True

SCOPE = {
    'quick': 'call histories in one process (first): 11 ignore-set histories (DNA with defaults / explicit / shared list objects + one '
             'alphabet of each size 1-8; 9 ignore sets drawn from a pool of 4 characters each followed by a rejection of every pool '
             'character not currently ignored), 12 re-partition histories of a 3-5 character universe (12 calls each, letters in any '
             'order, 0-2 ignored, rest rejected), 8 complement-map histories (same keys, changing maps / key order, default map in '
             'between), 2 mixed histories incl. chunk/unchunk; returned tensors overwritten or checked unchanged after every step; '
             'one_hot_encode/characters: random ASCII(1..127) alphabets of every size 1-8 x ignore sets of size 0-2, '
             'every string of length 1-6 over alphabet+ignore when that has <= 4 symbols, length 1-3 otherwise, 9 dtypes '
             '(int8/uint8/int16/int32/int64/float16/float32/float64/bool) cycled over the strings and all 9 on every string of '
             'length <= 2 (force=True / contiguous-copy decoding on those and every 4th other; DNA also with default arguments), '
             '5 alphabets with ignore sets of 3-8 characters (one repeated entry): every string of length 1-2 + 40 random, '
             '150 random strings of length 7-3000 and 32767/32768/65535/65536/70000/100000; rejection: every position of 3 base '
             'strings per alphabet x 5-7 outside characters (incl. other-case twins of letters and ignored characters), 60 strings of '
             'length 65-100000 with one outside character first/last/middle/random; '
             'LITERAL: the empty string, dtype bfloat16, an alphabet containing NUL; reverse_complement: '
             'default DNA map + random involutive maps on alphabets of size 1-8 + two maps with N as a letter, every string of '
             'length 0-5 (<= 4 symbols incl. N) or 0-3, 100 random long strings, every 2nd-3rd case also on a tensor with distinct '
             'entries and / or with allow_N=False; chunk/unchunk: every size 1-40 x every overlap 0..size-1 x one sequence with '
             '1, 2, 3, 4-9 chunks (random incomplete tail), the longest one-chunk / shortest two-chunk / exact-size sequence and a '
             'longest-tail 2-3 chunk sequence + one random case of 2-4 sequences, one 4-sequence case with chunk counts {1,2,3,many} '
             'in a cycled order and tails {random, 0, max}, one case of 2-4 one-chunk sequences in a row; 1-5 rows, lengths given as '
             'list/numpy/tensor, inputs contiguous/transposed/window/strided, chunks as returned/numpy/contiguous, keyword/positional',
    'thorough': 'as quick with: 35 ignore-set, 60 re-partition, 40 complement-map and 10 mixed histories; every string of length 1-6 '
                'when alphabet+ignore has <= 6 symbols, length 1-4 otherwise, two '
                'alphabets per size, 1500 random long strings, 400 long rejections; reverse_complement every string of length 0-6 '
                '(<= 5 symbols) or 0-4, 1000 random long strings; chunk/unchunk: every size 1-40 x overlap x chunk count 1..8 x tail '
                'in {0, max, random}, 6 random and 3 structured multi-sequence cases per (size, overlap)',
}

DTYPES = [torch.int8, torch.uint8, torch.int16, torch.int32, torch.int64, torch.float16, torch.float32,
          torch.float64, torch.bool]
DT = {str(d).replace('torch.', ''): d for d in DTYPES + [torch.bfloat16]}
MAX_PER_FINDING = 20


def _dn(d):
    return str(d).replace('torch.', '')


def _exc(e):
    return '%s: %s' % (type(e).__name__, str(e)[:90])


# ----------------------------------------------------------------------------------------------
# one_hot_encode / characters
# ----------------------------------------------------------------------------------------------

ACGT = ['A', 'C', 'G', 'T']


def _shared(ctx, case, key, value):
    """the list / dict object handed to the function under test: a fresh copy, or - inside a call history with
    case['shared'] - ONE object per history whose content the caller rewrites between the calls"""
    if ctx is not None and case.get('shared'):
        obj = ctx[key]
        obj.clear()
        if isinstance(obj, dict):
            obj.update(value)
        else:
            obj.extend(value)
        return obj
    return dict(value) if isinstance(value, dict) else list(value)


def _ohe_kwargs(case, ctx, dt=None):
    """keyword arguments of a one_hot_encode call; case['omit'] lists the arguments left to their defaults
    (alphabet: must be ACGT, ignore: must be ['N'], dtype: the result dtype is then not asserted)"""
    omit = case.get('omit') or ()
    kw = {}
    if 'alphabet' in omit:
        assert list(case['alphabet']) == ACGT
    else:
        kw['alphabet'] = _shared(ctx, case, 'alist', list(case['alphabet']))
    if 'ignore' in omit:
        assert list(case['ignore']) == ['N']
    else:
        kw['ignore'] = _shared(ctx, case, 'ilist', list(case['ignore']))
    if dt is not None and 'dtype' not in omit:
        kw['dtype'] = dt
    return kw


def _ohe_mismatch(X, alphabet, s):
    """None when X[c, p] == 1 <=> s[p] == alphabet[c] (and 0 otherwise), else a short description"""
    A, L = len(alphabet), len(s)
    if L <= 64:
        exp = [[1 if s[p] == alphabet[c] else 0 for p in range(L)] for c in range(A)]
        got = X.to(torch.float64).tolist() if L else [[] for _ in range(A)]
        if got != [[float(v) for v in row] for row in exp]:
            return 'got %s expected %s' % (got, exp)
        return None
    codes = numpy.array([ord(ch) for ch in s], dtype=numpy.int64)
    exp = numpy.stack([(codes == ord(a)) for a in alphabet]).astype(numpy.float64)
    got = X.to(torch.float64).numpy()
    if not numpy.array_equal(got, exp):
        bad = numpy.nonzero((got != exp).any(axis=0))[0]
        p = int(bad[0])
        return '%d column(s) differ, first at position %d (%r): got %s expected %s' % (len(bad), p, s[p], got[:, p].tolist(), exp[:, p].tolist())
    return None


def check_ohe(case, ctx=None):
    """case: {'kind': 'ohe', 'alphabet': [chars], 'ignore': [chars], 's': str, 'dtype': name,
    optional 'omit': [argument names left to their defaults], 'variants': bool (also decode with force=True and
    from a contiguous copy), 'shared' / 'scribble': only inside a call history (see check_history)}"""
    out = []
    alphabet, ignore, s, dt = list(case['alphabet']), list(case['ignore']), case['s'], DT[case['dtype']]
    A, L = len(alphabet), len(s)
    omit = case.get('omit') or ()
    try:
        kw = _ohe_kwargs(case, ctx, dt)
        X = one_hot_encode(s, **kw)
    except Exception as e:
        return ['one_hot_encode raised %s on a string over alphabet+ignore' % _exc(e)]
    if not isinstance(X, torch.Tensor) or tuple(X.shape) != (A, L):
        return ['one_hot_encode shape %s, expected %s' % (tuple(getattr(X, 'shape', ())), (A, L))]
    if X.dtype != dt and 'dtype' not in omit:
        out.append('one_hot_encode dtype %s, requested %s' % (X.dtype, dt))
    bad = _ohe_mismatch(X, alphabet, s)
    if bad:
        out.append('one_hot_encode entries differ from [s[p] == alphabet[c]]: ' + bad)
        return out
    has_ign = any(ch in ignore for ch in s)
    exp_n = ''.join('N' if ch in ignore else ch for ch in s)
    ckw = {} if 'alphabet' in omit else {'alphabet': kw['alphabet']}
    try:
        t = characters(X, allow_N=True, **ckw)
        if t != exp_n:
            out.append('characters(one_hot_encode(s), allow_N=True) = %r, expected %r' % (t, exp_n))
    except Exception as e:
        t = None
        out.append('characters(allow_N=True) raised %s on one_hot_encode(%r)' % (_exc(e), s))
    if not has_ign:
        try:
            t2 = characters(X, **ckw)
            if t2 != s:
                out.append('characters(one_hot_encode(s)) = %r, expected %r' % (t2, s))
        except Exception as e:
            out.append('characters raised %s on one_hot_encode(%r)' % (_exc(e), s))
    if case.get('variants'):
        # the same decoding from a contiguous copy of X (one_hot_encode returns a transposed view) and with
        # force=True (no column of a one-hot encoding of an ignore-free string has a tie, so force is immaterial)
        try:
            Xc = X.clone().contiguous()
            t3 = characters(Xc, allow_N=True, **ckw)
            if t3 != exp_n:
                out.append('characters(contiguous copy of X, allow_N=True) = %r, expected %r' % (t3, exp_n))
            t4 = characters(X, allow_N=True, force=True, **ckw)
            if t4 != exp_n:
                out.append('characters(X, allow_N=True, force=True) = %r, expected %r' % (t4, exp_n))
            if not has_ign:
                t5 = characters(X, force=True, **ckw)
                if t5 != s:
                    out.append('characters(X, force=True) = %r, expected %r' % (t5, s))
        except Exception as e:
            out.append('characters (contiguous copy / force=True) raised %s on one_hot_encode(%r)' % (_exc(e), s))
    if t is not None and t == exp_n and 'N' not in alphabet:
        # other direction: the decoded string (N for all-zero columns) encodes back to X
        try:
            X2 = one_hot_encode(t, alphabet=list(alphabet), dtype=dt, ignore=['N'])
            if tuple(X2.shape) != tuple(X.shape) or not torch.equal(X2.to(torch.float64), X.to(torch.float64)):
                out.append('one_hot_encode(characters(X), ignore=[N]) != X')
        except Exception as e:
            out.append('one_hot_encode(characters(X)) raised %s' % _exc(e))
    _after(ctx, case, X)
    return out


def _after(ctx, case, R):
    """inside a call history: either overwrite the returned tensor in place (a later call must not see it) or
    remember it with a private copy (a later call must not change it)"""
    if ctx is None or not isinstance(R, torch.Tensor):
        return
    if case.get('scribble'):
        try:
            R.fill_(1)
        except Exception:
            pass
    else:
        ctx['keep'].append((ctx.get('step'), R, R.clone()))


def check_reject(case, ctx=None):
    """case: {'kind': 'reject', 'alphabet', 'ignore', 's', optional 'omit'}: s contains a character outside both sets"""
    alphabet, ignore, s = list(case['alphabet']), list(case['ignore']), case['s']
    assert any(ch not in alphabet and ch not in ignore for ch in s)
    try:
        X = one_hot_encode(s, **_ohe_kwargs(case, ctx))
    except Exception:
        return []
    sh = s if len(s) <= 40 else '%s...(%d characters, outside: %s)' % (s[:20], len(s), [(p, ch) for p, ch in enumerate(s) if ch not in alphabet and ch not in ignore][:3])
    return ['one_hot_encode accepted %r (alphabet %r, ignore %r) and returned shape %s' % (sh, alphabet, ignore, tuple(X.shape))]


def _rand_alphabet(rng, size, lo=1):
    return [chr(c) for c in rng.sample(range(lo, 128), size)]


def _rand_ignore(rng, alphabet, k):
    pool = [chr(c) for c in range(1, 128) if chr(c) not in alphabet]
    ign = rng.sample(pool, k)
    if k and 'N' not in alphabet and rng.random() < 0.5:
        ign[0] = 'N'
        ign = list(dict.fromkeys(ign))
    return ign


class _Lim:
    """caps the number of stored violations per finding key; keeps totals"""

    def __init__(self, rep):
        self.rep, self.n = rep, {}

    def report(self, viol, case, finding):
        for what in viol:
            k = self.n.get(finding, 0)
            self.n[finding] = k + 1
            if k < MAX_PER_FINDING:
                self.rep.violation(what, case, finding=finding)

    def finish(self):
        for f, k in self.n.items():
            if k > MAX_PER_FINDING:
                self.rep.note('finding %s: %d failed clauses in total, first %d stored' % (f, k, MAX_PER_FINDING))


def _ohe_finding(case):
    """key of the LITERAL corner classes; bfloat16 / NUL only when the same case with float32 / chr(1) passes"""
    if case['dtype'] == 'bfloat16':
        return 'characters-bfloat16-raises' if not check_ohe(dict(case, dtype='float32')) else None
    if case['s'] == '':
        return 'characters-empty-sequence-raises'
    if '\x00' in case['alphabet']:
        ctrl = dict(case, alphabet=[c.replace('\x00', '\x01') for c in case['alphabet']], s=case['s'].replace('\x00', '\x01'))
        return 'characters-nul-letter-lost' if not check_ohe(ctrl) else None
    return None


def _run_ohe_literal(rep, lim):
    if not LITERAL_EDGES:
        return
    if True:
        # LITERAL: "every string" includes the empty one; "all dtypes" includes bfloat16;
        # "all ASCII alphabets" includes NUL
        for alphabet, ignore in [(['A', 'C', 'G', 'T'], ['N']), (['x'], []), (['a', 'b', 'c'], ['-'])]:
            for dt in (torch.int8, torch.float32):
                case = {'kind': 'ohe', 'alphabet': alphabet, 'ignore': ignore, 's': '', 'dtype': _dn(dt)}
                v = check_ohe(case)
                rep.case(('ohe-empty', tuple(alphabet), _dn(dt)), nontrivial=False, section='ohe-literal-edges')
                lim.report(v, case, _ohe_finding(case) if v else None)
        for s in ['A', 'ACGT', 'NACGTN', 'GATTACA', 'TTTT']:
            case = {'kind': 'ohe', 'alphabet': ['A', 'C', 'G', 'T'], 'ignore': ['N'], 's': s, 'dtype': 'bfloat16'}
            v = check_ohe(case)
            rep.case(('ohe-bf16', s), section='ohe-literal-edges')
            lim.report(v, case, _ohe_finding(case) if v else None)
        for s in ['\x00', 'B\x00B', '\x00\x00B']:
            case = {'kind': 'ohe', 'alphabet': ['\x00', 'B'], 'ignore': [], 's': s, 'dtype': 'int8'}
            v = check_ohe(case)
            rep.case(('ohe-nul', s), section='ohe-literal-edges')
            lim.report(v, case, _ohe_finding(case) if v else None)



OMITS = [[], ['alphabet'], ['ignore'], ['dtype'], ['alphabet', 'ignore'], ['alphabet', 'ignore', 'dtype']]


def _run_ohe(rep, lim):
    _run_ohe_literal(rep, lim)
    rng, thorough = rep.rng, rep.tier == 'thorough'
    small_syms, small_len, big_len = (6, 6, 4) if thorough else (4, 6, 3)
    configs = []
    for A in range(1, 9):
        for rep_i in range(2 if thorough else 1):
            for I in (0, 1, 2):
                alphabet = _rand_alphabet(rng, A)
                configs.append((alphabet, _rand_ignore(rng, alphabet, I)))
    configs.append((['A', 'C', 'G', 'T'], ['N']))
    configs.append((['N', 'C'], ['x']))          # N is a letter and another character is ignored
    # larger ignore sets (3-8 characters, some with smaller / larger codes than every letter, one entry repeated)
    big_ign = []
    for A in (1, 2, 4, 8):
        alphabet = _rand_alphabet(rng, A)
        ign = _rand_ignore(rng, alphabet, rng.randint(3, 8))
        big_ign.append((alphabet, ign + ign[:1]))
    big_ign.append((['A', 'C', 'G', 'T'], ['N', 'n', '-', '.', '*', 'X']))
    # rejection (cheap, first): one outside character at every position of short base strings ...
    outsiders_extra = ['é', '中']
    for alphabet, ignore in configs + big_ign:
        pool = [chr(c) for c in range(1, 128) if chr(c) not in alphabet and chr(c) not in ignore]
        outs = rng.sample(pool, 3) + outsiders_extra
        # the other-case twin of a letter / of an ignored character
        twins = [ch.swapcase() for ch in alphabet + ignore if ch.swapcase() != ch and len(ch.swapcase()) == 1
                 and ch.swapcase() not in alphabet and ch.swapcase() not in ignore]
        outs += list(dict.fromkeys(twins))[:2]
        for b in range(3):
            base = ''.join(rng.choice(alphabet + ignore) for _ in range(rng.randint(0, 6)))
            for o in outs:
                for p in range(len(base) + 1):
                    if rep.out_of_time():
                        return
                    case = {'kind': 'reject', 'alphabet': alphabet, 'ignore': ignore, 's': base[:p] + o + base[p:]}
                    if alphabet == ACGT and ignore == ['N']:
                        case['omit'] = OMITS[(p + b) % 3]
                    v = check_reject(case)
                    rep.case(('rej', tuple(alphabet), tuple(ignore), case['s']), section='ohe-reject',
                             sample=case if (b == 0 and p == 0 and o == outs[0]) else None)
                    lim.report(v, case, 'outside-character-accepted')
    # ... and one outside character in a long string (first / last / middle / random position)
    for k in range(400 if thorough else 60):
        if rep.out_of_time():
            return
        alphabet = ACGT if k % 5 == 0 else _rand_alphabet(rng, rng.randint(1, 8))
        ignore = ['N'] if k % 5 == 0 else _rand_ignore(rng, alphabet, rng.randint(0, 3))
        L = [65, 257, 1000, 4097, 5000, 20000, 65537, 100000][k % 8]
        pos = [0, L - 1, L // 2, rng.randrange(L), L - 2, 1][k % 6]
        pool = [chr(c) for c in range(1, 128) if chr(c) not in alphabet and chr(c) not in ignore]
        o = rng.choice(pool + ['é'])
        base = ''.join(rng.choices(alphabet + ignore, k=L - 1))
        case = {'kind': 'reject', 'alphabet': alphabet, 'ignore': ignore, 's': base[:pos] + o + base[pos:]}
        v = check_reject(case)
        rep.case(('rej-long', k), section='ohe-reject-long')
        lim.report(v, case, 'outside-character-accepted')
    # random long strings
    for k in range(1500 if thorough else 150):
        if rep.out_of_time():
            return
        alphabet = _rand_alphabet(rng, rng.randint(1, 8))
        ignore = _rand_ignore(rng, alphabet, rng.randint(0, 2) if k % 4 else rng.randint(3, 6))
        L = rng.choice([7, 8, 17, 64, 255, 256, 257, 1000, rng.randint(7, 3000)])
        if k % 25 == 7:
            L = [32767, 32768, 65535, 65536, 70000, 100000][(k // 25) % 6]
        w = [1.0] * len(alphabet) + [0.3] * len(ignore)
        s = ''.join(rng.choices(alphabet + ignore, weights=w, k=L))
        case = {'kind': 'ohe', 'alphabet': alphabet, 'ignore': ignore, 's': s, 'dtype': _dn(DTYPES[k % len(DTYPES)]),
                'variants': k % 3 == 0}
        v = check_ohe(case)
        rep.case(('ohe-long', k), section='ohe-long')
        lim.report([x[:300] for x in v], case, _ohe_finding(case) if v else None)
    # larger ignore sets: every string of length 1-2 and random ones
    n = 0
    for alphabet, ignore in big_ign:
        syms = list(dict.fromkeys(alphabet + ignore))
        strs = [''.join(t) for L in (1, 2) for t in itertools.product(syms, repeat=L)]
        strs += [''.join(rng.choices(syms, k=rng.randint(3, 40))) for _ in range(40)]
        for s in strs:
            if rep.out_of_time():
                return
            n += 1
            case = {'kind': 'ohe', 'alphabet': alphabet, 'ignore': ignore, 's': s, 'dtype': _dn(DTYPES[n % len(DTYPES)]),
                    'variants': n % 4 == 0}
            v = check_ohe(case)
            rep.case(('ohe-bigign', tuple(alphabet), tuple(ignore), s), nontrivial=len(s) > 1, section='ohe-big-ignore')
            lim.report(v, case, None)
    # exhaustive enumeration
    n = 0
    for alphabet, ignore in configs:
        syms = alphabet + ignore
        dna = alphabet == ACGT and ignore == ['N']
        maxL = small_len if len(syms) <= small_syms else big_len
        for L in range(1, maxL + 1):
            for tup in itertools.product(syms, repeat=L):
                if rep.out_of_time():
                    rep.note('time budget reached in the one_hot_encode enumeration')
                    return
                s = ''.join(tup)
                dts = DTYPES if L <= 2 else [DTYPES[n % len(DTYPES)]]
                n += 1
                for dt in dts:
                    case = {'kind': 'ohe', 'alphabet': alphabet, 'ignore': ignore, 's': s, 'dtype': _dn(dt)}
                    if L <= 2 or n % 4 == 0:
                        case['variants'] = True
                    if dna:
                        # the DNA configuration is also called with arguments left to their defaults
                        case['omit'] = OMITS[(n + len(dts)) % len(OMITS)] if L > 2 else OMITS[DTYPES.index(dt) % len(OMITS)]
                    v = check_ohe(case)
                    rep.case(('ohe', tuple(alphabet), tuple(ignore), s, _dn(dt)), nontrivial=L > 1,
                             sample=case, section='ohe-roundtrip')
                    lim.report(v, case, _ohe_finding(case) if v else None)
    rep.mark_exhaustive('one_hot_encode/characters round trip on every string of the listed lengths for %d (alphabet, ignore) pairs' % len(configs))


# ----------------------------------------------------------------------------------------------
# reverse_complement
# ----------------------------------------------------------------------------------------------

def check_revcomp(case, ctx=None):
    """case: {'kind': 'revcomp', 'alphabet': [chars], 'partner': [chars] (involution, same order), 's': str,
    'default': bool (use the function's default DNA map), 'dtype': name, optional 'allow_N': False (only for strings
    in which no N has to pass through), 'coded': bool (also a tensor with pairwise distinct entries instead of a
    one-hot encoding), 'shared' / 'scribble': only inside a call history}"""
    out = []
    alphabet, partner, s = list(case['alphabet']), list(case['partner']), case['s']
    cmap = dict(zip(alphabet, partner))
    assert all(cmap[cmap[a]] == a for a in alphabet)
    kw = {} if case.get('default') else {'complement_map': _shared(ctx, case, 'cmap', cmap)}
    dt = DT[case.get('dtype', 'int8')]
    L, A = len(s), len(alphabet)
    n_ok = 'N' not in alphabet
    if case.get('allow_N') is False:
        assert not (n_ok and 'N' in s)
        kw['allow_N'] = False
    sigma = [alphabet.index(cmap[a]) for a in alphabet]
    exp = ''.join(('N' if (ch == 'N' and n_ok) else cmap[ch]) for ch in reversed(s))
    # string form
    r = None
    try:
        r = reverse_complement(s, **kw)
        if r != exp:
            out.append('reverse_complement(%r) = %r, expected %r' % (s, r, exp))
        rr = reverse_complement(r, **kw)
        if rr != s:
            out.append('string form is not an involution: rc(rc(%r)) = %r' % (s, rr))
    except Exception as e:
        out.append('string form raised %s' % _exc(e))
    # tensor form
    try:
        X = one_hot_encode(s, alphabet=list(alphabet), dtype=dt, ignore=['N'] if n_ok else [])
        X0 = X.clone()
        R = reverse_complement(X, **kw)
        if tuple(R.shape) != (A, L):
            out.append('tensor form shape %s' % (tuple(R.shape),))
        else:
            expR = [[(1 if s[L - 1 - p] == cmap[alphabet[c]] else 0) for p in range(L)] for c in range(A)]
            gotR = R.to(torch.float64).tolist() if L else [[] for _ in range(A)]
            if gotR != [[float(v) for v in row] for row in expR]:
                out.append('tensor form differs from X[sigma(c), L-1-p]: got %s expected %s' % (gotR, expR))
            RR = reverse_complement(R, **kw)
            if not torch.equal(RR.to(torch.float64), X0.to(torch.float64)):
                out.append('tensor form is not an involution')
            elif RR.dtype != X0.dtype:
                out.append('tensor form is not an involution: rc(rc(X)) has dtype %s, X has %s' % (RR.dtype, X0.dtype))
            if r is not None:
                Xr = one_hot_encode(r, alphabet=list(alphabet), dtype=dt, ignore=['N'] if n_ok else [])
                if tuple(Xr.shape) != tuple(R.shape) or not torch.equal(Xr.to(torch.float64), R.to(torch.float64)):
                    out.append('string and tensor forms disagree: one_hot_encode(rc(s)) != rc(one_hot_encode(s)) for s = %r' % s)
            _after(ctx, case, R)
        if not torch.equal(X, X0):
            out.append('reverse_complement modified its input tensor')
    except Exception as e:
        out.append('tensor form raised %s' % _exc(e))
    if case.get('coded') and L:
        # a tensor whose entries are pairwise distinct (not a one-hot encoding): same formula, same involution
        try:
            cdt = torch.float64 if dt.is_floating_point else torch.int64
            Y = _coded(0, A, L, cdt)
            Y0 = Y.clone()
            R = reverse_complement(Y, **kw)
            expY = Y0[sigma][:, list(range(L - 1, -1, -1))]
            RR = reverse_complement(R, **kw)
            if tuple(RR.shape) != (A, L) or not torch.equal(RR.to(torch.float64), Y0.to(torch.float64)):
                out.append('tensor form is not an involution on a tensor with distinct entries: rc(rc(Y)) = %s, Y = %s'
                           % (RR.tolist() if L <= 8 else tuple(RR.shape), Y0.tolist() if L <= 8 else '...'))
            if tuple(R.shape) != (A, L) or not torch.equal(R.to(torch.float64), expY.to(torch.float64)):
                out.append('tensor form on a tensor with distinct entries differs from X[sigma(c), L-1-p]: got %s expected %s'
                           % (R.tolist() if L <= 8 else tuple(R.shape), expY.tolist() if L <= 8 else '...'))
            if not torch.equal(Y, Y0):
                out.append('reverse_complement modified its input tensor')
        except Exception as e:
            out.append('tensor form raised %s on a tensor with distinct entries' % _exc(e))
    return out


def _rand_involution(rng, alphabet):
    a = list(alphabet)
    rng.shuffle(a)
    m = {}
    while a:
        x = a.pop()
        if a and rng.random() < 0.75:
            y = a.pop()
            m[x], m[y] = y, x
        else:
            m[x] = x
    return [m[ch] for ch in alphabet]


def _run_revcomp(rep, lim):
    rng, thorough = rep.rng, rep.tier == 'thorough'
    small_syms, small_len, big_len = (5, 6, 4) if thorough else (4, 5, 3)
    configs = [(['A', 'C', 'G', 'T'], ['T', 'G', 'C', 'A'], True), (['A', 'C', 'G', 'T'], ['T', 'G', 'C', 'A'], False)]
    for A in range(1, 9):
        for _ in range(2 if thorough else 1):
            alphabet = _rand_alphabet(rng, A, lo=33)
            configs.append((alphabet, _rand_involution(rng, alphabet), False))
    configs.append((['A', 'N', 'C'], ['C', 'N', 'A'], False))      # N is a letter of the alphabet
    configs.append((['N', 'A', 'C', 'G'], ['A', 'N', 'G', 'C'], False))   # ... and its complement is another letter
    n = 0
    for alphabet, partner, default in configs:
        syms = alphabet + (['N'] if 'N' not in alphabet else [])
        maxL = small_len if len(syms) <= small_syms else big_len
        for L in range(0, maxL + 1):
            for tup in itertools.product(syms, repeat=L):
                if rep.out_of_time():
                    rep.note('time budget reached in the reverse_complement enumeration')
                    return
                n += 1
                case = {'kind': 'revcomp', 'alphabet': alphabet, 'partner': partner, 's': ''.join(tup), 'default': default,
                        'dtype': _dn(DTYPES[n % len(DTYPES)])}
                if n % 3 == 0:
                    case['coded'] = True
                if n % 2 == 0 and ('N' in alphabet or 'N' not in tup):
                    case['allow_N'] = False
                v = check_revcomp(case)
                rep.case(('rc', tuple(alphabet), tuple(partner), default, case['s']), nontrivial=L > 1,
                         sample=case, section='revcomp')
                lim.report(v, case, None)
    rep.mark_exhaustive('reverse_complement on every string of the listed lengths for %d complement maps' % len(configs))
    for k in range(1000 if thorough else 100):
        if rep.out_of_time():
            return
        if k % 4 == 0:
            alphabet, partner, default = ['A', 'C', 'G', 'T'], ['T', 'G', 'C', 'A'], True
        else:
            alphabet = _rand_alphabet(rng, rng.randint(1, 8), lo=33)
            partner, default = _rand_involution(rng, alphabet), False
        syms = alphabet + (['N'] if 'N' not in alphabet else [])
        s = ''.join(rng.choice(syms) for _ in range(rng.choice([7, 31, 100, rng.randint(7, 2000)])))
        if k % 5 == 1:
            s = s.replace('N', alphabet[0]) if 'N' not in alphabet else s
        case = {'kind': 'revcomp', 'alphabet': alphabet, 'partner': partner, 's': s, 'default': default,
                'dtype': _dn(DTYPES[k % len(DTYPES)]), 'coded': k % 2 == 0}
        if k % 5 == 1:
            case['allow_N'] = False
        v = check_revcomp(case)
        rep.case(('rc-long', k), section='revcomp-long')
        lim.report([x[:300] for x in v], case, None)


# ----------------------------------------------------------------------------------------------
# chunk / unchunk
# ----------------------------------------------------------------------------------------------

def _n_chunks(L, size, overlap):
    return 0 if L < size else (L - size) // (size - overlap) + 1


def _coded(i, rows, L, dtype):
    """X[c, p] = i*10^6 + c*10^4 + p: every entry of every sequence is distinct"""
    c = torch.arange(rows, dtype=torch.int64)[:, None] * 10000
    p = torch.arange(L, dtype=torch.int64)[None, :]
    return (i * 1000000 + c + p).to(dtype)


def _layout(x, layout):
    """the same values in a different memory layout: 'T' = transposed view (what one_hot_encode returns),
    'slice' = window of a larger tensor (non-zero storage offset, row stride > L), 'step' = every second column of a
    tensor twice as wide"""
    if layout == 'contig':
        return x
    rows, L = x.shape
    if layout == 'T':
        y = x.T.contiguous().T
    elif layout == 'slice':
        big = torch.full((rows + 2, L + 5), 7, dtype=x.dtype)
        big[1:rows + 1, 3:L + 3] = x
        y = big[1:rows + 1, 3:L + 3]
    elif layout == 'step':
        big = torch.full((rows, 2 * L), 7, dtype=x.dtype)
        big[:, ::2] = x
        y = big[:, ::2]
    else:
        raise ValueError(layout)
    assert torch.equal(y, x)
    return y


def check_chunk(case, ctx=None):
    """case: {'kind': 'chunk', 'size', 'overlap', 'lengths': [..], 'rows', 'dtype', 'lform': list|numpy|tensor,
    'xform': tensor|numpy|contig (the chunk tensor as returned / as numpy array / as contiguous copy),
    'layout': contig|T|slice|step (memory layout of the input sequences), 'positional': bool}"""
    out = []
    size, overlap, lengths, rows = case['size'], case['overlap'], list(case['lengths']), case['rows']
    dt = DT[case.get('dtype', 'int64')]
    stride = size - overlap
    X = [_layout(_coded(i, rows, L, dt), case.get('layout', 'contig')) for i, L in enumerate(lengths)]
    X0 = [x.clone() for x in X]
    K = [_n_chunks(L, size, overlap) for L in lengths]
    assert all(k >= 1 for k in K)
    try:
        C = chunk(X, size, overlap) if case.get('positional') else chunk(X, size=size, overlap=overlap)
    except Exception as e:
        return ['chunk raised %s' % _exc(e)]
    if tuple(C.shape) != (sum(K), rows, size):
        return ['chunk shape %s, expected %s' % (tuple(C.shape), (sum(K), rows, size))]
    off = 0
    for i, x in enumerate(X0):
        for k in range(K[i]):
            if not torch.equal(C[off + k], x[:, k * stride:k * stride + size]):
                out.append('chunk row %d is not positions [%d, %d) of sequence %d' % (off + k, k * stride, k * stride + size, i))
                break
        off += K[i]
    if out:
        return out
    lf = case.get('lform', 'list')
    lens = lengths if lf == 'list' else (numpy.array(lengths) if lf == 'numpy' else torch.tensor(lengths))
    Cin = C.numpy() if case.get('xform') == 'numpy' else (C.clone().contiguous() if case.get('xform') == 'contig' else C)
    try:
        U = unchunk(Cin, lens, overlap) if case.get('positional') else unchunk(Cin, lengths=lens, overlap=overlap)
    except Exception as e:
        return ['unchunk raised %s' % _exc(e)]
    if not isinstance(U, (list, tuple)) or len(U) != len(lengths):
        return ['unchunk returned %s of length %s, expected a list of %d tensors' % (type(U).__name__, len(U) if hasattr(U, '__len__') else '?', len(lengths))]
    for i, x in enumerate(X0):
        covered = size + (K[i] - 1) * stride
        u = torch.as_tensor(U[i])
        if u.ndim != 2 or u.shape[0] != rows:
            out.append('sequence %d: unchunk shape %s, expected (%d, >=%d)' % (i, tuple(u.shape), rows, covered))
            continue
        if u.shape[-1] < covered:
            out.append('unchunk returned fewer positions than the complete chunks cover: sequence %d (length %d, %d chunk(s), size %d, overlap %d) got %d positions, %d covered; first row got %s expected %s'
                       % (i, lengths[i], K[i], size, overlap, u.shape[-1], covered, u[0].tolist()[:12], x[0, :covered].tolist()[:12]))
            continue
        if not torch.equal(u[:, :covered].to(torch.float64), x[:, :covered].to(torch.float64)):
            bad = (u[:, :covered].to(torch.float64) != x[:, :covered].to(torch.float64)).any(dim=0).nonzero().flatten().tolist()
            out.append('unchunk(chunk(X)) does not reproduce covered positions: sequence %d (length %d, %d chunk(s), size %d, overlap %d), positions %s' % (i, lengths[i], K[i], size, overlap, bad[:10]))
    for x, x0 in zip(X, X0):
        if not torch.equal(x, x0):
            out.append('chunk/unchunk modified an input sequence')
    _after(ctx, case, C)
    return out


def _length_for(rng, size, overlap, K, tail=None):
    stride = size - overlap
    t = rng.randint(0, stride - 1) if tail is None else min(tail, stride - 1)
    return size + (K - 1) * stride + t


def _report_chunk(rep, lim, case, v):
    """attribute a failing case: if a sequence with exactly one chunk and overlap > 0 fails on its own, that
    one-sequence case is stored under the known key; anything else is stored whole without a key"""
    if not v:
        return
    explained = False
    if case['overlap'] > 0:
        for L in case['lengths']:
            if _n_chunks(L, case['size'], case['overlap']) == 1:
                sub = dict(case, lengths=[L])
                sv = check_chunk(sub)
                # control: the same single sequence cut without overlap (still one chunk) must pass
                if sv and not check_chunk(dict(sub, overlap=0)):
                    lim.report(sv, sub, 'unchunk-single-chunk-overlap-drops-edges')
                    explained = True
                break
    rest = dict(case, lengths=[L for L in case['lengths'] if not (case['overlap'] > 0 and _n_chunks(L, case['size'], case['overlap']) == 1)])
    if not explained or (rest['lengths'] and check_chunk(rest)):
        lim.report(v, case, None)


PERMS4 = list(itertools.permutations(range(4)))


def _run_chunk(rep, lim):
    rng, thorough = rep.rng, rep.tier == 'thorough'
    cdts = ['int64', 'float64', 'float32', 'int32']
    n = 0
    for size in range(1, 41):
        for overlap in range(0, size):
            stride = size - overlap
            singles = []
            if thorough:
                for K in range(1, 9):
                    for tail in (0, 10 ** 6, None):
                        singles.append(_length_for(rng, size, overlap, K, tail))
            else:
                for K in (1, 2, 3, rng.randint(4, 9)):
                    singles.append(_length_for(rng, size, overlap, K))
                # the boundary between one and two chunks (longest one-chunk / shortest two-chunk sequence), the
                # shortest one-chunk sequence and a longest-tail sequence with 2-3 chunks
                singles += [size + stride - 1, size + stride, size, _length_for(rng, size, overlap, rng.choice([2, 3]), 10 ** 6)]
            cases = [[L] for L in dict.fromkeys(singles)]
            for _ in range(6 if thorough else 1):
                ns = rng.randint(2, 4)
                cases.append([_length_for(rng, size, overlap, rng.choice([1, 2, 3, rng.randint(4, 12)])) for _ in range(ns)])
            # structured multi-sequence cases: chunk counts {1, 2, 3, many} in every order (cycled), so that a
            # one-chunk sequence is first / in the middle / last; and 2-4 one-chunk sequences in a row
            for j in range(3 if thorough else 1):
                ks = [1, 2, 3, rng.randint(4, 8)]
                perm = PERMS4[(n + j) % 24]
                cases.append([_length_for(rng, size, overlap, ks[q], [None, 0, 10 ** 6][(n + q) % 3]) for q in perm])
            cases.append([_length_for(rng, size, overlap, 1, [None, 0, 10 ** 6][(n + q) % 3]) for q in range(2 + n % 3)]
                         + ([_length_for(rng, size, overlap, 2)] if n % 2 else []))
            for lengths in cases:
                if rep.out_of_time():
                    rep.note('time budget reached in the chunk enumeration at size %d' % size)
                    return
                n += 1
                case = {'kind': 'chunk', 'size': size, 'overlap': overlap, 'lengths': lengths, 'rows': 1 + n % 5,
                        'dtype': cdts[n % 4], 'lform': ['list', 'numpy', 'tensor'][n % 3],
                        'xform': ['tensor', 'numpy', 'tensor', 'contig'][(n // 3) % 4],
                        'layout': ['contig', 'T', 'slice', 'step'][(n // 2) % 4], 'positional': n % 7 == 0}
                v = check_chunk(case)
                Ks = [_n_chunks(L, size, overlap) for L in lengths]
                rep.case(('chunk', size, overlap, tuple(lengths), case['rows'], case['dtype'], case['lform'], case['xform'], case['layout']),
                         nontrivial=max(Ks) > 1 or overlap > 0, sample=case,
                         section='chunk-unchunk-%s' % ('multi' if len(lengths) > 1 else ('1chunk' if Ks[0] == 1 else '2chunks' if Ks[0] == 2 else '3chunks' if Ks[0] == 3 else 'many')))
                _report_chunk(rep, lim, case, v)
    rep.mark_exhaustive('chunk/unchunk for every size 1-40 x overlap 0..size-1 with the listed chunk counts')


# ----------------------------------------------------------------------------------------------
# call histories: many calls in ONE process
# ----------------------------------------------------------------------------------------------
# The statement quantifies over single calls, so the result of a call must not depend on the calls made before
# it.  A history is a list of ordinary cases (ohe / reject / revcomp / chunk) evaluated in order with the oracles
# above; in addition
#   - steps flagged 'shared' hand the SAME list / dict object (rewritten by the caller between the calls) to the
#     function as alphabet / ignore / complement_map,
#   - steps flagged 'scribble' overwrite the returned tensor in place afterwards (the caller owns it),
#   - every other returned tensor is kept and must be unchanged at the end of the history.

_STEP = {}


def _history_violations(case):
    """[(step index, kind, text)]; a kept tensor is compared with its private copy after every step, so the step
    index of 'changed by a later call' is that of the call that changed it"""
    out = []
    ctx = {'alist': [], 'ilist': [], 'cmap': {}, 'keep': []}
    for k, st in enumerate(case['steps']):
        ctx['step'] = k
        for w in _STEP[st['kind']](st, ctx):
            out.append((k, st['kind'], w[:400]))
        still = []
        for j, R, R0 in ctx['keep']:
            if R.shape != R0.shape or not torch.equal(R, R0):
                out.append((k, st['kind'], 'the tensor returned by the call of step %d (%s) was changed by this call' % (j, case['steps'][j]['kind'])))
            else:
                still.append((j, R, R0))
        ctx['keep'] = still
    return out


def _fmt_hist(v, offset=0):
    return ['call history, step %d (%s): %s' % (k + offset, kind, w) for k, kind, w in v]


def check_history(case):
    """case: {'kind': 'history', 'steps': [case, ...]}"""
    return _fmt_hist(_history_violations(case))


def _fresh_replay(case, timeout=240):
    """replay(case) in a fresh interpreter (no state left behind by earlier calls of this run); None = could not run"""
    import json
    import subprocess
    import sys
    code = ("import json, sys, warnings, importlib\nwarnings.filterwarnings('ignore')\nimport torch\ntorch.set_num_threads(1)\n"
            "m = importlib.import_module(%r)\nprint('\\n@@' + json.dumps(m.replay(json.load(sys.stdin))))\n" % __name__)
    try:
        pr = subprocess.run([sys.executable, '-c', code], input=json.dumps(case), capture_output=True, text=True, timeout=timeout)
        lines = [l for l in pr.stdout.splitlines() if l.startswith('@@')]
        return json.loads(lines[-1][2:]) if lines else None
    except Exception:
        return None


def _str_with(rng, must, pool, extra):
    chars = list(must) + [rng.choice(pool) for _ in range(extra)]
    rng.shuffle(chars)
    return ''.join(chars)


def _ohe_steps(rng, alphabet, ignore, outsiders, k, dna_defaults=False, shared=False):
    """one round-trip step on a string containing every letter and every ignored character, then one rejection
    step for each character of `outsiders`"""
    steps = []
    syms = alphabet + ignore
    st = {'kind': 'ohe', 'alphabet': list(alphabet), 'ignore': list(ignore), 's': _str_with(rng, syms, syms, rng.randint(0, 4)),
          'dtype': _dn(DTYPES[k % len(DTYPES)]), 'variants': k % 2 == 0}
    if shared:
        st['shared'] = True
    if k % 3 == 1:
        st['scribble'] = True
    omit = []
    if dna_defaults and alphabet == ACGT:
        omit.append('alphabet')
        if ignore == ['N']:
            omit.append('ignore')
        if k % 2:
            omit.append('dtype')
        st['omit'] = omit
    steps.append(st)
    if st.get('scribble') or k % 4 == 3:
        steps.append(dict(st, scribble=False))           # the identical call again
    for o in outsiders:
        base = _str_with(rng, [], syms, rng.randint(0, 5))
        p = rng.randint(0, len(base))
        r = {'kind': 'reject', 'alphabet': list(alphabet), 'ignore': list(ignore), 's': base[:p] + o + base[p:]}
        if shared:
            r['shared'] = True
        if omit:
            r['omit'] = [x for x in omit if x != 'dtype']
        steps.append(r)
    return steps


def _hist_ignore(rng, alphabet, dna_defaults=False, shared=False, n_steps=9):
    """one alphabet, the ignore set changes from call to call (subsets of a pool of 4 characters); a character that
    was ignored in an earlier call and is not in the current ignore set must be rejected"""
    cand = [chr(c) for c in range(33, 127) if chr(c) not in alphabet and chr(c) != 'N']
    pool = rng.sample(cand, 4)
    if 'N' not in alphabet:
        pool[0] = 'N'
    plan = [pool[:2], [], pool[:1], pool[2:], pool[1:2], list(pool), []]
    if dna_defaults:
        plan = [['N']] + plan[:3] + [['N']] + plan[3:] + [['N']]
    while len(plan) < n_steps:
        plan.append(rng.sample(pool, rng.randint(0, 3)))
    steps = []
    for k, ign in enumerate(plan):
        outs = [c for c in pool if c not in ign]
        steps += _ohe_steps(rng, alphabet, ign, outs, k, dna_defaults, shared)
    return {'kind': 'history', 'steps': steps}


def _hist_partition(rng, shared=False, n_steps=12):
    """a universe of 3-5 characters; every call splits it anew into letters (ordered), ignored characters and
    outside characters - so the same letters return in another order, with other ignore sets, as sub- and
    super-alphabets, and a former letter / ignored character becomes an outside character and vice versa"""
    U = _rand_alphabet(rng, rng.randint(3, 5), lo=33)
    steps = []
    for k in range(n_steps):
        u = list(U)
        rng.shuffle(u)
        a = rng.randint(1, len(u))
        alphabet, rest = u[:a], u[a:]
        i = rng.randint(0, min(2, len(rest)))
        steps += _ohe_steps(rng, alphabet, rest[:i], rest[i:], k, False, shared)
    return {'kind': 'history', 'steps': steps}


def _hist_revcomp(rng, dna=False, shared=False, n_steps=10):
    """one set of letters; the complement map (and sometimes the order of its keys) changes from call to call"""
    base = list(ACGT) if dna else _rand_alphabet(rng, rng.randint(2, 6), lo=33)
    steps = []
    for k in range(n_steps):
        alphabet = list(base)
        if not dna and k % 3 == 2:
            rng.shuffle(alphabet)
        if dna and k % 3 == 0:
            partner, default = ['T', 'G', 'C', 'A'], True
        else:
            if dna and k % 3 == 1:
                alphabet = rng.sample(ACGT, 4)
            partner, default = _rand_involution(rng, alphabet), False
        syms = alphabet + (['N'] if 'N' not in alphabet else [])
        st = {'kind': 'revcomp', 'alphabet': alphabet, 'partner': partner, 'default': default,
              's': _str_with(rng, alphabet, syms, rng.randint(0, 4)), 'dtype': _dn(DTYPES[k % len(DTYPES)]), 'coded': k % 2 == 0}
        if shared and not default:
            st['shared'] = True
        steps.append(st)
        if k % 3 == 1:
            st['scribble'] = True
            steps.append(dict(st, scribble=False))       # the identical call again
    return {'kind': 'history', 'steps': steps}


def _hist_mixed(rng):
    """steps of an ignore-set history, a complement-map history (both on the DNA alphabet, with default arguments)
    and a few chunk / unchunk calls, interleaved in their original relative order"""
    parts = [_hist_ignore(rng, list(ACGT), dna_defaults=True)['steps'], _hist_revcomp(rng, dna=True)['steps'], []]
    for j in range(6):
        size = rng.randint(1, 12)
        overlap = rng.randint(0, size - 1)
        parts[2].append({'kind': 'chunk', 'size': size, 'overlap': overlap, 'rows': rng.randint(1, 4), 'dtype': 'int64',
                         'lengths': [_length_for(rng, size, overlap, rng.choice([1, 2, 3, 5])) for _ in range(rng.randint(1, 4))],
                         'lform': ['list', 'numpy', 'tensor'][j % 3], 'xform': 'tensor', 'layout': ['contig', 'T'][j % 2],
                         'scribble': j % 2 == 0})
    order = [q for q, part in enumerate(parts) for _ in part]
    rng.shuffle(order)
    its = [iter(part) for part in parts]
    return {'kind': 'history', 'steps': [next(its[q]) for q in order]}


def _run_history(rep, lim):
    rng, thorough = rep.rng, rep.tier == 'thorough'
    hists = [('ignore-dna-defaults', _hist_ignore(rng, list(ACGT), dna_defaults=True)),
             ('ignore-dna', _hist_ignore(rng, list(ACGT))),
             ('ignore-dna-shared', _hist_ignore(rng, list(ACGT), shared=True))]
    for rnd in range(4 if thorough else 1):
        for A in range(1, 9):
            hists.append(('ignore', _hist_ignore(rng, _rand_alphabet(rng, A, lo=33), shared=(A + rnd) % 2 == 0)))
    for k in range(60 if thorough else 12):
        hists.append(('partition', _hist_partition(rng, shared=k % 3 == 0)))
    for k in range(40 if thorough else 8):
        hists.append(('revcomp', _hist_revcomp(rng, dna=k % 2 == 0, shared=k % 4 >= 2)))
    for k in range(10 if thorough else 2):
        hists.append(('mixed', _hist_mixed(rng)))
    before, fresh_left, long_left, unstored = [], 2, 2, 0
    for h, (name, case) in enumerate(hists):
        if rep.out_of_time():
            rep.note('time budget reached in the call histories')
            return
        v = _history_violations(case)
        for k, st in enumerate(case['steps']):
            rep.case(('hist', name, h, k), section='history-' + name.split('-')[0], sample=case if k == 0 and h in (0, 11) else None)
        if v:
            # what is stored must fail when replayed in a FRESH process.  Re-running a shorter history here proves
            # nothing (this process already carries the state left by the calls made so far), so: the history cut
            # after its first failing step is tried in a fresh interpreter (at most twice per run); if that does
            # not reproduce, everything called since the start of the run up to that step is stored instead.
            cut = v[0][0] + 1
            sub = {'kind': 'history', 'steps': case['steps'][:cut]}
            fv = None
            if fresh_left > 0:
                fresh_left -= 1
                fv = _fresh_replay(sub)
            if fv:
                lim.report(fv, sub, None)
            elif fv is None and not before:
                lim.report(_fmt_hist([x for x in v if x[0] < cut]), sub, None)
            elif long_left > 0:
                long_left -= 1
                if fv is not None:
                    rep.note('history %d (%s) fails only after the histories before it' % (h, name))
                lim.report(_fmt_hist([x for x in v if x[0] < cut], len(before)), {'kind': 'history', 'steps': before + case['steps'][:cut]}, None)
            else:
                unstored += 1
        before = before + case['steps']
    if unstored:
        rep.note('%d further call histories failed (not stored)' % unstored)


def run(rep):
    torch.set_num_threads(1)
    lim = _Lim(rep)
    # call histories first (cheap, and state left behind by them is seen by everything that follows), then chunk
    # (cheap), then the other sections
    _run_history(rep, lim)
    _run_chunk(rep, lim)
    _run_revcomp(rep, lim)
    _run_ohe(rep, lim)
    lim.finish()


_STEP.update({'ohe': check_ohe, 'reject': check_reject, 'revcomp': check_revcomp, 'chunk': check_chunk})


def replay(case):
    k = case.get('kind')
    if k == 'history':
        return check_history(case)
    if k == 'ohe':
        return check_ohe(case)
    if k == 'reject':
        return check_reject(case)
    if k == 'revcomp':
        return check_revcomp(case)
    if k == 'chunk':
        return check_chunk(case)
    return ['unknown replay kind']
