"""Bounded stand-in for C16 (loaders: extract_loci, read_meme) — never counted as proved.

extract_loci.  A seeded synthetic "world" (2-4 chromosomes of 60-300 bp with lower-case runs and N
runs, four integer-valued signal tracks and one with negative / fractional values) is written as FASTA + bigWig files and also kept in
memory (one-hot numpy arrays built by a plain Python loop, numpy signal arrays).  For every case
the oracle, written from the property statement, walks the loci in input order (round-robin over
the locus sets) and classifies each one:

    mid = start + (end - start) // 2
    in  window = [mid - in//2  - jitter, mid + in//2  + in%2  + jitter)
    out window = [mid - out//2 - jitter, mid + out//2 + out%2 + jitter)      (only if signals are given)
    OMIT  if the chromosome is excluded, if the union of the windows crosses a chromosome end (it
          cannot be extracted exactly), or if the summed target signal over the out window is
          < min_counts or > max_counts;
    MAY   (either outcome allowed) if the union window touches a chromosome end (lo == 0 or hi == len);
    KEEP  otherwise.

The returned rows must be, in order, exactly the expected rows of all KEEP loci and any subset of
the MAY loci (decided by a small dynamic programme over row contents), truncated to the first
n_loci kept rows when a cap is given.  Expected rows are direct slices of the generated genome
strings (upper-cased, N = all-zero column) and signal arrays.  Every case is evaluated with file
inputs and with in-memory inputs (and mixed), each compared with the same oracle, and all forms
of one case must return the same rows (the MAY loci included).  in_signals (not named in the statement) are checked as the
in-window slice of their tracks because their rows must stay aligned with the sequences.

Not asserted: the order when `chroms` is combined with several locus sets is accepted both as
"filter, then interleave" (documented behaviour) and "interleave, then filter"; the result when
no locus is kept (the pinned tree raises in numpy.stack); DataFrames whose first column is not
called 'chrom'; out_window > in_window when only in_signals are given.

read_meme.  Generated MEME files (1-6 motifs, widths 1-12, with / without header blocks, URL lines,
blank or whitespace-only lines, no line at all between motifs, optional blank line between the MOTIF
line and the matrix header, nsites/E fields or not, tabs / multiple spaces / trailing spaces in
rows, every end-of-file layout, LF / CRLF).  Expected: the keys, in file order, are the text after
'MOTIF ' (compared modulo surrounding whitespace), each value is a (4, w) tensor with
value[c, i] == float(token c of row i) exactly.  n_motifs is not part of the statement and is
not used.

Audit extension (what the first version did not exercise or tolerated):

  * "identically whether sequences and signals are supplied as files or as in-memory arrays" was only implied
    by comparing every form with the same oracle - but the oracle accepts either outcome for a locus whose
    window touches a chromosome end (MAY), so a file path and an array path that treat such a locus differently
    both passed.  Now every pair of forms of one case must return the same rows (values, not dtypes), and
    a form that raises while another one returns rows is a violation.
  * the input objects (DataFrames, BED paths, in-memory dicts) are built once per case and shared by all
    forms, and the first form is evaluated a second time at the end: an implementation that edits its inputs or
    keeps state between calls shows up as a wrong second result (replayable: the case is self-contained).
  * DataFrames only ever had the default RangeIndex, int64 columns, were passed in a list; now also reversed /
    duplicate / unsorted-integer / string indexes, int32 columns, a tuple of sets, an empty (0-row) set among
    several, 4 sets, exact duplicate loci within and across sets, zero-length loci (start == end).
  * signals were non-negative integers only: track 4 holds negative and fractional (multiples of 1/8, exact in
    float32) values; min_counts / max_counts are also placed at exactly 0 (target tracks with zero / negative
    window sums), in_window / out_window 1-3 and jitter 9 are drawn more often.
  * in-memory sequences were int8 only: now int8 / float32 / int64 / bool arrays and read-only numpy.memmap
    (documented "numpy arrays or memory maps"), memmap signals; signals and in_signals may come from
    different kinds (bigWig + dict) in one call; verbose=True (progress bar on a swallowed stderr).
  * read_meme: motifs with a "log-odds matrix" block or rule / comment lines between the MOTIF line and the
    letter-probability line (the MEME text output layout), widths 13-30, consecutive motifs of equal width
    (buffer re-use), two more end-of-file layouts (whitespace-only last line with newline, tab without).

Still not asserted (see above) and unchanged: the "filter, then interleave" / "interleave, then filter" order
alternative with `chroms`, the empty selection, out_window > in_window with in_signals only.

POSSIBLE DEFECT (kept behind CHECK_UNNAMED_COLUMNS = False, not evaluated):
    extract_loci selects the first three DataFrame columns by position (df.iloc[:, [0, 1, 2]]) but then
    concatenates the sets by column NAME and filters on df['chrom'].  Input:
        a = pandas.DataFrame({'a': ['c'], 'b': [20], 'c': [30]});  b = pandas.DataFrame({'chrom': ['c'], 'start': [40], 'end': [44]})
        extract_loci([a, b], {'c': ohe_4x100}, in_window=4)      -> ValueError: too many values to unpack (expected 3)
        extract_loci(a, {'c': ohe_4x100}, chroms=['c'], in_window=4) -> KeyError: 'chrom'
    (a alone without chroms works).  The statement does not mention column names, the docstring only says "three
    columns: the chromosome, the start, and the end", so this is recorded, not asserted.
"""
import contextlib
import io
import os
import random
import shutil
import tempfile
import warnings

import numpy
import pandas
import torch

from tangermeme.io import extract_loci, read_meme

SCOPE = {
    'quick': 'extract_loci: 12 seeded worlds (2-4 chromosomes of 60-300 bp, lower-case and N runs, 5 signal tracks: 4 integer, 1 with '
             'negative and fractional values) x 80 seeded cases each: in/out windows 1-40 (odd/even, in <, =, > out, 1-3 over-weighted), '
             'jitter 0-9, 1-4 locus sets of 0-12 loci (DataFrame with default / reversed / duplicate / unsorted / string index, int64 or '
             'int32 columns, or BED file; list, tuple or bare) with loci placed at random and with the union window at -1, 0, +1 of both '
             'chromosome ends, exact duplicate loci, zero-length loci, chroms None or a subset, 0-3 signals, 0-2 in_signals, min/max '
             'counts at observed sums (incl. equality) and at exactly 0, target_idx, n_loci caps, verbose; every case with (FASTA, bigWig), '
             '(dict, dict), one mixed form (incl. bigWig signals + dict in_signals), one memmap / other-dtype in-memory form and a '
             'repeated call on the same input objects; all forms of a case must return identical rows; read_meme: 600 generated files '
             '(widths 1-30, log-odds / comment blocks before the matrix) + every combination of 6 separator layouts x 9 end-of-file '
             'layouts x LF/CRLF on 2-motif files',
    'thorough': 'extract_loci: 60 worlds x 100 cases, same generators, forms and cross-form identity as in quick; read_meme: 8000 generated files '
                '(widths 1-30, log-odds / comment blocks) + the full 6 x 9 x 2 layout grid on 1-, 2- and 3-motif files',
}

# see POSSIBLE DEFECT in the module docstring; when True, every second DataFrame gets columns named ('a', 'b', 'c')
CHECK_UNNAMED_COLUMNS = False

MAX_PER_FINDING = 20


def _exc(e):
    return '%s: %s' % (type(e).__name__, str(e)[:90])


def _tmpdir():
    base = os.environ.get('VERIF_TMP')
    if base and not os.path.isdir(base):
        base = None
    return tempfile.mkdtemp(prefix='bw_C16_', dir=base)


# ----------------------------------------------------------------------------------------------
# synthetic world
# ----------------------------------------------------------------------------------------------

CHROM_NAMES = ['chr1', 'chr2', 'chr3', 'chrX', 'chrM', 'scaffold_7']
N_TRACKS = 5
_WORLDS = {}


class World:
    def __init__(self, gseed):
        rng = random.Random(('world', gseed).__repr__())
        self.gseed = gseed
        self.chroms = rng.sample(CHROM_NAMES, rng.randint(2, 4))
        self.seq, self.sig = {}, [dict() for _ in range(N_TRACKS)]
        for ci, c in enumerate(self.chroms):
            L = rng.randint(60, 300)
            s = []
            while len(s) < L:
                r = rng.random()
                if r < 0.55:
                    s += [rng.choice('ACGT') for _ in range(rng.randint(5, 40))]
                elif r < 0.8:
                    s += [rng.choice('acgt') for _ in range(rng.randint(3, 20))]
                elif r < 0.95:
                    s += ['N'] * rng.randint(1, 12)
                else:
                    s += ['n'] * rng.randint(1, 4)
            self.seq[c] = ''.join(s[:L])
            t0 = [0 if rng.random() < 0.3 else rng.randint(1, 20) for _ in range(L)]
            t1 = [(ci + 1) * 10000 + p for p in range(L)]
            t2 = [rng.randint(0, 1000) for _ in range(L)]
            t3 = [(p * 7 + ci) % 13 for p in range(L)]
            for t, v in enumerate((t0, t1, t2, t3)):
                self.sig[t][c] = v
        # track 4: negative and fractional values (multiples of 1/8: exact in float32, so the bigWig holds
        # exactly these numbers and window sums are exact), with runs of zeros
        for ci, c in enumerate(self.chroms):
            L = len(self.seq[c])
            self.sig[4][c] = [0.0 if rng.random() < 0.25 else rng.randint(-40, 80) / 8.0 for _ in range(L)]
        self.dir = None
        self._ohe = None

    # in-memory forms (independent of tangermeme)
    def ohe_dict(self, dtype=numpy.int8):
        if self._ohe is None:
            d = {}
            for c, s in self.seq.items():
                a = numpy.zeros((4, len(s)), dtype=numpy.int8)
                for p, ch in enumerate(s.upper()):
                    if ch in 'ACGT':
                        a['ACGT'.index(ch), p] = 1
                d[c] = a
            self._ohe = d
        return {c: a.astype(dtype) for c, a in self._ohe.items()}      # fresh arrays for every case

    def memmaps(self, what):
        """read-only numpy.memmap forms: what = 'seq' -> {chrom: (4, L) int8}, what = track number -> {chrom: (L,) float64}"""
        d = self.files()
        out = {}
        for c in self.chroms:
            L = len(self.seq[c])
            if what == 'seq':
                path, dt, shape, src = os.path.join(d, 'seq_%s.mm' % c), numpy.int8, (4, L), None
            else:
                path, dt, shape, src = os.path.join(d, 'sig%d_%s.mm' % (what, c)), numpy.float64, (L,), self.sig[what][c]
            if not os.path.exists(path):
                m = numpy.memmap(path, dtype=dt, mode='w+', shape=shape)
                m[:] = self.ohe_dict()[c] if src is None else numpy.array(src, dtype=dt)
                m.flush()
                del m
            out[c] = numpy.memmap(path, dtype=dt, mode='r', shape=shape)
        return out

    def sig_dict(self, t, dtype):
        return {c: numpy.array(v, dtype=dtype) for c, v in self.sig[t].items()}

    # file forms
    def files(self):
        if self.dir is None:
            import pyBigWig
            self.dir = _tmpdir()
            rng = random.Random(('files', self.gseed).__repr__())
            with open(os.path.join(self.dir, 'genome.fa'), 'w') as f:
                for c in self.chroms:
                    w = rng.choice([7, 50, 60, 1000])
                    f.write('>%s%s\n' % (c, rng.choice(['', ' synthetic chromosome'])))
                    s = self.seq[c]
                    for k in range(0, len(s), w):
                        f.write(s[k:k + w] + '\n')
            for t in range(N_TRACKS):
                bw = pyBigWig.open(os.path.join(self.dir, 't%d.bw' % t), 'w')
                bw.addHeader([(c, len(self.seq[c])) for c in self.chroms])
                for c in self.chroms:
                    bw.addEntries(c, 0, values=[float(v) for v in self.sig[t][c]], span=1, step=1)
                bw.close()
        return self.dir

    def cleanup(self):
        if self.dir is not None:
            shutil.rmtree(self.dir, ignore_errors=True)
            self.dir = None


def _world(gseed):
    if gseed not in _WORLDS:
        _WORLDS[gseed] = World(gseed)
    return _WORLDS[gseed]


def _cleanup_worlds():
    for w in _WORLDS.values():
        w.cleanup()
    _WORLDS.clear()


# ----------------------------------------------------------------------------------------------
# extract_loci oracle
# ----------------------------------------------------------------------------------------------

def _windows(case, start, end):
    j = case['jitter']
    mid = start + (end - start) // 2
    iw, ow = case['in_window'], case['out_window']
    in_lo, in_hi = mid - iw // 2 - j, mid + iw // 2 + iw % 2 + j
    out_lo, out_hi = mid - ow // 2 - j, mid + ow // 2 + ow % 2 + j
    return (in_lo, in_hi), (out_lo, out_hi)


def _orders(case):
    """the admissible input orders of the loci (one, or two when chroms and several sets are combined)"""
    sets, chroms = case['sets'], case['chroms']

    def rr(ss):
        out = []
        for r in range(max([len(s) for s in ss] + [0])):
            for s in ss:
                if r < len(s):
                    out.append(tuple(s[r]))
        return out
    orders = [rr(sets)]
    if chroms is not None and len(sets) > 1:
        alt = rr([[l for l in s if l[0] in chroms] for s in sets])
        if [l for l in orders[0] if l[0] in chroms] != alt:
            orders.append(alt)
    return orders


def _expected(case, w, order):
    """list of (status, locus, seq(4 x W list), sig rows, insig rows) in input order"""
    sig_t, insig_t = case['sig_tracks'], case['insig_tracks']
    exp = []
    for chrom, start, end in order:
        (in_lo, in_hi), (out_lo, out_hi) = _windows(case, start, end)
        L = len(w.seq[chrom])
        lo, hi = (min(in_lo, out_lo), max(in_hi, out_hi)) if sig_t else (in_lo, in_hi)
        if case['chroms'] is not None and chrom not in case['chroms']:
            exp.append(('OMIT', (chrom, start, end), None, None, None))
            continue
        if lo < 0 or hi > L:
            exp.append(('OMIT', (chrom, start, end), None, None, None))
            continue
        status = 'MAY' if (lo == 0 or hi == L) else 'KEEP'
        sig = [w.sig[t][chrom][out_lo:out_hi] for t in sig_t]
        if sig_t:
            tot = sum(sig[case['target_idx']])
            if case['min_counts'] is not None and tot < case['min_counts']:
                status = 'OMIT'
            if case['max_counts'] is not None and tot > case['max_counts']:
                status = 'OMIT'
        s = w.seq[chrom][in_lo:in_hi].upper()
        seq = [[1 if ch == a else 0 for ch in s] for a in 'ACGT']
        insig = [w.sig[t][chrom][in_lo:in_hi] for t in insig_t]
        exp.append((status, (chrom, start, end), seq, sig, insig))
    return exp


def _match(exp, rows, cap):
    """can `rows` (list of comparable row contents) be obtained from exp (status, content) in order?"""
    n, m = len(exp), len(rows)
    if cap is not None and m > cap:
        return False
    full = cap is not None and m == cap
    memo = {}

    def f(i, j):
        if (i, j) in memo:
            return memo[(i, j)]
        if j == m and full:
            r = True
        elif i == n:
            r = j == m
        else:
            st, content = exp[i]
            r = False
            if st != 'OMIT' and j < m and content == rows[j]:
                r = f(i + 1, j + 1)
            if not r and st != 'KEEP':
                r = f(i + 1, j)
        memo[(i, j)] = r
        return r
    import sys
    sys.setrecursionlimit(max(sys.getrecursionlimit(), 10000))
    return f(0, 0)


SEQ_DTYPES = {'int8': numpy.int8, 'float32': numpy.float32, 'int64': numpy.int64, 'bool': numpy.bool_}


def _norm_form(form):
    """(seqform, sigform[, insigform]); seqform: 'fasta' | 'dict' | 'memmap' | 'dict:<dtype>'; sig forms: 'bw' | 'dict' | 'memmap'"""
    form = list(form)
    if len(form) == 2:
        form.append(form[1])
    return form


class _Inputs:
    """the input objects of one case, built once and shared by every form evaluated for the case"""

    def __init__(self, case, w):
        self.case, self.w = case, w
        self._loci = None
        self._seq, self._sig = {}, {}

    def loci(self):
        if self._loci is not None:
            return self._loci
        case, w = self.case, self.w
        d = w.files() if 'bed' in case['set_forms'] else None
        loci = []
        idxs = case.get('set_index') or [None] * len(case['sets'])
        dt = numpy.int32 if case.get('int32') else numpy.int64
        for k, (s, form) in enumerate(zip(case['sets'], case['set_forms'])):
            if form == 'bed':
                path = os.path.join(d, 'loci_%d_%d.bed' % (case['cseed'], k))
                extra = k % 2 == 1
                with open(path, 'w') as f:
                    for c, a, b in s:
                        f.write('%s\t%d\t%d%s\n' % (c, a, b, '\tpeak\t7' if extra else ''))
                loci.append(path)
            else:
                df = pandas.DataFrame({'chrom': pandas.Series([l[0] for l in s], dtype=object) if not s else [l[0] for l in s],
                                       'start': numpy.array([int(l[1]) for l in s], dtype=dt),
                                       'end': numpy.array([int(l[2]) for l in s], dtype=dt)})
                if k % 2 == 0:
                    df['name'] = ['l%d' % i for i in range(len(df))]
                if idxs[k] is not None:
                    df.index = list(idxs[k])
                if CHECK_UNNAMED_COLUMNS and k % 2 == 1:
                    df.columns = ['a', 'b', 'c'] + list(df.columns[3:])
                loci.append(df)
        if len(loci) == 1 and case.get('bare', False):
            loci = loci[0]
        elif case.get('container') == 'tuple':
            loci = tuple(loci)
        self._loci = loci
        return loci

    def seqs(self, seqform):
        if seqform not in self._seq:
            w = self.w
            if seqform == 'fasta':
                self._seq[seqform] = os.path.join(w.files(), 'genome.fa')
            elif seqform == 'memmap':
                self._seq[seqform] = w.memmaps('seq')
            else:
                dtype = SEQ_DTYPES[seqform.split(':')[1]] if ':' in seqform else numpy.int8
                self._seq[seqform] = w.ohe_dict(dtype)
        return self._seq[seqform]

    def track(self, t, sigform):
        if (t, sigform) not in self._sig:
            w = self.w
            dts = [numpy.float64, numpy.float32, numpy.int64]
            if sigform == 'bw':
                v = os.path.join(w.files(), 't%d.bw' % t)
            elif sigform == 'memmap':
                v = w.memmaps(t)
            else:
                # track 4 is fractional: never as integers
                v = w.sig_dict(t, dts[(t + self.case['cseed']) % (2 if t == 4 else 3)])
            self._sig[(t, sigform)] = v
        return self._sig[(t, sigform)]


def _call(case, w, form, inp=None):
    seqform, sigform, insigform = _norm_form(form)
    inp = inp or _Inputs(case, w)
    loci = inp.loci()
    seqs = inp.seqs(seqform)

    def tracks(ts, f):
        return [inp.track(t, f) for t in ts] if ts else None
    kw = dict(signals=tracks(case['sig_tracks'], sigform), in_signals=tracks(case['insig_tracks'], insigform), chroms=case['chroms'],
              in_window=case['in_window'], max_jitter=case['jitter'], min_counts=case['min_counts'],
              max_counts=case['max_counts'], target_idx=case['target_idx'], n_loci=case['n_loci'])
    if case['out_window'] is not None:
        kw['out_window'] = case['out_window']
    if case.get('verbose'):
        kw['verbose'] = True
    with warnings.catch_warnings():
        warnings.simplefilter('ignore')
        with contextlib.redirect_stderr(io.StringIO()):
            return extract_loci(loci, seqs, **kw)


def _describe(exp, rows, parts):
    """first disagreement of a greedy alignment, for the message"""
    j = 0
    for st, locus, content in exp:
        if st == 'OMIT':
            continue
        if j < len(rows) and content == rows[j]:
            j += 1
            continue
        if st == 'KEEP':
            got = 'no further row' if j >= len(rows) else 'row %d = %s' % (j, _short(rows[j]))
            return 'locus %s must be kept: expected %s, got %s' % (locus, _short(content), got)
    if j < len(rows):
        return 'row %d = %s is not the window of any remaining locus' % (j, _short(rows[j]))
    return 'rows do not align with the loci'


def _short(content):
    seq = content[0]
    s = ''.join(('ACGT'[[seq[a][p] for a in range(4)].index(1)] if sum(seq[a][p] for a in range(4)) == 1 else
                 ('N' if sum(seq[a][p] for a in range(4)) == 0 else '?')) for p in range(len(seq[0]))) if seq and seq[0] is not None else ''
    txt = 'seq %s' % s
    if len(content) > 1 and content[1]:
        txt += ' sig0 %s' % (content[1][0][:8],)
    return txt[:200]


def check_loci(case):
    """case: see _gen_loci_case; evaluates every (seqform, sigform) in case['forms']"""
    out = []
    w = _world(case['gseed'])
    case = dict(case)
    if case.get('out_window') is None:
        # the function's default out_window (1000) must be irrelevant without signals
        assert not case['sig_tracks'] and not case['insig_tracks']
        case_o = dict(case, out_window=1000)
    else:
        case_o = case
    orders = _orders(case_o)
    exps = [_expected(case_o, w, o) for o in orders]
    ns, ni = len(case['sig_tracks']), len(case['insig_tracks'])
    W_in = case['in_window'] + 2 * case['jitter']
    W_out = (case_o['out_window'] + 2 * case['jitter'])
    n_keep = min(sum(1 for e in exp if e[0] == 'KEEP') for exp in exps)
    inp = _Inputs(case, w)
    forms = [_norm_form(f) for f in case['forms']]
    if case.get('repeat', False) and forms:
        forms.append(forms[0])          # second call on the very same input objects
    results = []                        # (tag, rows or None when the call raised)
    for fi, form in enumerate(forms):
        tag = '[%s%s] ' % ('/'.join(form), ', repeated call' if fi == len(case['forms']) else '')
        try:
            res = _call(case, w, form, inp)
        except Exception as e:
            results.append((tag, None, _exc(e)))
            if n_keep == 0:
                continue        # nothing has to be kept: the result for an empty selection is not asserted
            out.append(tag + 'extract_loci raised %s although %d loci must be kept' % (_exc(e), n_keep))
            continue
        parts = [res] if isinstance(res, torch.Tensor) else list(res)
        if len(parts) != 1 + (ns > 0) + (ni > 0) or not all(isinstance(p, torch.Tensor) for p in parts):
            out.append(tag + 'returned %d objects, expected %d tensors' % (len(parts), 1 + (ns > 0) + (ni > 0)))
            continue
        X = parts[0]
        S = parts[1] if ns else None
        I = parts[-1] if ni else None
        n = X.shape[0]
        bad_shape = (tuple(X.shape[1:]) != (4, W_in) or (S is not None and tuple(S.shape) != (n, ns, W_out))
                     or (I is not None and tuple(I.shape) != (n, ni, W_in)))
        if bad_shape:
            out.append(tag + 'shapes %s, expected (n, 4, %d)%s%s' % ([tuple(p.shape) for p in parts], W_in,
                       ', (n, %d, %d)' % (ns, W_out) if ns else '', ', (n, %d, %d)' % (ni, W_in) if ni else ''))
            continue
        Xl = X.to(torch.float64).tolist()
        Sl = S.to(torch.float64).tolist() if S is not None else None
        Il = I.to(torch.float64).tolist() if I is not None else None
        rows = [(Xl[r], Sl[r] if Sl is not None else [], Il[r] if Il is not None else []) for r in range(n)]
        results.append((tag, rows, None))
        ok = False
        for exp in exps:
            e2 = [(st, ([[float(v) for v in a] for a in seq], [[float(v) for v in a] for a in sig], [[float(v) for v in a] for a in insig])
                   if st != 'OMIT' else None) for st, locus, seq, sig, insig in exp]
            if _match(e2, rows, case['n_loci']):
                ok = True
                break
        if not ok:
            exp = exps[0]
            e3 = [(st, locus, ([[float(v) for v in a] for a in seq], [[float(v) for v in a] for a in sig], [[float(v) for v in a] for a in insig])
                   if st != 'OMIT' else None) for st, locus, seq, sig, insig in exp]
            out.append(tag + 'returned rows are not the expected windows in input order (%d rows; %d KEEP, %d MAY, cap %s): %s'
                       % (n, sum(1 for e in exp if e[0] == 'KEEP'), sum(1 for e in exp if e[0] == 'MAY'), case['n_loci'], _describe(e3, rows, parts)))
    # "identically whether sequences and signals are supplied as files or as in-memory arrays": the oracle above
    # leaves the loci that touch a chromosome end open, the forms must still agree with each other on them
    ref = next((r for r in results if r[1] is not None), None)
    if ref is not None:
        for tag, rows, err in results:
            if rows is None:
                if len(ref[1]) > 0:
                    out.append('%sand %sdiffer: the first raised %s, the second returned %d rows' % (tag, ref[0], err, len(ref[1])))
            elif rows != ref[1]:
                k = next((i for i in range(min(len(rows), len(ref[1]))) if rows[i] != ref[1][i]), min(len(rows), len(ref[1])))
                out.append('%sand %sreturn different rows for the same loci (%d vs %d rows, first difference at row %d: %s vs %s)'
                           % (tag, ref[0], len(rows), len(ref[1]), k, _short(rows[k]) if k < len(rows) else 'none',
                              _short(ref[1][k]) if k < len(ref[1]) else 'none'))
    return out


def _gen_loci_case(rng, gseed, cseed):
    w = _world(gseed)
    ns = rng.choice([0, 1, 1, 2, 3])
    ni = rng.choice([0, 0, 0, 1, 2])
    rel = rng.choice(['<', '>', '=', 'any'])
    iw = rng.randint(1, 40) if rng.random() < 0.8 else rng.randint(1, 3)
    ow = rng.randint(1, 40) if rng.random() < 0.8 else rng.randint(1, 3)
    if rel == '<' and iw >= ow:
        iw, ow = min(iw, ow), max(iw, ow) + 1
    elif rel == '>' and iw <= ow:
        iw, ow = max(iw, ow) + 1, min(iw, ow)
    elif rel == '=':
        ow = iw
    if ns == 0 and ni > 0:
        ow = min(ow, iw)
    jitter = rng.choice([0, 0, 0, 0, 1, 1, 2, 2, 5, 5, 9])
    sig_tracks = rng.sample(range(N_TRACKS), ns)
    insig_tracks = rng.sample(range(N_TRACKS), ni)
    # count filters at exactly 0: a target track whose window sums are 0 / negative for some loci (tracks 0 and 4)
    zero_filter = None
    if ns > 0 and rng.random() < 0.15:
        zero_filter = rng.choice(['max0', 'max0', 'min0', 'both0'])
        t = 4 if zero_filter != 'max0' else rng.choice([0, 4])
        sig_tracks = [t] + [x for x in sig_tracks if x != t][:ns - 1]
        rng.shuffle(sig_tracks)
        ow = rng.randint(1, 3)
        if rel == '=':
            iw = ow
    out_window = ow
    if ns == 0 and ni == 0 and rng.random() < 0.5:
        out_window = None if rng.random() < 0.5 else rng.choice([ow, 1000])
    eff_ow = ow if ns > 0 else None
    lo_off = max(iw // 2, (eff_ow // 2) if eff_ow else 0) + jitter
    hi_off = max(iw // 2 + iw % 2, (eff_ow // 2 + eff_ow % 2) if eff_ow else 0) + jitter
    nsets = rng.choice([1, 1, 1, 2, 2, 2, 3, 3, 4])
    sets = []
    for _ in range(nsets):
        s = []
        for _ in range(rng.randint(1, 12)):
            c = rng.choice(w.chroms)
            L = len(w.seq[c])
            kind = rng.choice(['rand', 'rand', 'rand', 'rand', 'L-1', 'L0', 'L+1', 'R-1', 'R0', 'R+1'])
            if kind == 'rand':
                mid = rng.randint(0, L - 1)
            elif kind[0] == 'L':
                mid = {'L-1': -1, 'L0': 0, 'L+1': 1}[kind] + lo_off
            else:
                mid = L + {'R-1': -1, 'R0': 0, 'R+1': 1}[kind] - hi_off
            mid = max(0, min(L - 1, mid))
            ln = rng.randint(1, 30) if rng.random() < 0.93 else 0        # zero-length locus: midpoint = start
            ln = min(ln, 2 * mid + 1)
            start = mid - ln // 2
            s.append([c, start, start + ln])
        sets.append(s)
    # exact duplicates of a locus, in the same set and in another set: every occurrence is a row
    if rng.random() < 0.3:
        for _ in range(rng.randint(1, 3)):
            src = rng.choice(sets)
            dst = rng.choice(sets)
            dst.insert(rng.randint(0, len(dst)), list(rng.choice(src)))
    set_forms = [rng.choice(['df', 'bed']) for _ in sets]
    # one empty set among several (a 0-row DataFrame; an empty BED file is not readable by pandas)
    if nsets > 1 and rng.random() < 0.08:
        k = rng.randrange(nsets)
        sets[k] = []
        set_forms[k] = 'df'
    # DataFrame row labels are not positions
    set_index = []
    for s_, f_ in zip(sets, set_forms):
        n = len(s_)
        kind = rng.choice(['default', 'default', 'rev', 'dup', 'off', 'str']) if f_ == 'df' else 'default'
        if kind == 'default':
            set_index.append(None)
        elif kind == 'rev':
            set_index.append(list(range(n - 1, -1, -1)))
        elif kind == 'dup':
            set_index.append([rng.choice([0, 0, 1, 3]) for _ in range(n)])
        elif kind == 'off':
            set_index.append(rng.sample(range(0, 10 * n + 50), n))
        else:
            lab = ['r%d' % i for i in range(n)]
            rng.shuffle(lab)
            set_index.append(lab)
    chroms = None
    if rng.random() < 0.4:
        chroms = rng.sample(w.chroms, rng.randint(1, len(w.chroms) - 1))
        chroms = [c for c in w.chroms if c in chroms] if rng.random() < 0.5 else chroms
    case = {'kind': 'loci', 'gseed': gseed, 'cseed': cseed, 'sets': sets, 'set_forms': set_forms, 'set_index': set_index,
            'int32': rng.random() < 0.2, 'container': rng.choice(['list', 'list', 'tuple']),
            'bare': rng.random() < 0.5, 'chroms': chroms, 'in_window': iw, 'out_window': out_window, 'jitter': jitter,
            'sig_tracks': sig_tracks, 'insig_tracks': insig_tracks, 'min_counts': None, 'max_counts': None, 'target_idx': 0,
            'n_loci': None, 'verbose': rng.random() < 0.1, 'repeat': True}
    if zero_filter is not None:
        case['target_idx'] = sig_tracks.index(4) if 4 in sig_tracks and zero_filter != 'max0' else \
            next(i for i, t in enumerate(sig_tracks) if t in (0, 4))
        if zero_filter in ('max0', 'both0'):
            case['max_counts'] = rng.choice([0, 0, 0.0])
        if zero_filter in ('min0', 'both0'):
            case['min_counts'] = rng.choice([0, 0, 0.0])
    elif ns > 0 and rng.random() < 0.6:
        case['target_idx'] = rng.randrange(ns)
        exp = _expected(case, w, _orders(case)[0])
        sums = sorted(sum(e[3][case['target_idx']]) for e in exp if e[0] != 'OMIT')
        if sums:
            r = rng.random()
            if r < 0.7:
                case['min_counts'] = rng.choice(sums) + rng.choice([0, 0, 1, -1, 0.5])
            if r > 0.4:
                case['max_counts'] = rng.choice(sums) + rng.choice([0, 0, 1, -1, 0.5])
    if rng.random() < 0.35:
        case['n_loci'] = rng.randint(1, max(1, sum(len(s) for s in sets)))
    mixed = rng.choice([['fasta', 'dict', 'dict'], ['dict', 'bw', 'bw'], ['fasta', 'bw', 'dict'], ['dict', 'dict', 'bw'],
                        ['fasta', 'dict', 'bw']])
    other = rng.choice([['memmap', 'memmap', 'memmap'], ['memmap', 'bw', 'memmap'], ['dict:float32', 'dict', 'memmap'],
                        ['dict:int64', 'memmap', 'dict'], ['dict:bool', 'dict', 'dict']])
    case['forms'] = [['fasta', 'bw', 'bw'], ['dict', 'dict', 'dict'], mixed, other]
    return case


class _Lim:
    def __init__(self, rep):
        self.rep, self.n = rep, {}

    def report(self, viol, case, finding):
        for what in viol:
            k = self.n.get(finding, 0)
            self.n[finding] = k + 1
            if k < MAX_PER_FINDING:
                self.rep.violation(what, case, finding=finding)

    def finish(self):
        for f, k in self.n.items():
            if k > MAX_PER_FINDING:
                self.rep.note('finding %s: %d failed clauses in total, first %d stored' % (f, k, MAX_PER_FINDING))


def _run_loci(rep, lim, budget_frac):
    thorough = rep.tier == 'thorough'
    n_worlds, n_cases = (60, 100) if thorough else (12, 80)
    t_stop = rep.budget_s * (1 - budget_frac)
    for wi in range(n_worlds):
        gseed = rep.seed * 1000 + wi
        for ci in range(n_cases):
            if rep.left() < t_stop:
                rep.note('extract_loci part stopped at world %d case %d to leave time for read_meme' % (wi, ci))
                _cleanup_worlds()
                return
            cseed = gseed * 1000 + ci
            case = _gen_loci_case(random.Random(('case', cseed).__repr__()), gseed, cseed)
            v = check_loci(case)
            w = _world(gseed)
            exp = _expected(dict(case, out_window=case['out_window'] or 1000), w, _orders(case)[0])
            nk = sum(1 for e in exp if e[0] == 'KEEP')
            sec = 'loci-%dsets-%s' % (len(case['sets']), 'sig' if case['sig_tracks'] else 'nosig')
            rep.case(('loci', cseed), nontrivial=nk > 0,
                     sample={k: case[k] for k in ('gseed', 'sets', 'set_forms', 'set_index', 'chroms', 'in_window', 'out_window', 'jitter', 'sig_tracks',
                                                  'min_counts', 'max_counts', 'n_loci', 'forms')},
                     section=sec)
            lim.report(v, case, None)
        _world(gseed).cleanup()
        _WORLDS.pop(gseed, None)
    _cleanup_worlds()


# ----------------------------------------------------------------------------------------------
# read_meme
# ----------------------------------------------------------------------------------------------

SEPS = ['blank', 'blank2', 'url', 'blank+url', 'spaces', 'none']
EOFS = ['nl', 'nonl', 'blank', 'blank2', 'url', 'url-nonl', 'spaces-nonl', 'spaces', 'tab-nonl']
HEADERS = ['full', 'min', 'compact']


def _meme_text(spec):
    """spec: {'header', 'crlf', 'motifs': [{'name', 'rows': [[tok x4]], 'gap', 'letter', 'rowfmt', 'sep'}], 'eof'}
    optional per motif: 'pre' = None | 'logodds' | 'rule' | 'logodds+blank': lines between the MOTIF line and the
    letter-probability line, none of which starts with 'letter' (the MEME text output prints a log-odds matrix first)
    -> (text, expected [(key, rows)])"""
    lines = []          # each entry is a complete line without terminator
    h = spec['header']
    if h == 'full':
        lines += ['MEME version 4', '', 'ALPHABET= ACGT', '', 'strands: + -', '', 'Background letter frequencies',
                  'A 0.25 C 0.25 G 0.25 T 0.25', '']
    elif h == 'min':
        lines += ['MEME version 4', '']
    else:
        lines += ['MEME version 5.0.5', 'ALPHABET= ACGT', 'strands: + -', 'Background letter frequencies (from uniform background):',
                  'A 0.25000 C 0.25000 G 0.25000 T 0.25000', '']
    expected = []
    nm = len(spec['motifs'])
    for k, m in enumerate(spec['motifs']):
        lines.append('MOTIF ' + m['name'] + m.get('name_trail', ''))
        if m['gap']:
            lines.append('')
        w = len(m['rows'])
        pre = m.get('pre')
        if pre in ('logodds', 'logodds+blank'):
            lines.append('log-odds matrix: alength= 4 w= %d E= 1.0e-003' % w)
            for r in m['rows']:
                lines.append(' ' + '  '.join('%5d' % int(round(100 * float(t)) - 25) for t in r))
            lines.append('-' * 40)
            if pre == 'logodds+blank':
                lines.append('')
        elif pre == 'rule':
            lines += ['-' * 40, '\tMotif %s position-specific probability matrix' % m['name'].split()[0], '-' * 40]
        lt = 'letter-probability matrix: alength= 4 w= %d' % w
        if m['letter'] == 'full':
            lt += ' nsites= 20 E= 0'
        elif m['letter'] == 'e':
            lt += ' nsites= 18 E= 1.2e-05'
        lines.append(lt)
        for r in m['rows']:
            fmt = m['rowfmt']
            if fmt == 'std':
                ln = ' ' + '  '.join(r)
            elif fmt == 'plain':
                ln = ' '.join(r)
            elif fmt == 'tab':
                ln = '\t'.join(r)
            elif fmt == 'trail':
                ln = '  ' + '  '.join(r) + '  '
            else:
                ln = ' '.join(r) + '\t'
            lines.append(ln)
        expected.append((m['name'].strip(), m['rows']))
        sep = m['sep'] if k < nm - 1 else spec['eof']
        if k < nm - 1:
            lines += {'blank': [''], 'blank2': ['', ''], 'url': ['URL http://example.org/%d' % k, ''],
                      'blank+url': ['', 'URL http://example.org/%d' % k, ''], 'spaces': ['   '], 'none': []}[sep]
    nl = '\r\n' if spec['crlf'] else '\n'
    eof = spec['eof']
    tail_lines, final_nl = {'nl': ([], True), 'nonl': ([], False), 'blank': ([''], True), 'blank2': (['', ''], True),
                            'url': (['URL http://example.org/last'], True), 'url-nonl': (['URL http://example.org/last'], False),
                            'spaces-nonl': (['  '], False), 'spaces': (['   '], True), 'tab-nonl': (['\t'], False)}[eof]
    lines += tail_lines
    text = nl.join(lines) + (nl if final_nl else '')
    return text, expected


def check_meme(case):
    """case: {'kind': 'meme', 'text': str, 'expected': [[key, [[tok, tok, tok, tok], ...]], ...]}"""
    out = []
    d = _tmpdir()
    try:
        path = os.path.join(d, 'm.meme')
        with open(path, 'w', newline='') as f:
            f.write(case['text'])
        try:
            res = read_meme(path)
        except Exception as e:
            return ['read_meme raised %s' % _exc(e)]
    finally:
        shutil.rmtree(d, ignore_errors=True)
    exp = case['expected']
    keys = [str(k).strip() for k in res.keys()]
    ekeys = [e[0] for e in exp]
    if keys != ekeys:
        missing = [k for k in ekeys if k not in keys]
        out.append('read_meme does not return every motif of the file, in file order, under the name of its MOTIF line: returned %s, the file contains %s (missing %s)' % (keys, ekeys, missing))
    for (k, v) in res.items():
        k = str(k).strip()
        if k not in ekeys:
            continue
        rows = exp[ekeys.index(k)][1]
        w = len(rows)
        if not isinstance(v, torch.Tensor) or tuple(v.shape) != (4, w):
            out.append('read_meme motif shape differs from (4, w) of the file: motif %s shape %s, expected (4, %d)' % (k, tuple(getattr(v, 'shape', ())), w))
            continue
        want = [[float(rows[i][c]) for i in range(w)] for c in range(4)]
        if v.to(torch.float64).tolist() != want:
            out.append('read_meme probabilities differ from the numbers in the file: motif %s got %s expected %s' % (k, v.tolist(), want))
    return out


def _rand_rows(rng, w):
    rows = []
    for _ in range(w):
        style = rng.random()
        if style < 0.5:
            x = [rng.random() for _ in range(4)]
            t = sum(x)
            rows.append(['%.6f' % (v / t) for v in x])
        elif style < 0.7:
            k = rng.randrange(4)
            rows.append(['1.000000' if c == k else '0.000000' for c in range(4)])
        elif style < 0.85:
            rows.append([repr(rng.random()) for _ in range(4)])
        else:
            rows.append([rng.choice(['0', '1', '0.25', '2.5e-01', '1e-3', '0.3333333333333333']) for _ in range(4)])
    return rows


def _gen_meme_spec(rng, nm=None, seps=None, eof=None, crlf=None, plain=False):
    nm = nm or rng.randint(1, 6)
    motifs = []
    width = None
    for k in range(nm):
        # widths: mostly 1-12, sometimes 13-30, and often the same as the previous motif (a re-used matrix buffer)
        if width is None or rng.random() > 0.3:
            width = rng.randint(1, 12) if rng.random() < 0.9 else rng.randint(13, 30)
        name = 'M%d_%s' % (k, ''.join(rng.choice('ABCDEFGHJK0123456789.') for _ in range(rng.randint(1, 6))))
        if rng.random() < 0.5:
            name += ' ' + rng.choice(['alt', 'GATA1', 'MA0035.1', 'x y'])
        motifs.append({'name': name, 'name_trail': '' if plain else rng.choice(['', '', ' ', '  ']),
                       'rows': _rand_rows(rng, width),
                       'pre': None if plain or rng.random() < 0.75 else rng.choice(['logodds', 'rule', 'logodds+blank']),
                       'gap': False if plain else rng.random() < 0.25,
                       'letter': rng.choice(['full', 'bare', 'e']),
                       'rowfmt': 'std' if plain else rng.choice(['std', 'plain', 'tab', 'trail', 'trailtab']),
                       'sep': (seps[k] if seps else rng.choice(SEPS)) if k < nm - 1 else None})
    return {'header': rng.choice(HEADERS), 'crlf': (rng.random() < 0.3) if crlf is None else crlf, 'motifs': motifs,
            'eof': eof or rng.choice(EOFS)}


def _meme_case(spec):
    text, expected = _meme_text(spec)
    return {'kind': 'meme', 'text': text, 'expected': [[k, r] for k, r in expected],
            'layout': {'seps': [m['sep'] for m in spec['motifs'][:-1]], 'eof': spec['eof'], 'crlf': spec['crlf']}}


def _small(m, name, sep):
    """the same motif layout with a short name and at most two rows (small stored cases)"""
    return dict(m, name=name, name_trail='', rows=m['rows'][:2], sep=sep)


def _report_meme(lim, spec, case, v):
    """attribute a failing file: (a) a one-motif file with the same end-of-file layout, (b) a two-motif file with
    no line between the motifs and a harmless end.  Whatever these do not explain is stored whole, without key."""
    if not v:
        return
    explained = False
    # a sub-file is attributed to a layout only if the same sub-file with the harmless layout passes
    if spec['eof'] in ('nl', 'nonl'):
        sub = dict(spec, motifs=[_small(spec['motifs'][-1], 'M1', None)])
        sc = _meme_case(sub)
        sv = check_meme(sc)
        if sv and not check_meme(_meme_case(dict(sub, eof='blank'))):
            lim.report(sv, sc, 'read_meme-last-motif-lost-when-file-ends-after-matrix')
            explained = True
    for k, m in enumerate(spec['motifs'][:-1]):
        if m['sep'] == 'none':
            m2 = _small(spec['motifs'][k + 1], 'M2', None)
            sub = dict(spec, motifs=[_small(m, 'M1', 'none'), m2], eof='blank')
            sc = _meme_case(sub)
            sv = check_meme(sc)
            if sv and not check_meme(_meme_case(dict(sub, motifs=[_small(m, 'M1', 'blank'), m2]))):
                lim.report(sv, sc, 'read_meme-motif-lost-without-line-between-motifs')
                explained = True
            break
    if explained:
        # does the file still fail once both layouts are made harmless?
        fixed = dict(spec, motifs=[dict(m, sep=('blank' if m['sep'] == 'none' else m['sep'])) for m in spec['motifs']],
                     eof='blank' if spec['eof'] in ('nl', 'nonl') else spec['eof'])
        fv = check_meme(_meme_case(fixed))
        if fv:
            lim.report(fv, _meme_case(fixed), None)
    else:
        lim.report(v, case, None)


def _run_meme(rep, lim):
    rng, thorough = rep.rng, rep.tier == 'thorough'
    # layout grid
    for nm in ((1, 2, 3) if thorough else (2,)):
        for sep in (SEPS if nm > 1 else [None]):
            for eof in EOFS:
                for crlf in (False, True):
                    if rep.out_of_time():
                        return
                    spec = _gen_meme_spec(rng, nm=nm, seps=[sep] * (nm - 1) if nm > 1 else None, eof=eof, crlf=crlf, plain=True)
                    case = _meme_case(spec)
                    v = check_meme(case)
                    rep.case(('meme-grid', nm, sep, eof, crlf), sample=case['layout'], section='read_meme-layout-grid')
                    _report_meme(lim, spec, case, v)
    rep.mark_exhaustive('read_meme: separator layout x end-of-file layout x LF/CRLF grid')
    for k in range(8000 if thorough else 600):
        if rep.out_of_time():
            rep.note('time budget reached in the random read_meme part after %d files' % k)
            return
        spec = _gen_meme_spec(rng)
        case = _meme_case(spec)
        v = check_meme(case)
        rep.case(('meme', case['text']), nontrivial=len(spec['motifs']) > 1, sample=case['layout'] if k < 2 else None, section='read_meme-random')
        _report_meme(lim, spec, case, v)


def run(rep):
    torch.set_num_threads(1)
    lim = _Lim(rep)
    try:
        _run_loci(rep, lim, budget_frac=0.7)
        _run_meme(rep, lim)
    finally:
        _cleanup_worlds()
    lim.finish()


def replay(case):
    k = case.get('kind')
    try:
        if k == 'loci':
            return check_loci(case)
        if k == 'meme':
            return check_meme(case)
    finally:
        _cleanup_worlds()
    return ['unknown replay kind']
