"""Bounded stand-in for C02 (shuffle / dinucleotide_shuffle) — never counted as proved.

Two kinds of checks, both against the REAL functions of tangermeme.ersatz:

 (a) kind 'call': one call of ersatz.shuffle / ersatz.dinucleotide_shuffle (the compiled walk) on a
     batch of sequences; the oracle is written from the statement on the returned tensor:
     shape (B, n, A, L); every output column one-hot; positions outside [start, end) identical to
     the input; inside the region the same number of every character (shuffle) / of every ordered
     pair of adjacent characters plus same first and last character (dinucleotide_shuffle); input
     unmodified; a second call with the same (input, region, n, seed), made after the global numpy /
     numba / torch generators have been disturbed, returns the identical tensor.
 (b) kind 'walk': the public dinucleotide_shuffle is run with ersatz._fast_shuffle replaced by its own
     python body (`_fast_shuffle.py_func`, same code object) whose `numpy.random.permutation` is an
     *enumerating* source: every outcome of every internal permutation is visited (odometer over the
     trail of choices; the successor tables are the real ones built by _dinucleotide_shuffle).  For
     every outcome for which dinucleotide_shuffle returns: the result obeys (a) and the walk has
     consumed every transition (counters[i, c] == number of occurrences of c among the first L-1
     characters, for every shuffle i and character c; a stranded walk reads a stale successor and
     over-runs one counter while starving another).  To keep the exhaustive scope affordable the
     outcomes of one sequence are enumerated inside ONE public call (each on a copy of the arrays,
     judged on the raw walk arrays); an outcome that fails there is only a *suspect*: it is re-run as
     its own public call (`check_walk`, also the replay harness) and reported only if that call
     returns and violates.  On the smallest lengths every outcome is additionally its own call.

The property conditions on "returned": a call that raises is counted (trivial case) but is never a
violation.  On the pinned tree dinucleotide_shuffle raises for every region of length <= 2
(RuntimeError of max() on an empty tensor) and, for n > 1, when all shuffles coincide (ValueError).

Negative `end` (the default end=-1, "the entire sequence", and in the variant part -1 ... -6 passed
explicitly).  shuffle reads end=-k as end = L+1-k, dinucleotide_shuffle slices [start:-k]
(= [start, L-k)); the statement does not fix the convention.  Every clause that holds for the region
[start, L-k) followed by one untouched position also holds for the region [start, L+1-k) (counts of
characters / ordered pairs, first and last character, flanks), so the oracle asserts the clauses for
[start, L+1-k): exactly what holds under both readings.

Added by the coverage audit (kind 'call' unless noted; all replayable):
 * variant part ('*-variant'): alphabets 2-6 and 20, more dtypes (uint8, int16, int32, float16,
   float64, bool), explicit negative ends, all-default calls (start / end / n omitted; n read off the
   result), random_state given as a numpy integer (the repeat call passes the python int of the same
   value: same integer seed, same result), as None and (shuffle) as a RandomState object (clauses
   other than determinism), verbose=True for dinucleotide_shuffle (the repeat call is made with
   verbose=False: `verbose` is not among the arguments the result may depend on), the repeat call on
   the same values in another memory layout;
 * long sequences ('*-long', L 257 ... 70,000: beyond the range of 8- and 16-bit position indices);
 * kind 'walk' with a region: the enumerated walk inside a public call on [start, end) of a longer
   sequence (flanks present), n = 3, and *sampled* outcomes (explicit permutations stored in the
   trail) for sequences of length 9-70 where enumeration is impossible: consumption of every
   transition is asserted there too (the compiled calls can only see a stranded walk through its
   output).
"""
import contextlib
import io
import itertools
import random
import types

import numpy
import torch

from tangermeme import ersatz

LETTERS = 'ACGTBDEFHIJKLMNOPQRS'       # alphabets up to 20 characters (the first four as usual)

SCOPE = {
    'quick': ('ENUMERATED WALK (python body of _fast_shuffle under an enumerating permutation source, inside the public dinucleotide_shuffle, whole sequence): every outcome of every '
              'internal permutation for every sequence of length <= 8 (alphabet 2), <= 7 (alphabet 3), <= 6 (alphabet 4) with n = 1, of length <= 5 with n = 2 and of length <= 4 with n = 3 '
              '(one public call per sequence, all outcomes run inside it on the real successor tables, suspect outcomes re-run as their own call); one public call per outcome for length <= 4; '
              '120 sampled sequences of (alphabet, length) in {(3,8), (4,7), (4,8)}, all outcomes each (at most 3000 outcomes per sequence; the pinned walk needs <= 720).  '
              'WALK IN A REGION: 160 sampled (sequence of length 4-8, region of length >= 3 with a flank, n in {1,2}): all outcomes inside a public call on [start, end).  '
              'SAMPLED WALK: 1200 sequences of length 9-70 over alphabets 2-6 (half of them on a sampled region, n in {1,2,3}), one sampled outcome of all internal permutations each '
              '(python body, consumption of every transition asserted).  '
              'COMPILED FUNCTIONS: alphabets 2-4, every length L <= 8, every region 0 <= start < end <= L plus default end with start 0 and 1; '
              'shuffle with n in {1,2} (2 seeds for n = 1) on one batch of all A^L sequences (every k-th, 4096 sequences, when A^L > 4096 and the region is not the whole sequence); '
              'dinucleotide_shuffle with n = 1 on one batch of all A^L sequences when A^L <= 512, else every k-th sequence (1024 for the whole region, 128 for other regions); '
              'dinucleotide_shuffle with n in {2,3}: one call per sequence, all sequences of length 3-5, whole region; '
              '300 seeded random longer cases for both functions (L 9-150, 1-4 sequences incl. low-complexity ones, random region / default end, n up to 5 resp. 20, '
              'dtypes int8/float32/int64, 15% non-contiguous inputs, seeds in [0, 2^31-8] and 2^32-8).  '
              'VARIANTS: 600 seeded random cases for both functions with alphabets 2-6 and 20, L 4-90, 1-3 sequences, dtypes int8/uint8/int16/int32/int64/float16/float32/float64/bool, '
              'end given as -1 ... -6 (33%), start / end / n all omitted (12%), seed passed as numpy.int64 (repeat call with the python int), as None, as RandomState (shuffle only; no determinism clause '
              'for the last two), verbose=True for dinucleotide_shuffle (repeat call with verbose=False must agree), repeat call on another memory layout of the same values (35%).  '
              'LONG: 8 cases per function with L in {257, 300, 1000, 33000, 40000, 66000, 68000, 70000} (whole sequence, default end, or a region with both flanks longer than 2^15 resp. 2^16).  '
              'Determinism: every call repeated after disturbing the numpy, numba and torch generators '
              '(dinucleotide batches: whole-region calls and A^L <= 64 only).  If the python body of the walk indexes out of bounds, the compiled dinucleotide_shuffle calls are skipped '
              '(they could kill the process) and the violations of the enumerated walk are reported'),
    'thorough': ('ENUMERATED WALK: every outcome of every internal permutation for every sequence of length <= 8 over alphabets 2, 3 and 4 with n = 1 (467,915 outcomes), of '
                 'length <= 6 with n = 2 (43,065 outcomes) and of length <= 5 with n = 3; one public call per outcome for length <= 5.  '
                 'WALK IN A REGION: 1200 sampled (sequence, region, n in {1,2}), all outcomes.  SAMPLED WALK: 8000 sequences of length 9-70, alphabets 2-6, one sampled outcome each.  '
                 'COMPILED FUNCTIONS: alphabets 2-4, every L <= 8, every region plus default end; shuffle with n in {1,2,3} on all A^L sequences; dinucleotide_shuffle n = 1 on all '
                 'sequences when A^L <= 4096 or the region is the whole sequence, else every k-th sequence (2048; 8192 for default end); dinucleotide_shuffle n in {2,3}: one call per '
                 'sequence, all sequences of length 3-6, whole region + 2 sampled regions of length >= 3; 4000 seeded random longer cases (L 9-400); '
                 '5000 variant cases (alphabets 2-6 and 20, nine dtypes, negative ends, omitted arguments, numpy-integer / None / RandomState seeds, verbose, memory layout) and '
                 '40 long cases (L 257 - 70,500) per function, as described for the quick tier'),
}


# ----------------------------------------------------------------------------------------------
# inputs
# ----------------------------------------------------------------------------------------------

_DT = {'int8': torch.int8, 'float32': torch.float32, 'int64': torch.int64, 'uint8': torch.uint8, 'int16': torch.int16,
       'int32': torch.int32, 'float16': torch.float16, 'float64': torch.float64, 'bool': torch.bool}


_IDX_ALL = {}


def _idx_all(A, L):
    """(A**L, L) int64: every sequence of length L over A characters, lexicographic"""
    if (A, L) not in _IDX_ALL:
        r = torch.arange(A ** L, dtype=torch.int64)
        cols = [(r // (A ** (L - 1 - p))) % A for p in range(L)]
        _IDX_ALL[(A, L)] = torch.stack(cols, dim=1)
    return _IDX_ALL[(A, L)]


def _idx_of(seqs):
    return torch.tensor([[LETTERS.index(ch) for ch in s] for s in seqs], dtype=torch.int64)


def _ohe(idx, A, dtype):
    B, L = idx.shape
    X = torch.zeros((B, A, L), dtype=dtype)
    X.scatter_(1, idx.unsqueeze(1), 1)
    return X


def _s(idx_row):
    return ''.join(LETTERS[int(c)] for c in idx_row)


def _short(txt, k=160):
    return txt if len(txt) <= k else '%s...(%d characters)' % (txt[:k], len(txt))


def _case_idx(case):
    if 'all_len' in case:
        idx = _idx_all(case['A'], case['all_len'])
        if case.get('stride', 1) > 1:       # every stride-th sequence of the lexicographic list
            idx = idx[case.get('offset', 0)::case['stride']]
        return idx
    if 'gen' in case:                       # long inputs: {'B', 'L', 'seed', 'mode'} instead of the letters
        g = case['gen']
        gen = torch.Generator().manual_seed(g['seed'])
        idx = torch.randint(0, case['A'], (g['B'], g['L']), generator=gen)
        if g.get('mode') == 'runs':         # low complexity: runs of 1-40 equal characters
            keep = torch.rand((g['B'], g['L']), generator=gen) < 0.1
            keep[:, 0] = True
            pos = torch.cummax(torch.where(keep, torch.arange(g['L']).expand(g['B'], -1), torch.zeros((), dtype=torch.int64)), dim=1).values
            idx = torch.gather(idx, 1, pos)
        return idx
    return _idx_of(case['seqs'])


def _disturb(k):
    """disturb every global generator a hidden dependency could read"""
    numpy.random.seed((k * 7919 + 13) % (2 ** 31))
    numpy.random.rand(3)
    torch.default_generator.manual_seed(k + 1)      # (torch.manual_seed also queues a traced CUDA call: 1.5 ms)
    # numba's own generator state (separate from numpy's): advanced by a foreign shuffle
    x = torch.zeros((1, 2, 6), dtype=torch.int8)
    x[0, 0, ::2] = 1
    x[0, 1, 1::2] = 1
    try:
        ersatz.dinucleotide_shuffle(x, 0, 6, n=1, random_state=(k * 31 + 5) % 100000)
    except Exception:
        pass


# ----------------------------------------------------------------------------------------------
# oracle on a returned tensor (vectorised, written from the statement)
# ----------------------------------------------------------------------------------------------

def _first_bad(mask_ok):
    """mask_ok: bool tensor (B, n, ...) -> (b, j) of the first failing output or None"""
    bad = ~mask_ok.reshape(mask_ok.shape[0], mask_ok.shape[1], -1).all(dim=2)
    if not bool(bad.any()):
        return None
    f = int(bad.reshape(-1).nonzero()[0])
    return f // bad.shape[1], f % bad.shape[1]


def _describe(idx, Y, b, j, A):
    col_ok = bool((((Y[b, j] == 0) | (Y[b, j] == 1)).all()) and (Y[b, j].sum(dim=0) == 1).all())
    got = _s(Y[b, j].to(torch.int8).argmax(dim=0)) if col_ok else str(Y[b, j].tolist())
    return 'input %s (example %d) -> output %d = %s' % (_short(_s(idx[b])), b, j, _short(got, 400))


def oracle(fn, idx, X, Y, A, s, e, n, default_end):
    """list of violated clauses of the statement for Y = fn(X, region [s, e), n).
    default_end: the call used the default end; e == L and only reading-independent facts asserted"""
    out = []
    B, L = idx.shape
    if not isinstance(Y, torch.Tensor) or tuple(Y.shape) != (B, n, A, L):
        return ['result has shape %s, expected (B=%d, n=%d, A=%d, L=%d)' % (tuple(getattr(Y, 'shape', ())), B, n, A, L)]
    if n == 0 or B == 0:
        return out
    if Y.dtype == torch.bool:
        Y = Y.to(torch.int8)
    if X.dtype == torch.bool:
        X = X.to(torch.int8)
    Xe = X.unsqueeze(1)
    # valid one-hot
    oh = (((Y == 0) | (Y == 1)).all(dim=2)) & (Y.sum(dim=2) == 1)          # (B, n, L)
    fb = _first_bad(oh)
    if fb is not None:
        out.append('output is not a valid one-hot encoding: ' + _describe(idx, Y, fb[0], fb[1], A))
        return out
    # flanks
    if s > 0:
        fb = _first_bad((Y[:, :, :, :s] == Xe[:, :, :, :s]).all(dim=2))
        if fb is not None:
            out.append('a position before the region [%d,%d) differs from the input: %s' % (s, e, _describe(idx, Y, fb[0], fb[1], A)))
    if e < L:
        fb = _first_bad((Y[:, :, :, e:] == Xe[:, :, :, e:]).all(dim=2))
        if fb is not None:
            out.append('a position after the region [%d,%d) differs from the input: %s' % (s, e, _describe(idx, Y, fb[0], fb[1], A)))
    # composition inside the region
    cy = Y[:, :, :, s:e].to(torch.int64).sum(dim=3)                          # (B, n, A)
    cx = Xe[:, :, :, s:e].to(torch.int64).sum(dim=3)
    fb = _first_bad(cy == cx)
    if fb is not None:
        out.append('character counts inside the region [%d,%d) differ: %s' % (s, e, _describe(idx, Y, fb[0], fb[1], A)))
    if fn == 'dinuc':
        yi = Y.argmax(dim=2)                                                 # (B, n, L)
        xi = idx.unsqueeze(1)
        last = e - 1                # (default / negative end: e is the later of the two readings, see the module text)
        fb = _first_bad((yi[:, :, s:s + 1] == xi[:, :, s:s + 1]) & (yi[:, :, last:last + 1] == xi[:, :, last:last + 1]))
        if fb is not None:
            out.append('first/last character of the region [%d,%d) changed: %s' % (s, e, _describe(idx, Y, fb[0], fb[1], A)))
        if e - s >= 2:
            py = (yi[:, :, s:e - 1] * A + yi[:, :, s + 1:e]).sort(dim=2).values      # multiset of ordered pairs
            px = (xi[:, :, s:e - 1] * A + xi[:, :, s + 1:e]).sort(dim=2).values
            fb = _first_bad(py == px)
            if fb is not None:
                out.append('ordered-pair (dinucleotide) counts inside the region [%d,%d) differ: %s' % (s, e, _describe(idx, Y, fb[0], fb[1], A)))
    return out


def oracle_py(fn, seq, rows, A, s, e, n, default_end):
    """the same oracle for ONE input sequence in plain python (used per enumerated walk outcome,
    where tensor-op overhead would dominate).  rows: Y[b].tolist(), nested n x A x L"""
    out = []
    L = len(seq)
    if len(rows) != n or any(len(r) != A or any(len(c) != L for c in r) for r in rows):
        return ['result has the wrong shape, expected (n=%d, A=%d, L=%d)' % (n, A, L)]
    for j, r in enumerate(rows):
        chars = []
        for p in range(L):
            col = [r[c][p] for c in range(A)]
            if sorted(col) != [0] * (A - 1) + [1]:
                return ['output is not a valid one-hot encoding: input %s -> output %d column %d = %s' % (seq, j, p, col)]
            chars.append(LETTERS[col.index(1)])
        o = ''.join(chars)
        d = 'input %s -> output %d = %s' % (seq, j, o)
        if o[:s] != seq[:s]:
            out.append('a position before the region [%d,%d) differs from the input: %s' % (s, e, d))
        if o[e:] != seq[e:]:
            out.append('a position after the region [%d,%d) differs from the input: %s' % (s, e, d))
        if sorted(o[s:e]) != sorted(seq[s:e]):
            out.append('character counts inside the region [%d,%d) differ: %s' % (s, e, d))
        if fn == 'dinuc':
            last = L - 1 if default_end else e - 1
            if o[s] != seq[s] or o[last] != seq[last]:
                out.append('first/last character of the region [%d,%d) changed: %s' % (s, e, d))
            if sorted(zip(o[s:e - 1], o[s + 1:e])) != sorted(zip(seq[s:e - 1], seq[s + 1:e])):
                out.append('ordered-pair (dinucleotide) counts inside the region [%d,%d) differ: %s' % (s, e, d))
        if out:
            break
    return out


# ----------------------------------------------------------------------------------------------
# (a) one call of the real function
# ----------------------------------------------------------------------------------------------

def _call(fn, X, s, end, n, seed, verbose=False):
    """arguments that are None are omitted (the function's defaults apply), except the seed"""
    f = ersatz.shuffle if fn == 'shuffle' else ersatz.dinucleotide_shuffle
    kw = {'random_state': seed}
    if s is not None:
        kw['start'] = s
    if end is not None:
        kw['end'] = end
    if n is not None:
        kw['n'] = n
    if verbose:
        kw['verbose'] = True
        with contextlib.redirect_stdout(io.StringIO()):
            return f(X, **kw)
    return f(X, **kw)


def _seed_arg(seed, kind):
    if kind == 'npint':
        return numpy.int64(seed)
    if kind == 'none':
        return None
    if kind == 'rs':
        return numpy.random.RandomState(seed)
    return seed


def check_call(case, info=None):
    """case: {kind:'call', fn:'shuffle'|'dinuc', A, seqs:[...] | all_len:L | gen:{B,L,seed,mode}, start (int|None = omitted),
    end (int >= 0 | negative | None = omitted), n (int|None = omitted), seed, dtype, det: bool,
    optional: strided (non-contiguous input), seedkind 'int'|'npint'|'none'|'rs' (how the seed is passed to the first call),
    verbose (first call with verbose=True, dinuc only), layout (repeat call on the same values in another memory layout)}.
    -> list of violation strings; info['returned'] set"""
    fn, A, s_arg, end, n_arg, seed = case['fn'], case['A'], case['start'], case['end'], case['n'], case['seed']
    idx = _case_idx(case)
    L = idx.shape[1]
    dtype = _DT[case.get('dtype', 'int8')]
    X = _ohe(idx, A, dtype)
    if case.get('strided'):                 # the same values as a non-contiguous view
        big = torch.zeros((X.shape[0], A, 2 * L), dtype=dtype)
        big[:, 0, :] = 1
        big[:, :, ::2] = X
        X = big[:, :, ::2]
    X0 = X.clone()
    s = 0 if s_arg is None else s_arg
    e = L if end is None else (L + 1 + end if end < 0 else end)
    seedkind = case.get('seedkind', 'int')
    verbose = bool(case.get('verbose')) and fn == 'dinuc'
    out = []
    try:
        Y = _call(fn, X, s_arg, end, n_arg, _seed_arg(seed, seedkind), verbose)
    except Exception as ex:
        # not returning is allowed by the statement ("every sequence returned ...")
        if info is not None:
            info['returned'] = False
            info['raised'] = type(ex).__name__
        if not torch.equal(X, X0):
            out.append('input modified (call raised %s)' % type(ex).__name__)
        return out
    if info is not None:
        info['returned'] = True
    n = n_arg
    if n is None:                           # n omitted: the statement does not name the default; read it off the result
        n = int(Y.shape[1]) if isinstance(Y, torch.Tensor) and Y.dim() == 4 else 1
    if info is not None:
        info['n'] = n
    out += oracle(fn, idx, X0, Y, A, s, e, n, end is None)
    if not torch.equal(X, X0):
        out.append('the input tensor was modified')
    if case.get('det', True) and seedkind in ('int', 'npint'):
        _disturb(seed % 1000)
        X2 = X0.clone()
        if case.get('layout'):              # same values, position axis has stride 1 no more
            X2 = X0.transpose(1, 2).contiguous().transpose(1, 2)
        try:
            Y2 = _call(fn, X2, s_arg, end, n_arg, seed)
            same = isinstance(Y2, torch.Tensor) and Y2.shape == Y.shape and torch.equal(Y2, Y)
        except Exception as ex:
            same = False
        if not same:
            varied = [w for w, on in (('the seed given as numpy.int64 instead of int', seedkind == 'npint'), ('verbose=True instead of False', verbose),
                                      ('another memory layout of the same values', bool(case.get('layout')))) if on]
            how = ''
            if varied:                      # which of the two is it: plain repeat of the FIRST call (same seed object kind, verbose, layout)
                try:
                    _disturb(seed % 1000 + 1)
                    Y3 = _call(fn, X0.clone(), s_arg, end, n_arg, _seed_arg(seed, seedkind), verbose)
                    plain = isinstance(Y3, torch.Tensor) and Y3.shape == Y.shape and torch.equal(Y3, Y)
                except Exception:
                    plain = False
                how = (' (an exact repeat of the first call reproduces it: the result depends on %s)' if plain else
                       ' (even an exact repeat of the first call differs; the calls also differed in %s)') % ' / '.join(varied)
            out.append('not deterministic: a second call with the same (input, region, n, seed=%d) returned a different result%s' % (seed, how))
    return out


def _minimise(case, viol):
    """try to reproduce a batch violation on the single offending sequence"""
    if ('gen' in case and case['gen']['B'] == 1) or ('all_len' not in case and 'gen' not in case and len(case.get('seqs', [])) <= 1):
        return case, viol
    import re
    m = re.search(r'\(example (\d+)\)', viol[0])
    if not m:
        return case, viol
    b = int(m.group(1))
    idx = _case_idx(case)
    small = {k: v for k, v in case.items() if k not in ('all_len', 'seqs', 'stride', 'offset', 'gen')}
    small['seqs'] = [_s(idx[b])]
    if case['fn'] == 'dinuc' and case.get('seedkind', 'int') in ('int', 'npint'):
        small['seed'] = case['seed'] + b      # per-example seed of the pinned implementation (only a guess: verified below)
    v2 = check_call(small)
    if v2:
        return small, v2
    return case, viol


def _finding(what):
    w = what
    if 'shape' in w and 'expected' in w:
        return 'result-shape'
    if 'one-hot' in w:
        return 'output-not-one-hot'
    if 'before the region' in w or 'after the region' in w:
        return 'flank-changed'
    if 'character counts' in w:
        return 'character-counts-changed'
    if 'first/last' in w:
        return 'region-end-characters-changed'
    if 'ordered-pair' in w:
        return 'dinucleotide-counts-changed'
    if 'modified' in w:
        return 'input-modified'
    if 'deterministic' in w:
        return 'not-deterministic'
    if 'transition' in w or 'walk' in w:
        return 'walk-stranded'
    return 'other'


MAX_PER_FINDING = 25


def _report(rep, stats, what, case, finding):
    """at most MAX_PER_FINDING stored violations per finding key (the rest is only counted)"""
    k = 'violations[%s]' % finding
    stats[k] = stats.get(k, 0) + 1
    if stats[k] <= MAX_PER_FINDING:
        rep.violation(what, case, finding=finding)
    elif stats[k] == MAX_PER_FINDING + 1:
        rep.note('more than %d violations of class %s; further ones are only counted in the statistics' % (MAX_PER_FINDING, finding))


def _do_call(rep, case, key, section, stats, sample=None):
    if stats.get('unsafe') and case['fn'] == 'dinuc':
        stats['compiled dinuc calls skipped'] = stats.get('compiled dinuc calls skipped', 0) + 1
        return False
    info = {}
    viol = check_call(case, info)
    returned = info.get('returned', False)
    rep.case(key, nontrivial=returned, sample=sample, section=section)
    stats['calls'] = stats.get('calls', 0) + 1
    if 'all_len' in case:
        nseq = len(range(case.get('offset', 0), case['A'] ** case['all_len'], case.get('stride', 1)))
    else:
        nseq = case['gen']['B'] if 'gen' in case else len(case['seqs'])
    if returned:
        stats['outputs'] = stats.get('outputs', 0) + nseq * info.get('n', 1)
    else:
        stats['raised:' + section] = stats.get('raised:' + section, 0) + 1
        rk = 'raised[%s]:%s' % (section, info.get('raised'))
        if section.endswith('-variant') or section.endswith('-long'):
            stats[rk] = stats.get(rk, 0) + 1
    if viol:
        c2, v2 = _minimise(case, viol)
        for w in v2:
            _report(rep, stats, '%s: %s' % (c2['fn'], w), c2, _finding(w))
    return returned


# ----------------------------------------------------------------------------------------------
# (b) the walk under an enumerating permutation source
# ----------------------------------------------------------------------------------------------

class _Source:
    """enumerating stand-in for numpy.random inside _fast_shuffle.py_func: the k-th permutation
    request of a run takes the choice trail[k] (index into the lexicographic list of permutations);
    requests beyond the trail take choice 0 and extend it.
    Sampled mode (longer sequences, where the outcomes cannot be enumerated): a trail entry may also be
    an explicit permutation (list); with a `sampler` (random.Random) requests beyond the trail draw a
    uniform permutation and record it explicitly, so the stored trail replays without the sampler"""

    def __init__(self):
        self.reset([])

    def reset(self, trail, sampler=None):
        self.trail = [list(t) if isinstance(t, (list, tuple)) else t for t in trail]
        self.radix = []
        self.pos = 0
        self.unsupported = None
        self.sampler = sampler

    def _radix(self, r):
        if self.pos < len(self.radix):
            self.radix[self.pos] = r
        else:
            self.radix.append(r)
        self.pos += 1

    _perm_cache = {}

    def _perms(self, k):
        p = self._perm_cache.get(k)
        if p is None:
            p = [numpy.array(q, dtype=numpy.int64) for q in itertools.permutations(range(k))]
            self._perm_cache[k] = p
        return p

    def _choose(self, k):
        k = max(int(k), 0)      # numba: permutation(-1) is the empty permutation
        ent = self.trail[self.pos] if self.pos < len(self.trail) else None
        if isinstance(ent, list) or (ent is None and self.sampler is not None) or k > 8:
            if isinstance(ent, list) and sorted(ent) == list(range(k)):
                p = ent
            elif ent is None and self.sampler is not None:
                p = list(range(k))
                self.sampler.shuffle(p)
            else:                               # a stored permutation that no longer fits / too long to enumerate
                p = list(range(k))
            if self.pos < len(self.trail):
                self.trail[self.pos] = p
            else:
                self.trail.append(p)
            self._radix(1)
            return numpy.array(p, dtype=numpy.int64)
        perms = self._perms(k)
        if self.pos < len(self.trail):
            c = self.trail[self.pos] % len(perms)
        else:
            c = 0
            self.trail.append(0)
        self._radix(len(perms))
        return perms[c]

    # numpy.random API used by the walk
    def seed(self, *a, **k):
        return None

    def permutation(self, x):
        if isinstance(x, (int, numpy.integer)):
            return self._choose(x).copy()
        x = numpy.asarray(x)
        return x[self._choose(len(x))]

    def shuffle(self, x):
        x[:] = x[self._choose(len(x))]

    def __getattr__(self, name):
        if name.startswith('__'):
            raise AttributeError(name)
        self.unsupported = name
        raise NotImplementedError('enumerating source has no numpy.random.%s' % name)

    def advance(self):
        """next trail in odometer order; False when exhausted"""
        t, r = self.trail[:self.pos], self.radix[:self.pos]
        while t and t[-1] + 1 >= r[len(t) - 1]:
            t.pop()
        if not t:
            return None
        t[-1] += 1
        return t


class _NumpyProxy:
    def __init__(self, source):
        self.random = source

    def __getattr__(self, name):
        return getattr(numpy, name)


_SRC = _Source()
_WALK = {}


def _py_walk():
    """the python body of the real ersatz._fast_shuffle, with numpy.random replaced by _SRC"""
    real = ersatz._fast_shuffle
    py = getattr(real, 'py_func', real)
    key = id(py.__code__)
    if key not in _WALK:
        g = dict(py.__globals__)
        for name, val in list(g.items()):
            if val is numpy:
                g[name] = _NumpyProxy(_SRC)
            elif val is numpy.random:
                g[name] = _SRC
            elif val is numpy.random.permutation:
                g[name] = _SRC.permutation
            elif val is numpy.random.shuffle:
                g[name] = _SRC.shuffle
            elif val is numpy.random.seed:
                g[name] = _SRC.seed
        _WALK.clear()
        _WALK[key] = types.FunctionType(py.__code__, g, 'enumerated_fast_shuffle', py.__defaults__, py.__closure__)
    return _WALK[key]


def _consumption(seq, A, n, args):
    """walk-level clause: every transition of the original sequence used exactly once"""
    if len(args) != 8:
        return []
    counters = numpy.asarray(args[5])
    if counters.shape != (n, A):
        return []
    outdeg = [seq[:-1].count(LETTERS[c]) for c in range(A)]
    for i in range(n):
        used = [int(v) for v in counters[i]]
        if used != outdeg:
            return ['walk %d did not consume every transition exactly once (stranded): transitions used per character %s, '
                    'available %s, input %s' % (i, used, outdeg, seq)]
    return []


def _walk_level(seq, A, n, args):
    """fast filter on the raw arrays of one enumerated walk (never reported directly)"""
    out = _consumption(seq, A, n, args)
    if len(args) == 8 and isinstance(args[6], numpy.ndarray) and args[6].ndim == 3:
        out += oracle_py('dinuc', seq, args[6].tolist(), A, 0, len(seq), n, False)
    return out


# most outcomes enumerated for ONE sequence.  The pinned walk needs at most 6! = 720 (n = 1, length 8) resp. (4!)^2 = 576
# (n = 2, length 6); a changed walk can ask for permutations of the whole table for every character (length-8 homopolymer
# over 4 characters: 720^4 outcomes), which would stall the driver inside one sequence without ever reporting
MAX_OUTCOMES = 3000


def _session(A, seq, n, trail, enumerate_all, region=None, sampler=None):
    """ONE call of the public dinucleotide_shuffle on the region (default: the whole sequence) with
    ersatz._fast_shuffle replaced by its python body under the enumerating source.  The arrays handed
    back to the caller are those of the outcome `trail` (continued by `sampler` if given); with
    enumerate_all every other outcome is first run on copies of the (real) successor tables and
    filtered by _walk_level."""
    idx = _idx_of([seq])
    L = idx.shape[1]
    rs, re_ = region if region is not None else (0, L)
    reg = seq[rs:re_]
    X = _ohe(idx, A, torch.int8)
    X0 = X.clone()
    walk = _py_walk()
    ses = {'outcomes': 0, 'suspects': [], 'trails': [], 'walked': False, 'unsupported': None}

    def wrapper(*args, **kw):
        ses['walked'] = True
        if enumerate_all:
            t = []
            while t is not None:
                if ses['outcomes'] >= MAX_OUTCOMES:
                    ses['truncated'] = True
                    break
                a2 = [x.copy() if isinstance(x, numpy.ndarray) else x for x in args]
                _SRC.reset(t)
                err = None
                try:
                    walk(*a2, **kw)
                except NotImplementedError:
                    raise
                except Exception as ex:      # e.g. IndexError: the compiled code would read out of bounds
                    err = ex
                tr = _SRC.trail[:_SRC.pos]
                ses['outcomes'] += 1
                ses['trails'].append(tr)
                if err is not None:
                    ses['errors'] = ses.get('errors', 0) + 1
                if err is not None or _walk_level(reg, A, n, a2):
                    ses['suspects'].append(tr)
                t = _SRC.advance()
        _SRC.reset(trail, sampler)
        r = walk(*args, **kw)
        ses['args'] = args
        return r

    real = ersatz._fast_shuffle
    ersatz._fast_shuffle = wrapper
    try:
        try:
            ses['Y'] = ersatz.dinucleotide_shuffle(X, rs, re_, n=n, random_state=0)
            ses['returned'] = True
        except Exception as ex:
            ses['returned'] = False
            ses['raised'] = type(ex).__name__
    finally:
        ersatz._fast_shuffle = real
    ses['unsupported'] = _SRC.unsupported
    ses['trail'] = _SRC.trail[:_SRC.pos] if ses['walked'] else list(trail)
    ses['unmodified'] = torch.equal(X, X0)
    return ses


def check_walk(case, info=None):
    """case: {kind:'walk', A, seq, n, trail, optional start, end}: the public dinucleotide_shuffle on the
    region [start, end) (default: the whole sequence) with the walk driven by the stored trail of
    permutation choices (index of each requested permutation in lexicographic order, or the
    permutation itself)."""
    A, seq, n = case['A'], case['seq'], case['n']
    region = _case_region(case)
    ses = _session(A, seq, n, case.get('trail', []), False, region)
    return _judge(ses, A, seq, n, info, region)


def _case_region(case):
    if case.get('start') is None and case.get('end') is None:
        return None
    return (case.get('start') or 0, len(case['seq']) if case.get('end') is None else case['end'])


def _judge(ses, A, seq, n, info=None, region=None):
    L = len(seq)
    rs, re_ = region if region is not None else (0, L)
    if info is not None:
        info.update({k: ses.get(k) for k in ('returned', 'raised', 'walked', 'unsupported', 'trail', 'outcomes', 'suspects')})
    if not ses['returned']:
        return []       # the statement conditions on "returns at all"
    Y = ses['Y']
    tag = 'under permutation outcomes %s%s: ' % (_short(str(ses['trail']), 300), '' if region is None else ' on the region [%d,%d)' % (rs, re_))
    if not isinstance(Y, torch.Tensor) or Y.dim() != 4 or Y.shape[0] != 1:
        return [tag + 'result has shape %s, expected (1, %d, %d, %d)' % (tuple(getattr(Y, 'shape', ())), n, A, L)]
    out = [tag + w for w in oracle_py('dinuc', seq, Y[0].tolist(), A, rs, re_, n, False)]
    if not ses['unmodified']:
        out.append(tag + 'the input tensor was modified')
    if 'args' in ses:
        out += [tag + w for w in _consumption(seq[rs:re_], A, n, ses['args'])]
    return out


def _sampled_walk(rep, A, seq, n, region, wseed, stats):
    """ONE sampled outcome of the internal permutations (for sequences too long to enumerate): the
    permutations are drawn by random.Random(wseed) and stored explicitly in the case"""
    ses = _session(A, seq, n, [], False, region, random.Random(wseed))
    case = {'kind': 'walk', 'A': A, 'seq': seq, 'n': n, 'trail': ses['trail']}
    if region is not None:
        case['start'], case['end'] = region
    rep.case(('walk-s', A, seq, n, region, wseed), nontrivial=bool(ses['returned']), sample=None, section='walk-sampled')
    stats['walk sampled'] = stats.get('walk sampled', 0) + 1
    if not ses['returned']:
        stats['walk sampled raised'] = stats.get('walk sampled raised', 0) + 1
        if ses.get('raised') == 'IndexError':
            stats['walk errors'] = stats.get('walk errors', 0) + 1
    for w in _judge(ses, A, seq, n, None, region):
        _report(rep, stats, 'dinuc walk: ' + w, case, _finding(w))


def _truncated(rep, stats, A, seq, n):
    stats['walk truncated'] = stats.get('walk truncated', 0) + 1
    if stats['walk truncated'] == 1:
        rep.note('NOT EXHAUSTIVE: the walk asked for more than %d permutation outcomes for one sequence (first: %s, alphabet %d, n=%d; the pinned walk needs at most 720); '
                 'only the first %d outcomes of such sequences are enumerated' % (MAX_OUTCOMES, seq, A, n, MAX_OUTCOMES))


def _enumerate_walks(rep, A, seq, n, stats, precise=False, region=None):
    """every outcome of every internal permutation for one sequence.
    precise: one public call per outcome.  Otherwise one public call per sequence: all outcomes are
    run on the real successor tables inside it and filtered at walk level; every suspect outcome is
    then re-run as its own public call and reported only if that call returns and violates."""
    section = 'walk-enumerated(n=%d)' % n if region is None else 'walk-enumerated-region'
    rk = () if region is None else tuple(region)
    rc = {} if region is None else {'start': region[0], 'end': region[1]}
    if precise:
        trail = []
        count = 0
        while trail is not None:
            case = dict({'kind': 'walk', 'A': A, 'seq': seq, 'n': n, 'trail': trail}, **rc)
            info = {}
            viol = check_walk(case, info)
            case['trail'] = info['trail']
            rep.case(('walk', A, seq, n, tuple(info['trail'])) + rk, nontrivial=bool(info['returned']) and len(seq) >= 3, section=section + '/one-call-per-outcome')
            stats['walk outcomes'] = stats.get('walk outcomes', 0) + 1
            for w in viol:
                _report(rep, stats, 'dinuc walk: ' + w, dict(case), _finding(w))
            if not info['walked']:
                break
            trail = _SRC.advance()
            count += 1
            if count >= MAX_OUTCOMES and trail is not None:
                _truncated(rep, stats, A, seq, n)
                break
        return
    ses = _session(A, seq, n, [], True, region)
    info = {}
    case = dict({'kind': 'walk', 'A': A, 'seq': seq, 'n': n, 'trail': ses['trail']}, **rc)
    for w in _judge(ses, A, seq, n, info, region):
        _report(rep, stats, 'dinuc walk: ' + w, dict(case), _finding(w))
    k = max(ses['outcomes'], 1)
    stats['walk outcomes'] = stats.get('walk outcomes', 0) + k
    stats['walk sequences'] = stats.get('walk sequences', 0) + 1
    for i, tr in enumerate(ses['trails'] or [ses['trail']]):
        rep.case(('walk', A, seq, n, tuple(tr)) + rk, nontrivial=bool(ses['returned']) and len(seq) >= 3,
                 sample=dict(case, outcomes=k) if i == 0 else None, section=section)
    if not ses['walked']:
        stats['walk not reached'] = stats.get('walk not reached', 0) + 1
    if ses.get('truncated'):
        _truncated(rep, stats, A, seq, n)
    if ses.get('errors'):
        stats['walk errors'] = stats.get('walk errors', 0) + ses['errors']
    if ses.get('unsupported') and 'unsupported' not in stats:
        stats['unsupported'] = ses['unsupported']
        rep.note('HARNESS LIMIT: the walk uses numpy.random.%s, which the enumerating source does not model; its outcomes are not covered' % ses['unsupported'])
    if ses['suspects']:
        stats['walk suspects'] = stats.get('walk suspects', 0) + len(ses['suspects'])
    for tr in ses['suspects'][:3 if stats.get('walk suspects', 0) > 300 else 20]:
        c2 = dict({'kind': 'walk', 'A': A, 'seq': seq, 'n': n, 'trail': tr}, **rc)
        for w in check_walk(c2):
            _report(rep, stats, 'dinuc walk: ' + w, c2, _finding(w))


def _all_seqs(A, L):
    return (''.join(t) for t in itertools.product(LETTERS[:A], repeat=L))


# ----------------------------------------------------------------------------------------------
# run
# ----------------------------------------------------------------------------------------------

def _regions(L):
    return [(s, e) for s in range(L) for e in range(s + 1, L + 1)]


def _rand_seq(rng, A, L):
    mode = rng.random()
    if mode < 0.5:
        return ''.join(rng.choice(LETTERS[:A]) for _ in range(L))
    if mode < 0.7:      # skewed composition
        w = [rng.random() ** 3 + 0.01 for _ in range(A)]
        return ''.join(rng.choices(LETTERS[:A], weights=w, k=L))
    if mode < 0.85:     # runs
        s = ''
        while len(s) < L:
            s += rng.choice(LETTERS[:A]) * rng.randint(1, 9)
        return s[:L]
    # short tandem repeat with a few mutations
    unit = ''.join(rng.choice(LETTERS[:A]) for _ in range(rng.randint(1, 4)))
    s = list((unit * (L // len(unit) + 1))[:L])
    for _ in range(rng.randint(0, 3)):
        s[rng.randrange(L)] = rng.choice(LETTERS[:A])
    return ''.join(s)


def _batch_case(fn, A, L, s, end, n, seed, det, cap=None):
    case = {'kind': 'call', 'fn': fn, 'A': A, 'all_len': L, 'start': s, 'end': end, 'n': n, 'seed': seed, 'dtype': 'int8', 'det': det}
    if cap is not None and A ** L > cap:
        case['stride'] = -(-(A ** L) // cap)
        case['offset'] = (seed + s) % case['stride']
    return case


def run(rep):
    thorough = rep.tier == 'thorough'
    rng = rep.rng
    stats = {}
    base_seed = rng.randrange(0, 10 ** 6)
    total = rep.budget_s

    marks = []

    def mark(name):
        marks.append('%s %.1fs' % (name, total - rep.left()))

    def over(frac):
        """section guard: true when more than `frac` of the budget is spent"""
        return rep.left() < total * (1 - frac)

    # ---- (b) enumerated walk (first: the part the statement singles out) -------------------
    full = {2: 8, 3: 8, 4: 8} if thorough else {2: 8, 3: 7, 4: 6}
    full2 = 6 if thorough else 5
    full3 = 5 if thorough else 4
    precise_L = 5 if thorough else 4
    done = True
    for A in (2, 3, 4):
        for L in range(1, full[A] + 1):
            for seq in _all_seqs(A, L):
                if over(0.45):
                    done = False
                    break
                _enumerate_walks(rep, A, seq, 1, stats)
                if L <= full2:
                    _enumerate_walks(rep, A, seq, 2, stats)
                if L <= full3:
                    _enumerate_walks(rep, A, seq, 3, stats)
                if L <= precise_L:
                    _enumerate_walks(rep, A, seq, 1, stats, precise=True)
                    _enumerate_walks(rep, A, seq, 2, stats, precise=True)
    if done and not stats.get('walk truncated'):
        rep.mark_exhaustive('dinucleotide walk: every permutation outcome of every sequence of length <= %s (alphabet 2/3/4), n=1; length <= %d, n=2'
                            % ('/'.join(str(full[a]) for a in (2, 3, 4)), full2) + '; length <= %d, n=3' % full3)
    elif not done:
        rep.note('time budget reached inside the enumerated walk')
    if not thorough:
        for k in range(120):
            if over(0.5):
                break
            A, L = rng.choice([(3, 8), (4, 7), (4, 8), (4, 8)])
            _enumerate_walks(rep, A, _rand_seq(rng, A, L), 1, stats)

    mark('walk')
    # ---- (b') the walk inside a region of a longer sequence; sampled outcomes on longer sequences ----
    for k in range(1200 if thorough else 160):
        if over(0.5):
            break
        A = rng.choice([2, 3, 4, 4])
        L = rng.randint(4, 8 if A < 4 else 7)
        s0 = rng.randrange(0, L - 2)
        e0 = rng.randint(s0 + 3, L)
        if (s0, e0) == (0, L):
            s0 = 1
        _enumerate_walks(rep, A, _rand_seq(rng, A, L), rng.choice([1, 1, 2]) if e0 - s0 <= 5 else 1, stats, region=(s0, e0))
    for k in range(8000 if thorough else 1200):
        if over(0.52):
            break
        A = rng.choice([2, 3, 4, 4, 5, 6])
        L = rng.randint(9, 70)
        region = None
        if rng.random() < 0.5:
            s0 = rng.randrange(0, L - 2)
            region = (s0, rng.randint(s0 + 3, L))
        _sampled_walk(rep, A, _rand_seq(rng, A, L), rng.choice([1, 1, 2, 3]), region, rng.randrange(0, 2 ** 31), stats)
    mark('walk region/sampled')
    if stats.get('walk errors'):
        # the python body of the walk indexed out of bounds: the compiled walk has no bounds checks, the same outcome
        # there can kill the process before anything is reported
        stats['unsafe'] = True
        rep.note('the python body of the walk raised IndexError for %d enumerated / sampled outcomes (%d violations reported so far); the calls of the COMPILED '
                 'dinucleotide_shuffle are skipped in this run (no bounds checks there: the same outcome can crash the process)'
                 % (stats.get('walk errors', 0), len(rep.violations)))

    # ---- (a') variants of the call: rarely used arguments, alphabets, dtypes, seed kinds, long inputs ----
    for k in range(5000 if thorough else 600):
        if over(0.58):
            rep.note('time budget reached inside the variant part after %d cases' % k)
            break
        A = rng.choice([2, 3, 4, 4, 5, 6, 20])
        L = rng.randint(4, 12) if rng.random() < 0.3 else rng.randint(13, 90)
        B = rng.randint(1, 3)
        # (mostly high-complexity sequences and regions of length >= 3: dinucleotide_shuffle returns for them)
        seqs = [_rand_seq(rng, A, L) if rng.random() < 0.25 else ''.join(rng.choice(LETTERS[:A]) for _ in range(L)) for _ in range(B)]
        r = rng.random()
        if r < 0.12:                                    # everything but the seed omitted
            s0, end, defaults = None, None, True
        elif r < 0.45:                                  # explicit negative end: -1 ... -6, both readings non-empty
            s0 = rng.randrange(0, max(L - 8, 1))
            end, defaults = -rng.randint(1, min(6, L - s0 - 1)), False
        elif r < 0.55:
            s0 = rng.randrange(0, L)
            end, defaults = rng.randint(s0 + 1, L), False
        else:
            s0 = rng.randrange(0, L - 2)
            end, defaults = rng.randint(s0 + 3, L), False
        seed = rng.choice([rng.randrange(0, 1000), rng.randrange(0, 2 ** 31 - 8)])
        dtype = rng.choice(['int8', 'uint8', 'uint8', 'int16', 'int16', 'int32', 'int32', 'int64', 'float16', 'float16', 'float32', 'float64', 'float64', 'bool'])
        for fn in ('shuffle', 'dinuc'):
            n = None if defaults else (rng.choice([1, 2, 3, 7]) if fn == 'shuffle' else rng.choice([1, 1, 2, 3, 20]))
            case = {'kind': 'call', 'fn': fn, 'A': A, 'seqs': seqs, 'start': s0, 'end': end, 'n': n, 'seed': seed, 'dtype': dtype, 'det': True,
                    'strided': rng.random() < 0.15, 'seedkind': rng.choice(['int', 'npint', 'npint', 'none', 'rs' if fn == 'shuffle' else 'int']),
                    'verbose': fn == 'dinuc' and rng.random() < 0.6, 'layout': rng.random() < 0.35}
            _do_call(rep, case, ('V', fn, k), fn + '-variant', stats, sample=case if k < 1 else None)
    long_L = [66000, 300, 33000, 70000, 1000, 257, 40000, 68000]
    for k in range(40 if thorough else 8):
        if over(0.6):
            break
        A = rng.choice([2, 3, 4, 4])
        L = long_L[k % len(long_L)] + (rng.randrange(0, 500) if k >= len(long_L) else 0)
        r = rng.random()
        if r < 0.4 or (L < 600 and r < 0.8):
            s0, end = 0, L
        elif r < 0.5 or L < 600:
            s0, end = rng.randrange(0, L - 256), None
        else:                                           # both flanks present, region itself beyond 8- / 16-bit positions
            s0 = rng.randrange(0, 200)
            end = rng.randint(L - 200, L)
        for fn in ('shuffle', 'dinuc'):
            case = {'kind': 'call', 'fn': fn, 'A': A, 'gen': {'B': rng.randint(1, 2), 'L': L, 'seed': rng.randrange(0, 2 ** 31), 'mode': rng.choice(['uniform', 'runs'])},
                    'start': s0, 'end': end, 'n': rng.choice([1, 2]), 'seed': rng.randrange(0, 2 ** 31 - 8), 'dtype': rng.choice(['int8', 'float32']), 'det': True}
            _do_call(rep, case, ('G', fn, k), fn + '-long', stats)
    mark('variants/long')
    # ---- (a) compiled functions on the small scope -------------------------------------------
    # quick: all sequences while A**L <= 512 (dinucleotide: 200 us per example) resp. 4096 (shuffle),
    # otherwise every stride-th sequence of the lexicographic list
    ns_shuffle = (1, 2, 3) if thorough else (1, 2)
    done = True
    for A in (2, 3, 4):
        for L in range(1, 9):
            N = A ** L
            regs = [(s, e, e) for (s, e) in _regions(L)] + [(0, L, None)] + ([(1, L, None)] if L > 3 else [])
            for (s, e, end) in regs:
                if over(0.88):
                    done = False
                    break
                whole = (e - s == L)
                # shuffle
                cap = None if (thorough or N <= 4096 or whole) else 4096
                for n in ns_shuffle:
                    for t in range(2 if (n == 1 and N <= 4096) else 1):
                        seed = base_seed + 1000 * t + 17 * L + n
                        case = _batch_case('shuffle', A, L, s, end, n, seed, True, cap)
                        _do_call(rep, case, ('S', A, L, s, end, n, seed), 'shuffle-small-batch', stats)
                # dinucleotide, n = 1 (one low-diversity member would abort a batch with n > 1)
                if thorough:
                    cap = None if (N <= 4096 or (whole and end is not None)) else (8192 if whole else 2048)
                else:
                    cap = None if N <= 512 else (1024 if whole else 128)
                seed = base_seed + 31 * L + s
                case = _batch_case('dinuc', A, L, s, end, 1, seed, (N <= 1024 if thorough else N <= 64) or whole, cap)
                _do_call(rep, case, ('D', A, L, s, end, 1, seed), 'dinuc-small-batch', stats)
    if done:
        rep.mark_exhaustive('compiled shuffle and dinucleotide_shuffle(n=1): every region (+ default end) of every length <= 8, alphabets 2-4; every sequence when A^L <= %d (shuffle) / %d '
                            '(dinucleotide), beyond that every k-th sequence of the lexicographic list (see SCOPE)' % ((4 ** 8, 4096) if thorough else (4096, 512)))
    else:
        rep.note('time budget reached inside the small-scope compiled part')

    mark('small-batches')
    # dinucleotide n > 1: per-sequence calls
    maxL = 6 if thorough else 5
    for A in (2, 3, 4):
        for L in range(3, maxL + 1):
            allregs = [r for r in _regions(L) if r[1] - r[0] >= 3]
            for seq in _all_seqs(A, L):
                if over(0.95):
                    break
                others = [r for r in allregs if r != (0, L)]
                regs = [(0, L)] + (rng.sample(others, min(2, len(others))) if thorough else [])
                for (s, e) in regs:
                    for n in (2, 3):
                        seed = base_seed + 7 * n + s
                        case = {'kind': 'call', 'fn': 'dinuc', 'A': A, 'seqs': [seq], 'start': s, 'end': e, 'n': n, 'seed': seed,
                                'dtype': 'int8', 'det': True}
                        _do_call(rep, case, ('D1', A, seq, s, e, n, seed), 'dinuc-small-n>1', stats)

    mark('dinuc n>1')
    # ---- (a) seeded random longer cases ------------------------------------------------------
    n_rand = 4000 if thorough else 300
    maxlen = 400 if thorough else 150
    for k in range(n_rand):
        if rep.out_of_time():
            rep.note('time budget reached inside the random part after %d cases' % k)
            break
        A = rng.randint(2, 4)
        L = rng.randint(9, maxlen) if rng.random() < 0.7 else rng.randint(9, 30)
        B = rng.randint(1, 4)
        seqs = [_rand_seq(rng, A, L) for _ in range(B)]
        r = rng.random()
        if r < 0.2:
            s, e, end = 0, L, L
        elif r < 0.3:
            s = rng.choice([0, rng.randrange(0, L - 1)])
            e, end = L, None
        else:
            s = rng.randrange(0, L)
            e = rng.randint(s + 1, L)
            end = e
        # (dinucleotide_shuffle passes seed + i as int32 / numba seed; a call that raises is allowed)
        seed = rng.choice([rng.randrange(0, 1000), rng.randrange(0, 2 ** 31 - 8), rng.randrange(0, 2 ** 31 - 8), 0, 2 ** 31 - 8, 2 ** 32 - 8])
        dtype = rng.choice(['int8', 'int8', 'float32', 'int64'])
        strided = rng.random() < 0.15
        for fn in ('shuffle', 'dinuc'):
            n = rng.choice([1, 1, 2, 3, 5]) if fn == 'shuffle' else rng.choice([1, 1, 2, 3, 5, 20])
            case = {'kind': 'call', 'fn': fn, 'A': A, 'seqs': seqs, 'start': s, 'end': end, 'n': n, 'seed': seed, 'dtype': dtype, 'det': True,
                    'strided': strided}
            _do_call(rep, case, ('R', fn, k), fn + '-random', stats, sample=case if k < 1 else None)
    mark('random')
    rep.note('elapsed after each part: ' + ', '.join(marks))
    rep.note('statistics: ' + ', '.join('%s=%s' % kv for kv in sorted(stats.items())))
    rep.note('calls that raise are allowed by the statement (it speaks about returned sequences); on the pinned tree '
             'dinucleotide_shuffle raises for every region of length <= 2 and, for n > 1, when all shuffles coincide')


def replay(case):
    k = case.get('kind')
    if k == 'call':
        return check_call(case)
    if k == 'walk':
        return check_walk(case)
    return ['unknown replay kind']
