"""Bounded stand-in for C10 (variant effects) -- never counted as proved.

Every case calls the REAL variant_effect.{substitution,deletion,insertion}_effect with an identity
observer and compares the two tensors that reach `func` (and the two values returned) with a
string-level oracle written from the statement:

  substitution  s[p] := c for every listed (example, p, c);
  deletion      remove the listed positions of the example, then remove max_e|D_e| - |D_e| further
                characters from the chosen end (left=True: from the left end, else from the right);
  insertion     put c immediately before ORIGINAL coordinate j for every listed (example, j, c)
                (distinct j per example), then keep the last L (left=True) / first L characters;
  before        the reference trimmed to the same length from the same side (L for substitution and
                insertion);
  isolation     every example is edited with its own rows only (examples without rows included);
  refusal       a row that names a position >= L (> L for insertions), an example >= N or a
                character >= A cannot be honoured: the call must raise.

Observation is done four ways ('via'): `func` = a recorder that returns its input (exactly "the X /
X_var reaching func"); the default func=predict with a parameter-free identity torch module;
'rec-extras' = the recorder with args / additional_func_kwargs / **kwargs supplied (the func that is
applied to the edited sequences is the caller's func WITH the caller's extras: both calls must receive
the same model, the same args and additional_func_kwargs+kwargs merged, nothing else differing but the
sequences -- switch: ASSERT_EXTRAS_FORWARDED); 'predict-args' = func=predict with a two-input identity
module that remembers the extra input it was given, batch_size routed through additional_func_kwargs.

Input representation variants (the statement quantifies over sequences and variant lists, not over
how the caller stores them): the row table as int64 or int32; X as int8 / uint8 / int32 / int64 /
bool / float16 / float32 / float64; X contiguous, a transposed view, a strided view, a batch-strided
view, or ONE reference expanded (stride 0) over the batch -- the usual "many variants of one locus"
call.

Sequences are mostly *position-identifying*: alphabet of N*L symbols, example e holds symbol e*L+p
at position p, so the decoded output says exactly which original column of which example sits
where; random sequences over 4 letters are used as well.

Deliberately NOT asserted (the statement is silent): negative positions / examples (python
wrap-around), insertion at coordinate j == L (append; the pinned tree raises, a correct append is
accepted too), repeated insertion coordinates, dtype / memory layout of the tensors reaching func,
whether the caller's X or row table are left untouched, row tables of a dtype torch cannot index with.
Lenient on purpose: rows naming the same position of the same example with DIFFERENT characters
cannot all be honoured; raising, or a one-hot result holding any one of the named characters there,
is accepted -- a column that is not one-hot is not a string-level edit and is reported.
"""
import itertools
import random

import torch

from tangermeme import variant_effect as VE

SCOPE = {
    'quick': 'options first: every kind x 4 observation modes (recorder / predict / recorder with args+additional_func_kwargs+kwargs checked on both calls / '
             'predict with a 2-input module and batch_size routed through additional_func_kwargs) x row table int64|int32 x 8 X dtypes x 5 X memory layouts '
             '(contiguous, transposed view, strided view, batch-strided view, one reference expanded over the batch), 1-4 examples.  '
             'deletions: 1 example, lengths 4-14, EVERY subset of <=3 positions x both trim sides (exhaustive); 2 examples, lengths 4-7, every '
             'pair of subsets of <=3 positions x both sides (exhaustive); 3 examples length 4 every triple of subsets of <=2 positions, 4 examples length 4 every '
             'quadruple of subsets of <=1 position (exhaustive); 2500 seeded random batches of 1-4 x lengths 4-14 biased to the '
             'trimmed edge, incl. repeated rows, shuffled row order, same-reference batches.  insertions: 1 example, lengths 4-14, every single coordinate and every '
             'pair of distinct coordinates x both sides (exhaustive, characters rotated), ALL L coordinates at once and every L-1 of them; 2 examples, lengths 4-6, every pair of '
             'subsets of <=2 coordinates x both sides x row order (example-major / example 1 first / interleaved); 1500 random batches of 1-4 with 0-3 distinct coordinates '
             'per example + 300 with 4..L coordinates in some example.  substitutions: every (position, character) single row for lengths 4-6 (exhaustive); every ordered pair of rows '
             'on position-identifying sequences, 2-3 examples, lengths 4-5 (exhaustive); 1500 random batches incl. '
             'repeated rows, empty row lists, conflicting rows (2-3 characters, any example), position-identifying sequences.  refusal probes: every kind x {position, example, '
             'character} out of range, + 300 random honourable tables with ONE row (any example, any place in the table) pushed out of range, all observation modes.',
    'thorough': 'as quick, plus deletions: 2 examples, lengths 4-12, every pair of subsets of <=3 positions x both sides (exhaustive, run last: a note says where the budget ended it); 3 examples, '
                'length 5 every triple of subsets of <=2 positions; insertions: every triple of distinct coordinates for lengths 4-10; 2 examples lengths 4-8 every pair of subsets of <=2 coordinates x 3 row orders; '
                '40000 / 20000+3000 / 20000 random deletion / insertion / substitution batches; 3000 random corrupted tables',
}


# Two clauses rest on the last sentence of the statement only ("a variant list that cannot be
# honoured raises instead of returning a differently edited sequence"); each has its own finding
# key and can be switched off here without touching the rest of the driver.
ASSERT_CONFLICTING_SUBSTITUTIONS = True    # same (example, position), different characters -> two-hot column on the pinned tree
ASSERT_INSERTION_EXAMPLE_RANGE = True      # insertion row naming example >= N is silently dropped on the pinned tree
# "apply func to ... the edited sequences" / "'before' is func on the reference": func is the caller's
# func with the caller's model, args and keyword extras; a call that loses them applies another
# function.  Own finding key (func-extras-not-forwarded); switch off here if that reading is too strong.
ASSERT_EXTRAS_FORWARDED = True

torch.set_num_threads(1)

XDTYPES = ['int8', 'uint8', 'int32', 'int64', 'bool', 'float16', 'float32', 'float64']
XLAYOUTS = ['contig', 'tview', 'strided', 'bview', 'expand']
VIAS = ['rec', 'predict', 'rec-extras', 'predict-args']


# ----------------------------------------------------------------------------- observers
class _Identity(torch.nn.Module):
    def forward(self, X):
        return X


class _IdentityArgs(torch.nn.Module):
    """forward(X, a) -> X; remembers every `a` it was handed (predict slices args batch by batch)"""

    def __init__(self):
        super().__init__()
        self.seen = []

    def forward(self, X, a):
        self.seen.append(a.detach().clone())
        return X


class _Recorder:
    """func(model, X, args=None, **kwargs) -> X; remembers what it was given"""

    def __init__(self):
        self.seen = []
        self.extras = []

    def __call__(self, model, X, args=None, **kwargs):
        self.seen.append(X.clone())
        self.extras.append((model, args, dict(kwargs)))
        return X


def _encode(seqs, A, dtype, layout='contig'):
    N, L = len(seqs), len(seqs[0])
    dt = getattr(torch, dtype)
    if layout == 'expand' and all(s == seqs[0] for s in seqs):
        base = torch.zeros(1, A, L, dtype=dt)
        for p, c in enumerate(seqs[0]):
            base[0, c, p] = 1
        return base.expand(N, -1, -1)                                 # one reference, stride 0 over the batch
    if layout == 'tview':
        X = torch.zeros(N, L, A, dtype=dt).permute(0, 2, 1)           # alphabet axis is the fastest one in memory
    elif layout == 'strided':
        X = torch.zeros(N, A, 2 * L + 1, dtype=dt)[:, :, 1::2]
    elif layout in ('bview', 'expand'):
        X = torch.zeros(2 * N, A, L, dtype=dt)[::2]
    else:
        X = torch.zeros(N, A, L, dtype=dt)
    for n, s in enumerate(seqs):
        for p, c in enumerate(s):
            X[n, c, p] = 1
    return X


def _decode(T):
    """(N, A, L') tensor -> list of lists of symbol indices, -1 where the column is not one-hot"""
    T = T.detach().to(torch.float64)
    ok = ((T == 0) | (T == 1)).all(dim=1) & (T.sum(dim=1) == 1)
    idx = T.argmax(dim=1)
    return torch.where(ok, idx, torch.full_like(idx, -1)).tolist()


def _show(rows):
    return '|'.join(','.join(str(c) for c in r) for r in rows)


# ----------------------------------------------------------------------------- oracles (pure python, string level)
def oracle_sub(seqs, rows, A):
    """-> (honourable, before, list of admissible per-position sets)"""
    N, L = len(seqs), len(seqs[0])
    if any(b >= N or p >= L or c >= A for b, p, c in rows):
        return False, None, None
    named = {}
    for b, p, c in rows:
        named.setdefault((b, p), set()).add(c)
    conflict = any(len(v) > 1 for v in named.values())
    if not ASSERT_CONFLICTING_SUBSTITUTIONS and conflict:
        return None, None, None
    if conflict:
        # two different characters for one position of one example cannot both be honoured: the last
        # sentence of the statement asks for a refusal, not for a sequence in which one of the rows
        # silently wins ("raises instead of returning a differently edited sequence")
        return False, None, None
    after = [[named.get((n, p), {s[p]}) for p in range(L)] for n, s in enumerate(seqs)]
    return True, [list(s) for s in seqs], after


def oracle_del(seqs, rows, left):
    N, L = len(seqs), len(seqs[0])
    if any(b >= N or p >= L for b, p in rows):
        return False, None, None
    D = [set(p for b, p in rows if b == n) for n in range(N)]
    total = max(len(d) for d in D) if D else 0
    after, before = [], []
    for n, s in enumerate(seqs):
        kept = [s[p] for p in range(L) if p not in D[n]]
        extra = total - len(D[n])
        if extra:
            kept = kept[extra:] if left else kept[:len(kept) - extra]
        after.append(kept)
        before.append(list(s[total:]) if left else list(s[:L - total]))
    return True, before, after


def oracle_ins(seqs, rows, left, A):
    """-> (status, before, after); status in {'ok', 'refuse', 'either'} ('either': j == L present)"""
    N, L = len(seqs), len(seqs[0])
    if any(j > L or c >= A for b, j, c in rows):
        return 'refuse', None, None
    if any(b >= N for b, j, c in rows):
        return ('refuse' if ASSERT_INSERTION_EXAMPLE_RANGE else 'skip'), None, None
    status = 'either' if any(j == L for b, j, c in rows) else 'ok'
    after = []
    for n, s in enumerate(seqs):
        at = {j: c for b, j, c in rows if b == n}
        t = []
        for p in range(L + 1):
            if p in at:
                t.append(at[p])
            if p < L:
                t.append(s[p])
        after.append(t[len(t) - L:] if left else t[:L])
    return status, [list(s) for s in seqs], after


# ----------------------------------------------------------------------------- the check
_EXTRA_AFK = {'alpha': 3, 'start': 1}      # routed through additional_func_kwargs ('start' also is a name used inside ersatz)
_EXTRA_KW = {'gamma': (1, 2), 'verbose': False}


def _same_args(got, exp):
    if got is exp:
        return True
    if not isinstance(got, (tuple, list)) or len(got) != len(exp):
        return False
    return all(isinstance(g, torch.Tensor) and g.shape == e.shape and torch.equal(g, e) for g, e in zip(got, exp))


def check_variant(case):
    kind, A, seqs, rows, left = case['kind'], case['A'], case['seqs'], case['rows'], case.get('left', False)
    N, L = len(seqs), len(seqs[0])
    X = _encode(seqs, A, case.get('xdtype', 'int8'), case.get('xlayout', 'contig'))
    ncol = 2 if kind == 'del' else 3
    R = torch.tensor(rows, dtype=getattr(torch, case.get('rdtype', 'int64'))).reshape(-1, ncol)
    if kind == 'sub':
        honour, before, after = oracle_sub(seqs, rows, A)
        status = 'skip' if honour is None else ('either' if honour == 'either' else ('ok' if honour else 'refuse'))
    elif kind == 'del':
        honour, before, after = oracle_del(seqs, rows, left)
        status = 'ok' if honour else 'refuse'
    else:
        status, before, after = oracle_ins(seqs, rows, left, A)
    if status == 'skip':
        return []
    rec = _Recorder()
    via = case.get('via', 'rec')
    model = _Identity()
    extra_args = None
    if via == 'predict':
        kw = dict(device='cpu', batch_size=case.get('batch_size', 32))
    elif via == 'predict-args':
        model = _IdentityArgs()
        extra_args = (torch.arange(N, dtype=torch.float32).reshape(N, 1) + 0.5,)
        kw = dict(args=extra_args, device='cpu', additional_func_kwargs={'batch_size': case.get('batch_size', 32)})
    elif via == 'rec-extras':
        extra_args = (torch.arange(2 * N, dtype=torch.float32).reshape(N, 2), torch.arange(N))
        kw = dict(func=rec, args=extra_args, additional_func_kwargs=dict(_EXTRA_AFK), **_EXTRA_KW)
    else:
        kw = dict(func=rec)
    try:
        if kind == 'sub':
            yb, ya = VE.substitution_effect(model, X, R, **kw)
        elif kind == 'del':
            yb, ya = VE.deletion_effect(model, X, R, left=left, **kw)
        else:
            yb, ya = VE.insertion_effect(model, X, R, left=left, **kw)
    except Exception as e:
        if status == 'ok':
            return ['%s_effect raised an exception on a variant list that can be honoured (every row in range): %s (%s)' % (
                {'sub': 'substitution', 'del': 'deletion', 'ins': 'insertion'}[kind], type(e).__name__, str(e)[:80])]
        return []
    out = []
    name = {'sub': 'substitution', 'del': 'deletion', 'ins': 'insertion'}[kind]
    if status == 'refuse':
        return ['%s_effect returned although the variant list cannot be honoured (a position, example or character out of range, or two different characters for one position): after=%s'
                % (name, _show(_decode(ya)) if isinstance(ya, torch.Tensor) and ya.dim() == 3 else type(ya).__name__)]
    if via in ('rec', 'rec-extras'):
        if len(rec.seen) != 2:
            return ['%s_effect called func %d times, expected before and after' % (name, len(rec.seen))]
        if not (torch.equal(rec.seen[0], yb) and torch.equal(rec.seen[1], ya)):
            out.append('%s_effect: returned values are not (func(before), func(after)) in this order' % name)
    if via == 'rec-extras' and ASSERT_EXTRAS_FORWARDED:
        want = dict(_EXTRA_AFK)
        want.update(_EXTRA_KW)
        for label, (m_, a_, k_) in zip(('before', 'after'), rec.extras):
            bad = []
            if m_ is not model:
                bad.append('model')
            if not _same_args(a_, extra_args):
                bad.append('args')
            if k_ != want:
                bad.append('keyword arguments %s instead of additional_func_kwargs + kwargs %s' % (sorted(k_), sorted(want)))
            if bad:
                out.append('EXTRAS %s_effect: the %s call of func did not receive the caller\'s %s' % (name, label, ', '.join(bad)))
    if via == 'predict-args' and ASSERT_EXTRAS_FORWARDED:
        got_a = torch.cat(model.seen) if model.seen else torch.zeros(0, 1)
        exp_a = torch.cat([extra_args[0], extra_args[0]])
        if got_a.shape != exp_a.shape or not torch.equal(got_a, exp_a):
            out.append('EXTRAS %s_effect via predict: the model did not receive the caller\'s args once per example for the before and the after pass (got %s)'
                       % (name, got_a.flatten().tolist()))
    for label, got_t, exp in (('before', yb, before), ('after', ya, after)):
        if not isinstance(got_t, torch.Tensor) or got_t.dim() != 3 or got_t.shape[0] != N or got_t.shape[1] != A:
            out.append('%s_effect: the %s tensor reaching func has shape %s' % (name, label, tuple(got_t.shape) if isinstance(got_t, torch.Tensor) else None))
            continue
        got = _decode(got_t)
        if kind == 'sub' and label == 'after':
            good = all(len(g) == len(e) and all(gc in es for gc, es in zip(g, e)) for g, e in zip(got, exp))
            exp_s = '|'.join(','.join('/'.join(map(str, sorted(es))) for es in e) for e in exp)
        else:
            good = got == exp
            exp_s = _show(exp)
        if not good:
            wrong = [n for n in range(N) if (got[n] != exp[n] if not (kind == 'sub' and label == 'after') else
                                             not (len(got[n]) == len(exp[n]) and all(gc in es for gc, es in zip(got[n], exp[n]))))]
            out.append('%s_effect: the sequences reaching func are not the string-level result [%s = %s]: examples %s differ; got %s expected %s (-1 = column not one-hot)'
                       % (name, label, 'edited sequences' if label == 'after' else 'reference trimmed from the same side', wrong, _show(got), exp_s))
    return out


def replay(case):
    if case.get('kind') in ('sub', 'del', 'ins'):
        return check_variant(case)
    return ['unknown replay kind']


# ----------------------------------------------------------------------------- classification of failing inputs
def _classify(case, viol):
    kind, seqs, rows, left = case['kind'], case['seqs'], case['rows'], case.get('left', False)
    N, L, A = len(seqs), len(seqs[0]), case['A']
    if kind == 'del':
        if any(b >= N or p >= L for b, p in rows):
            return 'unhonourable-deletion-accepted'
        D = [set(p for b, p in rows if b == n) for n in range(N)]
        total = max(len(d) for d in D)
        for n in range(N):
            k = total - len(D[n])
            for p in D[n]:
                beyond = [q for q in (range(0, p) if left else range(p + 1, L)) if q not in D[n]]
                if len(beyond) <= k:
                    return 'deletion-inside-trim-flank-kept'
        return 'deletion-mismatch'
    if kind == 'sub':
        if any(b >= N or p >= L or c >= A for b, p, c in rows):
            return 'unhonourable-substitution-accepted'
        named = {}
        for b, p, c in rows:
            named.setdefault((b, p), set()).add(c)
        if any(len(v) > 1 for v in named.values()):
            return 'conflicting-substitutions-not-one-hot'
        return 'substitution-mismatch'
    if any(b >= N for b, j, c in rows) and not any(j > L or c >= A for b, j, c in rows):
        return 'insertion-example-out-of-range-ignored'
    if any(j > L or c >= A for b, j, c in rows):
        return 'unhonourable-insertion-accepted'
    return 'insertion-mismatch'


def _do(rep, case, key, section, sample=False, nontrivial=True):
    viol = check_variant(case)
    rep.case(key, nontrivial=nontrivial, sample=case if sample else None, section=section)
    if viol:
        f = _classify(case, viol)
        for v in viol[:2]:
            rep.violation(v, case, finding='func-extras-not-forwarded' if v.startswith('EXTRAS') else f)


# ----------------------------------------------------------------------------- enumeration
def _ident_seqs(N, L):
    """position-identifying sequences: alphabet N*L, example e holds symbol e*L+p at p"""
    return N * L, [[e * L + p for p in range(L)] for e in range(N)]


def _rand_seqs(g, N, L, A=4):
    return A, [[g.randrange(A) for _ in range(L)] for _ in range(N)]


def _subsets(L, kmax):
    for k in range(kmax + 1):
        for c in itertools.combinations(range(L), k):
            yield c


def _mk(kind, A, seqs, rows, left=False, via='rec', xdtype='int8', batch_size=32, rdtype='int64', xlayout='contig'):
    c = {'kind': kind, 'A': A, 'seqs': seqs, 'rows': [list(r) for r in rows], 'left': left, 'via': via, 'xdtype': xdtype}
    if via in ('predict', 'predict-args'):
        c['batch_size'] = batch_size
    if rdtype != 'int64':
        c['rdtype'] = rdtype
    if xlayout != 'contig':
        c['xlayout'] = xlayout
    return c


def _same_ref(g, N, L, ident):
    """the same reference in every example (the 'many variants of one locus' batch)"""
    if ident:
        return L, [list(range(L)) for _ in range(N)]
    s = [g.randrange(4) for _ in range(L)]
    return 4, [list(s) for _ in range(N)]


def _opts(g):
    """random representation options for the random batches: (via, xdtype, batch_size, rdtype, xlayout)"""
    via = g.choice(['rec', 'rec', 'rec', 'predict', 'rec-extras', 'predict-args'])
    return (via, g.choice(XDTYPES) if g.random() < 0.5 else g.choice(['int8', 'float32']), g.randint(1, 5),
            'int32' if g.random() < 0.3 else 'int64', g.choice(XLAYOUTS) if g.random() < 0.3 else 'contig')


def _rand_rows(g, kind, N, L, A, left):
    """an honourable random table for `kind` (distinct positions per example)"""
    rows = []
    for n in range(N):
        P = g.sample(range(L), g.choice([0, 1, 1, 2, 3]))
        rows += [((n, p) if kind == 'del' else (n, p, g.randrange(A))) for p in P]
    g.shuffle(rows)
    return rows


def _edge_subset(g, L, kmax, left):
    """random subset of <= kmax positions, biased towards the trimmed edge"""
    k = g.randint(0, kmax)
    r = g.random()
    if r < 0.45:
        pool = list(range(0, min(L, 4))) if left else list(range(max(0, L - 4), L))
    elif r < 0.6:
        pool = list(range(0, min(L, 4))) + list(range(max(0, L - 4), L))
    else:
        pool = list(range(L))
    pool = sorted(set(pool))
    return tuple(sorted(g.sample(pool, min(k, len(pool)))))


def _del_pairs(rep, L_from, L_to, done_pair):
    """2 examples: every pair of subsets of <= 3 positions x both trim sides; returns the last completed length"""
    rot = 0
    for L in range(L_from, L_to + 1):
        A, seqs = _ident_seqs(2, L)
        subs = list(_subsets(L, 3))
        for D0 in subs:
            for D1 in subs:
                for left in (False, True):
                    rot += 1
                    rows = [(0, p) for p in D0] + [(1, p) for p in D1]
                    _do(rep, _mk('del', A, seqs, rows, left, 'predict' if rot % 5 == 0 else 'rec'), ('d2', L, D0, D1, left),
                        'deletion-2-examples-exhaustive', sample=(L == 4 and D0 == (2, 3) and D1 == (1,) and not left), nontrivial=bool(rows))
            if rep.out_of_time():
                break
        if rep.out_of_time():
            rep.note('time budget reached in the exhaustive deletion pairs at length %d' % L)
            break
        done_pair = L
    return done_pair


def run(rep):
    thorough = rep.tier == 'thorough'
    g = rep.rng
    rot = 0

    def via():
        return 'predict' if rot % 5 == 0 else 'rec'

    # ============ options: observation modes x row-table dtype x X dtype x X layout, every kind (cheap, first)
    k = 0
    for kind in ('del', 'ins', 'sub'):
        for v in VIAS:
            for rdtype in ('int64', 'int32'):
                combos = [(xd, 'contig') for xd in XDTYPES] + [('int8', xl) for xl in XLAYOUTS[1:]] + [('float32', xl) for xl in XLAYOUTS[1:]]
                for xdtype, xlayout in combos:
                    for rep_i in range(2):
                        k += 1
                        N, L, left = 1 + (k % 4), g.randint(4, 14), (k // 4) % 2 == 1 and kind != 'sub'
                        if xlayout == 'expand':
                            A, seqs = _same_ref(g, N, L, ident=rep_i == 0)
                        else:
                            A, seqs = _ident_seqs(N, L) if rep_i == 0 else _rand_seqs(g, N, L)
                        if kind == 'ins':
                            A += 1
                        rows = _rand_rows(g, kind, N, L, A, left)
                        if not rows:
                            rows = [(N - 1, L - 1) if kind == 'del' else (N - 1, L - 1, A - 1)]
                        _do(rep, _mk(kind, A, seqs, rows, left, v, xdtype, g.randint(1, 5), rdtype, xlayout), ('op', k), 'options-%s' % kind,
                            sample=(kind == 'ins' and v == 'rec-extras' and rdtype == 'int32' and xdtype == 'float16' and rep_i == 0))
    if rep.out_of_time():
        rep.note('time budget reached in the options block')
        return

    # ============ deletions
    # one example: every subset of <= 3 positions, both sides
    for L in range(4, 15):
        A, seqs = _ident_seqs(1, L)
        for D in _subsets(L, 3):
            for left in (False, True):
                rot += 1
                _do(rep, _mk('del', A, seqs, [(0, p) for p in D], left, via()), ('d1', L, D, left), 'deletion-1-example-exhaustive',
                    sample=(L == 5 and D == (3, 4) and not left), nontrivial=len(D) > 0)
        if rep.out_of_time():
            rep.note('time budget reached in deletion part')
            return
    rep.mark_exhaustive('deletion_effect, 1 example, lengths 4-14, every subset of <=3 positions, both trim sides')
    # two examples: every pair of subsets (thorough continues with longer sequences at the very end)
    done_pair = _del_pairs(rep, 4, 7, 3)
    # three / four examples, length 4 (small but exhaustive: all examples interact through the common total)
    for Nn, kmax in ((3, 2), (4, 1)):
        A, seqs = _ident_seqs(Nn, 4)
        subs = list(_subsets(4, kmax))
        for Ds in itertools.product(subs, repeat=Nn):
            for left in (False, True):
                rot += 1
                rows = [(n, p) for n, D in enumerate(Ds) for p in D]
                if rot % 3 == 0:
                    rows.reverse()
                _do(rep, _mk('del', A, seqs, rows, left, via()), ('d%d' % Nn, 4, Ds, left), 'deletion-%d-examples-exhaustive' % Nn, nontrivial=bool(rows))
        if rep.out_of_time():
            rep.note('time budget reached in the exhaustive deletion triples / quadruples')
            break
    else:
        rep.mark_exhaustive('deletion_effect, 3 examples, length 4, every triple of subsets of <=2 positions; 4 examples, length 4, every quadruple of subsets of <=1 position, both trim sides')
    # random batches
    n_del = 40000 if thorough else 2500
    for k in range(n_del):
        if rep.out_of_time():
            rep.note('time budget reached after %d random deletion batches' % k)
            break
        N, L, left = g.randint(1, 4), g.randint(4, 14), g.random() < 0.5
        r = g.random()
        A, seqs = _ident_seqs(N, L) if r < 0.6 else (_rand_seqs(g, N, L) if r < 0.85 else _same_ref(g, N, L, g.random() < 0.5))
        rows = []
        for n in range(N):
            D = _edge_subset(g, L, 3, left)
            rows += [(n, p) for p in D]
            if D and g.random() < 0.15:
                rows += [(n, g.choice(D)) for _ in range(g.randint(1, 3))]   # the same position named again: still one deletion
        g.shuffle(rows)
        rot += 1
        o = _opts(g)
        _do(rep, _mk('del', A, seqs, rows, left, *o), ('dr', k), 'deletion-random', nontrivial=bool(rows))

    # ============ insertions
    Ltrip = 10 if thorough else 0
    for L in range(4, 15):
        A, seqs = _ident_seqs(1, L)
        A += 3                                         # three extra symbols (never in the reference) to insert
        for k in (1, 2, 3):
            if k == 3 and L > Ltrip:
                continue
            for J in itertools.combinations(range(L), k):
                for left in (False, True):
                    rot += 1
                    order = list(J)
                    if rot % 2:
                        order.reverse()
                    rows = [(0, j, A - 3 + (i + rot) % 3) for i, j in enumerate(order)]
                    _do(rep, _mk('ins', A, seqs, rows, left, via()), ('i1', L, J, left), 'insertion-1-example-exhaustive',
                        sample=(L == 5 and J == (1, 4) and left))
        if rep.out_of_time():
            rep.note('time budget reached in insertion part')
            return
    rep.mark_exhaustive('insertion_effect, 1 example, lengths 4-14, every coordinate and every pair of distinct coordinates%s, both trim sides'
                        % (' (triples up to length %d)' % Ltrip if Ltrip else ''))
    # every coordinate at once, and every L-1 of them ("insertions at every coordinate")
    for L in range(4, 15):
        A, seqs = _ident_seqs(1, L)
        A += 3
        for J in [tuple(range(L))] + [tuple(j for j in range(L) if j != o) for o in range(L)]:
            for left in (False, True):
                rot += 1
                order = list(J)
                if rot % 3 == 1:
                    order.reverse()
                elif rot % 3 == 2:
                    g.shuffle(order)
                rows = [(0, j, A - 3 + (i + rot) % 3) for i, j in enumerate(order)]
                _do(rep, _mk('ins', A, seqs, rows, left, via()), ('iall', L, J, left), 'insertion-all-coordinates',
                    sample=(L == 4 and len(J) == 4 and left))
    rep.mark_exhaustive('insertion_effect, 1 example, lengths 4-14, all L coordinates at once and every L-1 of them, both trim sides')
    # two examples: every pair of subsets of <= 2 coordinates x both sides x row order
    L2 = 8 if thorough else 6
    done_i2 = 3
    for L in range(4, L2 + 1):
        A, seqs = _ident_seqs(2, L)
        A += 3
        subs = list(_subsets(L, 2))
        for J0 in subs:
            for J1 in subs:
                for left in (False, True):
                    r0 = [(0, j, A - 3 + (i + j) % 3) for i, j in enumerate(J0)]
                    r1 = [(1, j, A - 3 + (i + j + 1) % 3) for i, j in enumerate(J1)]
                    orders = [r0 + r1, r1 + r0[::-1], [x for pr in itertools.zip_longest(r1[::-1], r0) for x in pr if x is not None]]
                    if not (thorough or L == 4):
                        rot += 1
                        orders = [orders[rot % 3]]
                    for oi, rows in enumerate(orders):
                        rot += 1
                        _do(rep, _mk('ins', A, seqs, rows, left, via()), ('i2', L, J0, J1, left, oi if len(orders) > 1 else -1), 'insertion-2-examples-exhaustive',
                            sample=(L == 4 and J0 == (1, 3) and J1 == (0,) and left and oi == 1), nontrivial=bool(rows))
            if rep.out_of_time():
                break
        if rep.out_of_time():
            rep.note('time budget reached in the exhaustive insertion pairs at length %d' % L)
            break
        done_i2 = L
    if done_i2 >= 4:
        rep.mark_exhaustive('insertion_effect, 2 examples, lengths 4-%d, every pair of subsets of <=2 distinct coordinates, both trim sides (row order: all three at length 4%s)'
                            % (done_i2, ' and above' if thorough else ', rotated above'))
    n_ins = 20000 if thorough else 1500
    for k in range(n_ins):
        if rep.out_of_time():
            rep.note('time budget reached after %d random insertion batches' % k)
            break
        N, L, left = g.randint(1, 4), g.randint(4, 14), g.random() < 0.5
        r = g.random()
        if r < 0.55:
            A, seqs = _ident_seqs(N, L)
            A += 2
        elif r < 0.85:
            A, seqs = _rand_seqs(g, N, L)
        else:
            A, seqs = _same_ref(g, N, L, g.random() < 0.5)
            A += 1
        rows = []
        for n in range(N):
            kk = g.choice([0, 1, 1, 2, 3])
            hi = L if g.random() < 0.08 else L - 1      # j == L (append) occasionally: raise or correct result
            for j in g.sample(range(hi + 1), kk):
                rows.append((n, j, g.randrange(A)))
        g.shuffle(rows)
        rot += 1
        o = _opts(g)
        _do(rep, _mk('ins', A, seqs, rows, left, *o), ('ir', k), 'insertion-random', nontrivial=bool(rows))
    # many coordinates in one example (4..L), the others 0-3
    for k in range(3000 if thorough else 300):
        if rep.out_of_time():
            rep.note('time budget reached after %d random many-coordinate insertion batches' % k)
            break
        N, L, left = g.randint(1, 4), g.randint(4, 14), g.random() < 0.5
        A, seqs = _ident_seqs(N, L)
        A += 2
        big = g.randrange(N)
        rows = []
        for n in range(N):
            kk = g.randint(4, L) if n == big or g.random() < 0.3 else g.choice([0, 1, 2, 3])
            rows += [(n, j, g.randrange(A)) for j in g.sample(range(L), kk)]
        g.shuffle(rows)
        o = _opts(g)
        _do(rep, _mk('ins', A, seqs, rows, left, *o), ('im', k), 'insertion-random-many-coordinates')

    # ============ substitutions
    for L in range(4, 7):
        A, seqs = _rand_seqs(g, 2, L)
        for n in range(2):
            for p in range(L):
                for c in range(A):
                    rot += 1
                    _do(rep, _mk('sub', A, seqs, [(n, p, c)], False, via()), ('s1', L, n, p, c), 'substitution-single-exhaustive',
                        sample=(L == 4 and n == 1 and p == 3 and c == 0))
    rep.mark_exhaustive('substitution_effect, 2 examples, lengths 4-6, every single (example, position, character) row')
    # every ordered pair of rows on position-identifying sequences (which column of which example was overwritten is visible)
    for N, L in ((2, 4), (3, 4), (2, 5), (3, 5)):
        A, seqs = _ident_seqs(N, L)
        A += 2
        cells = [(n, p) for n in range(N) for p in range(L)]
        for c0 in cells:
            for c1 in cells:
                if c0 == c1:
                    continue
                rot += 1
                # new symbol, or the symbol another cell (possibly of the other example) holds
                ch0 = A - 2 if rot % 2 else seqs[c1[0]][c1[1]]
                ch1 = A - 1 if rot % 3 else seqs[c0[0]][c0[1]]
                _do(rep, _mk('sub', A, seqs, [c0 + (ch0,), c1 + (ch1,)], False, via(), rdtype='int32' if rot % 4 == 0 else 'int64'),
                    ('s2', N, L, c0, c1), 'substitution-row-pairs-exhaustive', sample=(N == 2 and L == 4 and c0 == (1, 0) and c1 == (0, 3)))
    rep.mark_exhaustive('substitution_effect, 2-3 examples, lengths 4-5, every ordered pair of rows naming two different (example, position) cells')
    n_sub = 20000 if thorough else 1500
    for k in range(n_sub):
        if rep.out_of_time():
            rep.note('time budget reached after %d random substitution batches' % k)
            break
        N, L = g.randint(1, 4), g.randint(4, 14)
        r = g.random()
        if r < 0.6:
            A, seqs = _rand_seqs(g, N, L, g.choice([2, 4, 4, 5]))
        elif r < 0.85:
            A, seqs = _ident_seqs(N, L)
            A += 1
        else:
            A, seqs = _same_ref(g, N, L, g.random() < 0.5)
        rows = []
        for n in range(N):
            for p in g.sample(range(L), g.choice([0, 1, 2, 3, L])):
                rows.append((n, p, g.randrange(A)))
        r = g.random()
        if rows and r < 0.25:                            # identical rows repeated
            rows += [g.choice(rows) for _ in range(g.randint(1, 3))]
        elif rows and r < 0.35:                          # conflicting rows: same position, another character (sometimes a third one; sometimes the reference character)
            b, p, c = g.choice(rows)
            rows.append((b, p, (c + g.randint(1, A - 1)) % A))
            if A > 2 and g.random() < 0.3:
                rows.append((b, p, g.choice([x for x in range(A) if x != c])))
            if g.random() < 0.3:
                rows.append((b, p, seqs[b][p]))
                if seqs[b][p] == c and len(set(x[2] for x in rows if x[:2] == (b, p))) == 1:
                    rows.append((b, p, (c + 1) % A))
        g.shuffle(rows)
        rot += 1
        o = _opts(g)
        _do(rep, _mk('sub', A, seqs, rows, False, *o), ('sr', k), 'substitution-random', nontrivial=bool(rows))

    # ============ refusal probes: rows that cannot be honoured
    for L in (4, 9, 14):
        for N in (1, 3):
            A, seqs = _rand_seqs(g, N, L)
            for left in (False, True):
                probes = [('sub', [(0, L, 1)]), ('sub', [(0, L + 3, 0)]), ('sub', [(N, 0, 1)]), ('sub', [(0, 1, A)]),
                          ('del', [(0, L)]), ('del', [(N - 1, L + 2)]), ('del', [(N, 1)]),
                          ('ins', [(0, L + 1, 1)]), ('ins', [(0, 2, A)]), ('ins', [(N, 1, 2)]), ('ins', [(N + 2, 0, 0), (0, 1, 1)])]
                for kind, rows in probes:
                    if kind == 'sub' and left:
                        continue
                    rows = rows + ([(0, 3, 0)] if kind != 'del' else [(0, 3)])     # plus one honest row
                    _do(rep, _mk(kind, A, seqs, rows, left), ('rf', L, N, left, kind, tuple(rows)), 'refusal-probes')

    # random honourable tables with ONE row pushed out of range (any example, any place in the table), all observation modes
    for k in range(3000 if thorough else 300):
        if rep.out_of_time():
            rep.note('time budget reached after %d random corrupted tables' % k)
            break
        kind = ('del', 'ins', 'sub')[k % 3]
        N, L, left = g.randint(1, 4), g.randint(4, 14), g.random() < 0.5 and kind != 'sub'
        A, seqs = _rand_seqs(g, N, L) if g.random() < 0.5 else _ident_seqs(N, L)
        rows = _rand_rows(g, kind, N, L, A, left)
        n = g.randrange(N)
        what = g.choice(['pos', 'pos', 'ex'] if kind == 'del' else ['pos', 'pos', 'ex', 'chr'])
        if what == 'pos':
            bad = [n, L + (1 if kind == 'ins' else 0) + g.choice([0, 0, 1, 3])]
        elif what == 'ex':
            bad = [N + g.choice([0, 0, 1, 2]), g.randrange(L)]
        else:
            bad = [n, g.randrange(L)]
        if kind != 'del':
            bad.append(A + g.choice([0, 0, 1]) if what == 'chr' else g.randrange(A))
        if kind != 'del' and what != 'pos':
            rows = [x for x in rows if not (x[0] == bad[0] and x[1] == bad[1])]     # the only thing wrong with the table is the one field
        rows.insert(g.randint(0, len(rows)), tuple(bad))
        o = _opts(g)
        _do(rep, _mk(kind, A, seqs, rows, left, *o), ('rfr', k), 'refusal-random-corrupted')

    # ============ thorough only, last because it is the largest block
    if thorough:
        for L in (5,):
            A, seqs = _ident_seqs(3, L)
            subs = list(_subsets(L, 2))
            for D0, D1, D2 in itertools.product(subs, repeat=3):
                for left in (False, True):
                    rot += 1
                    rows = [(0, p) for p in D0] + [(1, p) for p in D1] + [(2, p) for p in D2]
                    _do(rep, _mk('del', A, seqs, rows, left, via()), ('d3', L, D0, D1, D2, left), 'deletion-3-examples-exhaustive', nontrivial=bool(rows))
            if rep.out_of_time():
                rep.note('time budget reached in the exhaustive deletion triples')
                break
        else:
            rep.mark_exhaustive('deletion_effect, 3 examples, length 5, every triple of subsets of <=2 positions')
        if done_pair == 7 and not rep.out_of_time():
            done_pair = _del_pairs(rep, 8, 12, done_pair)
    rep.mark_exhaustive('deletion_effect, 2 examples, lengths 4-%d, every pair of subsets of <=3 positions, both trim sides' % done_pair)
