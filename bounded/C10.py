"""Bounded stand-in for C10 (variant effects) -- never counted as proved.

Every case calls the REAL variant_effect.{substitution,deletion,insertion}_effect with an identity
observer and compares the two tensors that reach `func` (and the two values returned) with a
string-level oracle written from the statement:

  substitution  s[p] := c for every listed (example, p, c);
  deletion      remove the listed positions of the example, then remove max_e|D_e| - |D_e| further
                characters from the chosen end (left=True: from the left end, else from the right);
  insertion     put c immediately before ORIGINAL coordinate j for every listed (example, j, c)
                (distinct j per example), then keep the last L (left=True) / first L characters;
  before        the reference trimmed to the same length from the same side (L for substitution and
                insertion);
  isolation     every example is edited with its own rows only (examples without rows included);
  refusal       a row that names a position >= L (> L for insertions), an example >= N or a
                character >= A cannot be honoured: the call must raise.

Observation is done two ways: `func` = a recorder that returns its input (exactly "the X / X_var
reaching func"), and the default func=predict with a parameter-free identity torch module.

Sequences are mostly *position-identifying*: alphabet of N*L symbols, example e holds symbol e*L+p
at position p, so the decoded output says exactly which original column of which example sits
where; random sequences over 4 letters are used as well.

Deliberately NOT asserted (the statement is silent): negative positions / examples (python
wrap-around), insertion at coordinate j == L (append; the pinned tree raises, a correct append is
accepted too), repeated insertion coordinates, dtype of the tensors reaching func.
Lenient on purpose: rows naming the same position of the same example with DIFFERENT characters
cannot all be honoured; raising, or a one-hot result holding any one of the named characters there,
is accepted -- a column that is not one-hot is not a string-level edit and is reported.
"""
import itertools
import random

import torch

from tangermeme import variant_effect as VE

SCOPE = {
    'quick': 'deletions: 1 example, lengths 4-14, EVERY subset of <=3 positions x both trim sides (exhaustive); 2 examples, lengths 4-7, every '
             'pair of subsets of <=3 positions x both sides (exhaustive); 2500 seeded random batches of 1-4 x lengths 4-14 biased to the '
             'trimmed edge, incl. repeated rows and shuffled row order.  insertions: 1 example, lengths 4-14, every single coordinate and every '
             'pair of distinct coordinates x both sides (exhaustive, characters rotated); 1500 random batches of 1-4 with 0-3 distinct coordinates '
             'per example.  substitutions: every (position, character) single row for lengths 4-6 (exhaustive); 1500 random batches incl. '
             'repeated rows, empty row lists, conflicting rows.  refusal probes: every kind x {position, example, character} out of range.',
    'thorough': 'as quick, plus deletions: 2 examples, lengths 4-12, every pair of subsets of <=3 positions x both sides (exhaustive, run last: a note says where the budget ended it); 3 examples, '
                'lengths 4-5 every triple of subsets of <=2 positions; insertions: every triple of distinct coordinates for lengths 4-10; '
                '40000 / 20000 / 20000 random deletion / insertion / substitution batches',
}


# Two clauses rest on the last sentence of the statement only ("a variant list that cannot be
# honoured raises instead of returning a differently edited sequence"); each has its own finding
# key and can be switched off here without touching the rest of the driver.
ASSERT_CONFLICTING_SUBSTITUTIONS = True    # same (example, position), different characters -> two-hot column on the pinned tree
ASSERT_INSERTION_EXAMPLE_RANGE = True      # insertion row naming example >= N is silently dropped on the pinned tree


# ----------------------------------------------------------------------------- observers
class _Identity(torch.nn.Module):
    def forward(self, X):
        return X


class _Recorder:
    """func(model, X, args=None, **kwargs) -> X; remembers what it was given"""

    def __init__(self):
        self.seen = []

    def __call__(self, model, X, args=None, **kwargs):
        self.seen.append(X.clone())
        return X


def _encode(seqs, A, dtype):
    N, L = len(seqs), len(seqs[0])
    X = torch.zeros(N, A, L, dtype=getattr(torch, dtype))
    for n, s in enumerate(seqs):
        for p, c in enumerate(s):
            X[n, c, p] = 1
    return X


def _decode(T):
    """(N, A, L') tensor -> list of lists of symbol indices, -1 where the column is not one-hot"""
    ok = ((T == 0) | (T == 1)).all(dim=1) & (T.sum(dim=1) == 1)
    idx = T.argmax(dim=1)
    return torch.where(ok, idx, torch.full_like(idx, -1)).tolist()


def _show(rows):
    return '|'.join(','.join(str(c) for c in r) for r in rows)


# ----------------------------------------------------------------------------- oracles (pure python, string level)
def oracle_sub(seqs, rows, A):
    """-> (honourable, before, list of admissible per-position sets)"""
    N, L = len(seqs), len(seqs[0])
    if any(b >= N or p >= L or c >= A for b, p, c in rows):
        return False, None, None
    named = {}
    for b, p, c in rows:
        named.setdefault((b, p), set()).add(c)
    conflict = any(len(v) > 1 for v in named.values())
    if not ASSERT_CONFLICTING_SUBSTITUTIONS and conflict:
        return None, None, None
    if conflict:
        # two different characters for one position of one example cannot both be honoured: the last
        # sentence of the statement asks for a refusal, not for a sequence in which one of the rows
        # silently wins ("raises instead of returning a differently edited sequence")
        return False, None, None
    after = [[named.get((n, p), {s[p]}) for p in range(L)] for n, s in enumerate(seqs)]
    return True, [list(s) for s in seqs], after


def oracle_del(seqs, rows, left):
    N, L = len(seqs), len(seqs[0])
    if any(b >= N or p >= L for b, p in rows):
        return False, None, None
    D = [set(p for b, p in rows if b == n) for n in range(N)]
    total = max(len(d) for d in D) if D else 0
    after, before = [], []
    for n, s in enumerate(seqs):
        kept = [s[p] for p in range(L) if p not in D[n]]
        extra = total - len(D[n])
        if extra:
            kept = kept[extra:] if left else kept[:len(kept) - extra]
        after.append(kept)
        before.append(list(s[total:]) if left else list(s[:L - total]))
    return True, before, after


def oracle_ins(seqs, rows, left, A):
    """-> (status, before, after); status in {'ok', 'refuse', 'either'} ('either': j == L present)"""
    N, L = len(seqs), len(seqs[0])
    if any(j > L or c >= A for b, j, c in rows):
        return 'refuse', None, None
    if any(b >= N for b, j, c in rows):
        return ('refuse' if ASSERT_INSERTION_EXAMPLE_RANGE else 'skip'), None, None
    status = 'either' if any(j == L for b, j, c in rows) else 'ok'
    after = []
    for n, s in enumerate(seqs):
        at = {j: c for b, j, c in rows if b == n}
        t = []
        for p in range(L + 1):
            if p in at:
                t.append(at[p])
            if p < L:
                t.append(s[p])
        after.append(t[len(t) - L:] if left else t[:L])
    return status, [list(s) for s in seqs], after


# ----------------------------------------------------------------------------- the check
def check_variant(case):
    kind, A, seqs, rows, left = case['kind'], case['A'], case['seqs'], case['rows'], case.get('left', False)
    N, L = len(seqs), len(seqs[0])
    X = _encode(seqs, A, case.get('xdtype', 'int8'))
    ncol = 2 if kind == 'del' else 3
    R = torch.tensor(rows, dtype=torch.int64).reshape(-1, ncol)
    if kind == 'sub':
        honour, before, after = oracle_sub(seqs, rows, A)
        status = 'skip' if honour is None else ('either' if honour == 'either' else ('ok' if honour else 'refuse'))
    elif kind == 'del':
        honour, before, after = oracle_del(seqs, rows, left)
        status = 'ok' if honour else 'refuse'
    else:
        status, before, after = oracle_ins(seqs, rows, left, A)
    if status == 'skip':
        return []
    rec = _Recorder()
    if case.get('via') == 'predict':
        kw = dict(device='cpu', batch_size=case.get('batch_size', 32))
    else:
        kw = dict(func=rec)
    try:
        if kind == 'sub':
            yb, ya = VE.substitution_effect(_Identity(), X, R, **kw)
        elif kind == 'del':
            yb, ya = VE.deletion_effect(_Identity(), X, R, left=left, **kw)
        else:
            yb, ya = VE.insertion_effect(_Identity(), X, R, left=left, **kw)
    except Exception as e:
        if status == 'ok':
            return ['%s_effect raised an exception on a variant list that can be honoured (every row in range): %s (%s)' % (
                {'sub': 'substitution', 'del': 'deletion', 'ins': 'insertion'}[kind], type(e).__name__, str(e)[:80])]
        return []
    out = []
    name = {'sub': 'substitution', 'del': 'deletion', 'ins': 'insertion'}[kind]
    if status == 'refuse':
        return ['%s_effect returned although the variant list cannot be honoured (a position, example or character out of range, or two different characters for one position): after=%s'
                % (name, _show(_decode(ya)) if isinstance(ya, torch.Tensor) and ya.dim() == 3 else type(ya).__name__)]
    if case.get('via') != 'predict':
        if len(rec.seen) != 2:
            return ['%s_effect called func %d times, expected before and after' % (name, len(rec.seen))]
        if not (torch.equal(rec.seen[0], yb) and torch.equal(rec.seen[1], ya)):
            out.append('%s_effect: returned values are not (func(before), func(after)) in this order' % name)
    for label, got_t, exp in (('before', yb, before), ('after', ya, after)):
        if not isinstance(got_t, torch.Tensor) or got_t.dim() != 3 or got_t.shape[0] != N or got_t.shape[1] != A:
            out.append('%s_effect: the %s tensor reaching func has shape %s' % (name, label, tuple(got_t.shape) if isinstance(got_t, torch.Tensor) else None))
            continue
        got = _decode(got_t)
        if kind == 'sub' and label == 'after':
            good = all(len(g) == len(e) and all(gc in es for gc, es in zip(g, e)) for g, e in zip(got, exp))
            exp_s = '|'.join(','.join('/'.join(map(str, sorted(es))) for es in e) for e in exp)
        else:
            good = got == exp
            exp_s = _show(exp)
        if not good:
            wrong = [n for n in range(N) if (got[n] != exp[n] if not (kind == 'sub' and label == 'after') else
                                             not (len(got[n]) == len(exp[n]) and all(gc in es for gc, es in zip(got[n], exp[n]))))]
            out.append('%s_effect: the sequences reaching func are not the string-level result [%s = %s]: examples %s differ; got %s expected %s (-1 = column not one-hot)'
                       % (name, label, 'edited sequences' if label == 'after' else 'reference trimmed from the same side', wrong, _show(got), exp_s))
    return out


def replay(case):
    if case.get('kind') in ('sub', 'del', 'ins'):
        return check_variant(case)
    return ['unknown replay kind']


# ----------------------------------------------------------------------------- classification of failing inputs
def _classify(case, viol):
    kind, seqs, rows, left = case['kind'], case['seqs'], case['rows'], case.get('left', False)
    N, L, A = len(seqs), len(seqs[0]), case['A']
    if kind == 'del':
        if any(b >= N or p >= L for b, p in rows):
            return 'unhonourable-deletion-accepted'
        D = [set(p for b, p in rows if b == n) for n in range(N)]
        total = max(len(d) for d in D)
        for n in range(N):
            k = total - len(D[n])
            for p in D[n]:
                beyond = [q for q in (range(0, p) if left else range(p + 1, L)) if q not in D[n]]
                if len(beyond) <= k:
                    return 'deletion-inside-trim-flank-kept'
        return 'deletion-mismatch'
    if kind == 'sub':
        if any(b >= N or p >= L or c >= A for b, p, c in rows):
            return 'unhonourable-substitution-accepted'
        named = {}
        for b, p, c in rows:
            named.setdefault((b, p), set()).add(c)
        if any(len(v) > 1 for v in named.values()):
            return 'conflicting-substitutions-not-one-hot'
        return 'substitution-mismatch'
    if any(b >= N for b, j, c in rows) and not any(j > L or c >= A for b, j, c in rows):
        return 'insertion-example-out-of-range-ignored'
    if any(j > L or c >= A for b, j, c in rows):
        return 'unhonourable-insertion-accepted'
    return 'insertion-mismatch'


def _do(rep, case, key, section, sample=False, nontrivial=True):
    viol = check_variant(case)
    rep.case(key, nontrivial=nontrivial, sample=case if sample else None, section=section)
    if viol:
        f = _classify(case, viol)
        for v in viol[:2]:
            rep.violation(v, case, finding=f)


# ----------------------------------------------------------------------------- enumeration
def _ident_seqs(N, L):
    """position-identifying sequences: alphabet N*L, example e holds symbol e*L+p at p"""
    return N * L, [[e * L + p for p in range(L)] for e in range(N)]


def _rand_seqs(g, N, L, A=4):
    return A, [[g.randrange(A) for _ in range(L)] for _ in range(N)]


def _subsets(L, kmax):
    for k in range(kmax + 1):
        for c in itertools.combinations(range(L), k):
            yield c


def _mk(kind, A, seqs, rows, left=False, via='rec', xdtype='int8', batch_size=32):
    c = {'kind': kind, 'A': A, 'seqs': seqs, 'rows': [list(r) for r in rows], 'left': left, 'via': via, 'xdtype': xdtype}
    if via == 'predict':
        c['batch_size'] = batch_size
    return c


def _edge_subset(g, L, kmax, left):
    """random subset of <= kmax positions, biased towards the trimmed edge"""
    k = g.randint(0, kmax)
    r = g.random()
    if r < 0.45:
        pool = list(range(0, min(L, 4))) if left else list(range(max(0, L - 4), L))
    elif r < 0.6:
        pool = list(range(0, min(L, 4))) + list(range(max(0, L - 4), L))
    else:
        pool = list(range(L))
    pool = sorted(set(pool))
    return tuple(sorted(g.sample(pool, min(k, len(pool)))))


def _del_pairs(rep, L_from, L_to, done_pair):
    """2 examples: every pair of subsets of <= 3 positions x both trim sides; returns the last completed length"""
    rot = 0
    for L in range(L_from, L_to + 1):
        A, seqs = _ident_seqs(2, L)
        subs = list(_subsets(L, 3))
        for D0 in subs:
            for D1 in subs:
                for left in (False, True):
                    rot += 1
                    rows = [(0, p) for p in D0] + [(1, p) for p in D1]
                    _do(rep, _mk('del', A, seqs, rows, left, 'predict' if rot % 5 == 0 else 'rec'), ('d2', L, D0, D1, left),
                        'deletion-2-examples-exhaustive', sample=(L == 4 and D0 == (2, 3) and D1 == (1,) and not left), nontrivial=bool(rows))
            if rep.out_of_time():
                break
        if rep.out_of_time():
            rep.note('time budget reached in the exhaustive deletion pairs at length %d' % L)
            break
        done_pair = L
    return done_pair


def run(rep):
    thorough = rep.tier == 'thorough'
    g = rep.rng
    rot = 0

    def via():
        return 'predict' if rot % 5 == 0 else 'rec'

    # ============ deletions
    # one example: every subset of <= 3 positions, both sides
    for L in range(4, 15):
        A, seqs = _ident_seqs(1, L)
        for D in _subsets(L, 3):
            for left in (False, True):
                rot += 1
                _do(rep, _mk('del', A, seqs, [(0, p) for p in D], left, via()), ('d1', L, D, left), 'deletion-1-example-exhaustive',
                    sample=(L == 5 and D == (3, 4) and not left), nontrivial=len(D) > 0)
        if rep.out_of_time():
            rep.note('time budget reached in deletion part')
            return
    rep.mark_exhaustive('deletion_effect, 1 example, lengths 4-14, every subset of <=3 positions, both trim sides')
    # two examples: every pair of subsets (thorough continues with longer sequences at the very end)
    done_pair = _del_pairs(rep, 4, 7, 3)
    # random batches
    n_del = 40000 if thorough else 2500
    for k in range(n_del):
        if rep.out_of_time():
            rep.note('time budget reached after %d random deletion batches' % k)
            break
        N, L, left = g.randint(1, 4), g.randint(4, 14), g.random() < 0.5
        A, seqs = _ident_seqs(N, L) if g.random() < 0.7 else _rand_seqs(g, N, L)
        rows = []
        for n in range(N):
            D = _edge_subset(g, L, 3, left)
            rows += [(n, p) for p in D]
            if D and g.random() < 0.1:
                rows.append((n, g.choice(D)))          # the same position named twice: still one deletion
        g.shuffle(rows)
        rot += 1
        _do(rep, _mk('del', A, seqs, rows, left, via(), g.choice(['int8', 'float32', 'int64']), g.randint(1, 5)), ('dr', k), 'deletion-random',
            nontrivial=bool(rows))

    # ============ insertions
    Ltrip = 10 if thorough else 0
    for L in range(4, 15):
        A, seqs = _ident_seqs(1, L)
        A += 3                                         # three extra symbols (never in the reference) to insert
        for k in (1, 2, 3):
            if k == 3 and L > Ltrip:
                continue
            for J in itertools.combinations(range(L), k):
                for left in (False, True):
                    rot += 1
                    order = list(J)
                    if rot % 2:
                        order.reverse()
                    rows = [(0, j, A - 3 + (i + rot) % 3) for i, j in enumerate(order)]
                    _do(rep, _mk('ins', A, seqs, rows, left, via()), ('i1', L, J, left), 'insertion-1-example-exhaustive',
                        sample=(L == 5 and J == (1, 4) and left))
        if rep.out_of_time():
            rep.note('time budget reached in insertion part')
            return
    rep.mark_exhaustive('insertion_effect, 1 example, lengths 4-14, every coordinate and every pair of distinct coordinates%s, both trim sides'
                        % (' (triples up to length %d)' % Ltrip if Ltrip else ''))
    n_ins = 20000 if thorough else 1500
    for k in range(n_ins):
        if rep.out_of_time():
            rep.note('time budget reached after %d random insertion batches' % k)
            break
        N, L, left = g.randint(1, 4), g.randint(4, 14), g.random() < 0.5
        if g.random() < 0.6:
            A, seqs = _ident_seqs(N, L)
            A += 2
        else:
            A, seqs = _rand_seqs(g, N, L)
        rows = []
        for n in range(N):
            kk = g.choice([0, 1, 1, 2, 3])
            hi = L if g.random() < 0.08 else L - 1      # j == L (append) occasionally: raise or correct result
            for j in g.sample(range(hi + 1), kk):
                rows.append((n, j, g.randrange(A)))
        g.shuffle(rows)
        rot += 1
        _do(rep, _mk('ins', A, seqs, rows, left, via(), g.choice(['int8', 'float32']), g.randint(1, 5)), ('ir', k), 'insertion-random', nontrivial=bool(rows))

    # ============ substitutions
    for L in range(4, 7):
        A, seqs = _rand_seqs(g, 2, L)
        for n in range(2):
            for p in range(L):
                for c in range(A):
                    rot += 1
                    _do(rep, _mk('sub', A, seqs, [(n, p, c)], False, via()), ('s1', L, n, p, c), 'substitution-single-exhaustive',
                        sample=(L == 4 and n == 1 and p == 3 and c == 0))
    rep.mark_exhaustive('substitution_effect, 2 examples, lengths 4-6, every single (example, position, character) row')
    n_sub = 20000 if thorough else 1500
    for k in range(n_sub):
        if rep.out_of_time():
            rep.note('time budget reached after %d random substitution batches' % k)
            break
        N, L = g.randint(1, 4), g.randint(4, 14)
        A, seqs = _rand_seqs(g, N, L, g.choice([2, 4, 4, 5]))
        rows = []
        for n in range(N):
            for p in g.sample(range(L), g.choice([0, 1, 2, 3, L])):
                rows.append((n, p, g.randrange(A)))
        r = g.random()
        if rows and r < 0.25:                            # identical rows repeated
            rows += [g.choice(rows) for _ in range(g.randint(1, 3))]
        elif rows and r < 0.33:                          # conflicting rows: same position, another character
            b, p, c = g.choice(rows)
            rows.append((b, p, (c + g.randint(1, A - 1)) % A))
        g.shuffle(rows)
        rot += 1
        _do(rep, _mk('sub', A, seqs, rows, False, via(), g.choice(['int8', 'float32']), g.randint(1, 5)), ('sr', k), 'substitution-random',
            nontrivial=bool(rows))

    # ============ refusal probes: rows that cannot be honoured
    for L in (4, 9, 14):
        for N in (1, 3):
            A, seqs = _rand_seqs(g, N, L)
            for left in (False, True):
                probes = [('sub', [(0, L, 1)]), ('sub', [(0, L + 3, 0)]), ('sub', [(N, 0, 1)]), ('sub', [(0, 1, A)]),
                          ('del', [(0, L)]), ('del', [(N - 1, L + 2)]), ('del', [(N, 1)]),
                          ('ins', [(0, L + 1, 1)]), ('ins', [(0, 2, A)]), ('ins', [(N, 1, 2)]), ('ins', [(N + 2, 0, 0), (0, 1, 1)])]
                for kind, rows in probes:
                    if kind == 'sub' and left:
                        continue
                    rows = rows + ([(0, 3, 0)] if kind != 'del' else [(0, 3)])     # plus one honest row
                    _do(rep, _mk(kind, A, seqs, rows, left), ('rf', L, N, left, kind, tuple(rows)), 'refusal-probes')

    # ============ thorough only, last because it is the largest block
    if thorough:
        for L in (4, 5):
            A, seqs = _ident_seqs(3, L)
            subs = list(_subsets(L, 2))
            for D0, D1, D2 in itertools.product(subs, repeat=3):
                for left in (False, True):
                    rot += 1
                    rows = [(0, p) for p in D0] + [(1, p) for p in D1] + [(2, p) for p in D2]
                    _do(rep, _mk('del', A, seqs, rows, left, via()), ('d3', L, D0, D1, D2, left), 'deletion-3-examples-exhaustive', nontrivial=bool(rows))
            if rep.out_of_time():
                rep.note('time budget reached in the exhaustive deletion triples')
                break
        else:
            rep.mark_exhaustive('deletion_effect, 3 examples, lengths 4-5, every triple of subsets of <=2 positions')
        if done_pair == 7 and not rep.out_of_time():
            done_pair = _del_pairs(rep, 8, 12, done_pair)
    rep.mark_exhaustive('deletion_effect, 2 examples, lengths 4-%d, every pair of subsets of <=3 positions, both trim sides' % done_pair)
