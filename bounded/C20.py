"""Bounded stand-in for C20 (greedy motif substitution) -- never counted as proved.

Every case calls the REAL design.greedy_substitution with a small integer-valued float64 model
(exact arithmetic: every output, every loss sum and -- for 1, 2, 4 or 8 selected outputs -- every
loss mean is exactly representable) and compares the returned sequence with a brute-force
reference written from the statement:

  at each step evaluate EVERY (motif m, position p) with 0 <= p <= L - len(m) by substituting at
  the string level and running the model; best = smallest loss; improvement = current loss - best;
  improvement <= 0            -> stop, nothing applied;
  iteration count == max_iter -> stop (max_iter = -1: no limit);
  improvement > tol           -> apply a best candidate, continue;
  0 < improvement <= tol      -> stop.

The reference is a *set* of admissible results: on ties every minimiser may be taken, and in the
last situation (positive improvement not above tol) the statement does not say whether that last
small substitution is still applied (the pinned tree applies it, then stops), so both are accepted.
If the number of selected outputs is not a power of two the float mean is not exact, and an
improvement within 1e-9 of tol is treated as either side.  Cases whose admissible set needs more
than 400 explored states are only checked for the global clauses.

Global clauses checked on every case: result is a one-hot tensor of the original shape; its loss is
not above the loss of the start; max_iter = 0 returns the start; membership in the admissible set
(which implies "differs only inside substituted windows").
Not checked: `args` (the function tiles X but not args, so predict refuses any args; the statement
does not mention them), the unused `start` parameter, motifs longer than the sequence, whether the
caller's X is left untouched, the dtype of the result.

Extended cases (`_gen_ext`, interleaved 2 : 3 with the original generator so that a time cut hits both
alike) add the input classes the original generator never produced; the oracle is the same
brute-force enumeration, only generalised to flat lists of selected outputs:
  * models with per-example outputs of shape (n_out, T) ("profile" heads): the per-candidate loss is the
    mean over ALL non-batch axes, the mask selects channels (axis 1);
  * models that ignore a stretch of positions (zero first-layer weights, "receptive field"): every
    substitution inside the stretch has improvement exactly 0 and must not be applied, and the search
    ends on an iteration whose best improvement is exactly 0;
  * losses for which the argument order and the sign matter: asym(y, y_hat) = 2 relu(y - y_hat) +
    relu(y_hat - y) (the documented call is loss(y, y_hat)) and negdot = -(y * y_hat) (negative losses),
    passed as plain functions; MSE / L1 also as plain functions instead of torch modules;
  * float32 models / targets (only where every sum stays below 2**24 and the number of selected outputs
    is a power of two, i.e. where float32 is still exact), mixed target / model dtypes;
  * X of dtype int64 / float64, X handed over as a non-contiguous view;
  * motif lists with a duplicated motif, with a motif that is already present in the sequence (a no-op
    candidate with improvement 0), ordered longest first;
  * `alphabet` / `batch_size` left to their defaults, verbose=True (output swallowed; it must not change
    the result);
  * tol equal to the exact improvement of the 1st .. 5th step of the reference path, or one loss quantum
    below / above it (pins down "not above tol" on later iterations, not only on the first).
"""

# POSSIBLE DEFECT ------------------------------------------------------------------------------------
# A mask of the full per-example output shape (n_out, T) on a model with (n_out, T) outputs -- still "a
# mask over outputs" in the sense of the quantifier -- makes greedy_substitution raise on the unchanged
# tree: y_hat[:, mask] is then 2-D, but the mean is taken over range(1, y_hat.ndim) of the UNMASKED
# prediction (design.py L160-163):
#     IndexError: Dimension out of range (expected to be in range of [-2, 1], but got 2)
# Input: model = Net(A=4, L=12, n_out=3, hidden=3, kind='lin', seed=1, T=4), X = one-hot 'AAAAAAAAAAAA',
#        motifs ['ACG', 'TT'], y = zeros(1, 3, 4), mask = bool tensor of shape (3, 4) with at least one
#        True, device='cpu'  (a channel mask of shape (3,) works).
# The docstring only documents y of shape (1, n), so this may be read as outside the contract; the cases
# are generated (60 in quick, 600 in thorough) only if the flag below is True.
FULL_SHAPE_MASK_ON_PROFILE_OUTPUTS = False

import random
from fractions import Fraction

import torch

from tangermeme.design import greedy_substitution

SCOPE = {
    'quick': '2200 seeded random cases: sequence length 8-40 (length 8 over-weighted so that motifs of length 8 fit only at position 0), '
             '1-5 motifs of length 1-8 over alphabets of 2-5 letters (ACGT mostly), integer relu / linear models with 1-8 outputs, masks selecting '
             '1-8 outputs, MSE and L1 loss, tol in {0, 1e-3, 0.25, 0.5, 1, 2, exact first improvement}, max_iter in {-1, 0, 1, 2, 3, 4}, batch sizes 1-64, '
             'int8 / float32 X; targets: random, or the model output with a motif planted at the LAST fitting position / the first position / a random position, '
             'or with 2-4 motifs planted (multi-step paths); interleaved with 1400 extended cases: models with (n_out, T) profile outputs (T 2-8) and channel masks, '
             'models blind to a stretch of positions (exact zero-improvement candidates), asymmetric / negative-valued / plain-function losses, float32 models and targets '
             '(exact range only) and mixed dtypes, X of dtype int64/float64 and non-contiguous X, duplicated / already-present / longest-first motif lists, '
             'default alphabet and batch_size, verbose=True, tol at / one quantum below / one quantum above the exact improvement of step 1-5 of the reference path',
    'thorough': 'as quick with 24000 + 16000 seeded random cases',
}

F64 = torch.float64
CAP = 400


CALL_TIMEOUT_S = 30


class _deadline:
    """a loop that never stops (e.g. the accepted loss not carried forward with max_iter = -1) must not hang
    the driver: SIGALRM-based guard, only armed in the main thread"""

    def __init__(self, seconds):
        self.seconds = seconds
        self.armed = False

    def _fire(self, signum, frame):
        raise TimeoutError('no result within %d s' % self.seconds)

    def __enter__(self):
        import signal
        import threading
        if hasattr(signal, 'SIGALRM') and threading.current_thread() is threading.main_thread():
            self.old = signal.signal(signal.SIGALRM, self._fire)
            signal.setitimer(signal.ITIMER_REAL, self.seconds)
            self.armed = True
        return self

    def __exit__(self, *exc):
        if self.armed:
            import signal
            signal.setitimer(signal.ITIMER_REAL, 0)
            signal.signal(signal.SIGALRM, self.old)
        return False


class Net(torch.nn.Module):
    """integer-valued two-layer model; T: per-example output of shape (n_out, T) instead of (n_out,);
    dead = [lo, hi): the model ignores positions lo .. hi-1; dtype: parameter / output dtype"""

    def __init__(self, A, L, n_out, hidden, kind, seed, T=None, dead=None, dtype=F64):
        super().__init__()
        g = random.Random(seed)

        def mat(r, c, lo, hi):
            return torch.tensor([float(g.randint(lo, hi)) for _ in range(r * c)], dtype=F64).reshape(r, c)
        self.kind, self.T, self.n_out, self.dt = kind, T, n_out, dtype
        W1 = mat(hidden, A * L, -2, 2)
        b1 = mat(1, hidden, -1, 1)
        W2 = mat(n_out * (T or 1), hidden, -2, 2)
        if dead:
            W1 = W1.reshape(hidden, A, L)
            W1[:, :, dead[0]:dead[1]] = 0
            W1 = W1.reshape(hidden, A * L)
        self.W1 = torch.nn.Parameter(W1.to(dtype), requires_grad=False)
        self.b1 = torch.nn.Parameter(b1.to(dtype), requires_grad=False)
        self.W2 = torch.nn.Parameter(W2.to(dtype), requires_grad=False)

    def forward(self, X):
        h = X.reshape(X.shape[0], -1).to(self.dt) @ self.W1.T + self.b1
        if self.kind == 'relu':
            h = torch.relu(h)
        o = h @ self.W2.T
        return o.reshape(X.shape[0], self.n_out, self.T) if self.T else o


def _model(case, oracle=False):
    """oracle=True: the same integer weights in float64 (the reference never depends on float32)"""
    m = case['model']
    dt = F64 if oracle else getattr(torch, m.get('dtype', 'float64'))
    return Net(len(case['alphabet']), len(case['seq']), m['n_out'], m['hidden'], m['type'], m['seed'],
               T=m.get('T'), dead=m.get('dead'), dtype=dt)


def _outputs(model, A, seqs):
    """integer outputs (flattened per example) of the model on index-level sequences (own one-hot construction)"""
    X = torch.nn.functional.one_hot(torch.tensor(seqs, dtype=torch.int64), A).permute(0, 2, 1).to(F64)
    with torch.no_grad():
        Y = model(X)
    return [[int(v) for v in row] for row in Y.reshape(Y.shape[0], -1).tolist()]


def _loss(o, y, sel, kind):
    """mean over the selected outputs of loss(y, y_hat = o), exact"""
    if kind == 'mse':
        S = sum((y[j] - o[j]) ** 2 for j in sel)
    elif kind == 'l1':
        S = sum(abs(y[j] - o[j]) for j in sel)
    elif kind == 'asym':                           # 2 relu(y - y_hat) + relu(y_hat - y): predicting too little costs double
        S = sum(2 * (y[j] - o[j]) if y[j] > o[j] else o[j] - y[j] for j in sel)
    elif kind == 'negdot':                         # -(y * y_hat): negative losses
        S = sum(-(y[j] * o[j]) for j in sel)
    else:
        raise ValueError(kind)
    return Fraction(S, len(sel))


def _flat(v):
    return [x for row in v for x in row] if v and isinstance(v[0], (list, tuple)) else list(v)


def _setup(case):
    """-> alphabet, start sequence and motifs as index tuples, flat indices of the selected outputs
    (an output (j, t) of a profile model has flat index j * T + t; a 1-D mask selects channels j)"""
    alphabet = case['alphabet']
    idx = {ch: i for i, ch in enumerate(alphabet)}
    seq = tuple(idx[ch] for ch in case['seq'])
    motifs = [tuple(idx[ch] for ch in m) for m in case['motifs']]
    n_out, T = case['model']['n_out'], case['model'].get('T')
    mask = case['mask']
    if mask is None:
        sel = list(range(n_out * (T or 1)))
    elif T and isinstance(mask[0], (list, tuple)):
        sel = [j * T + t for j in range(n_out) for t in range(T) if mask[j][t]]
    elif T:
        sel = [j * T + t for j in range(n_out) if mask[j] for t in range(T)]
    else:
        sel = [j for j in range(n_out) if mask[j]]
    return alphabet, seq, motifs, sel


def _pow2(n):
    return n > 0 and n & (n - 1) == 0


def admissible(case, model, skip_last=False):
    """-> (set of admissible final sequences or None if capped, max accepted steps, used_last_position)"""
    alphabet, seq0, motifs, sel = _setup(case)
    A, L = len(alphabet), len(seq0)
    y, kind = _flat(case['y']), case['loss']
    tol = Fraction(case['tol'])
    max_iter = case['max_iter']
    exact_mean = _pow2(len(sel))
    finals, seen, stack = set(), set(), [(seq0, 0)]
    info = {'steps': 0, 'last': False}
    cache = {}

    def loss_of(s):
        if s not in cache:
            cache[s] = _loss(_outputs(model, A, [s])[0], y, sel, kind)
        return cache[s]

    while stack:
        state, it = stack.pop()
        if (state, it) in seen:
            continue
        seen.add((state, it))
        if len(seen) > CAP:
            return None, info['steps'], info['last']
        if it == max_iter:
            finals.add(state)
            continue
        cands = []
        for m in motifs:
            hi = len(state) - len(m) + (0 if skip_last else 1)
            for p in range(0, hi):
                cands.append((m, p, state[:p] + m + state[p + len(m):]))
        if not cands:
            finals.add(state)
            continue
        outs = _outputs(model, A, [c[2] for c in cands])
        losses = [_loss(o, y, sel, kind) for o in outs]
        for c, l in zip(cands, losses):
            cache[c[2]] = l
        best = min(losses)
        imp = loss_of(state) - best
        if imp <= 0:
            finals.add(state)
            continue
        nxt = set()
        for (m, p, s), l in zip(cands, losses):
            if l == best:
                nxt.add(s)
                if p == len(state) - len(m):
                    info['last'] = True
        near = (not exact_mean) and abs(imp - tol) <= Fraction(1, 10 ** 9)
        if imp <= tol or near:
            finals.add(state)             # stop without applying ...
            finals.update(nxt)            # ... or apply the last small step and stop (both accepted)
            info['steps'] = max(info['steps'], it + 1)
        if imp > tol or near:
            info['steps'] = max(info['steps'], it + 1)
            for s in nxt:
                stack.append((s, it + 1))
    return finals, info['steps'], info['last']


_LOSS_FN = {
    'mse': lambda y, y_hat: (y - y_hat) ** 2,
    'l1': lambda y, y_hat: (y - y_hat).abs(),
    'asym': lambda y, y_hat: 2 * torch.relu(y - y_hat) + torch.relu(y_hat - y),
    'negdot': lambda y, y_hat: -(y * y_hat),
}


def _call(case, model):
    alphabet, seq0, motifs, sel = _setup(case)
    A, L = len(alphabet), len(seq0)
    xdt = getattr(torch, case.get('xdtype', 'int8'))
    if case.get('xlayout') == 'permuted':          # same values, handed over as a non-contiguous view
        X = torch.zeros(1, L, A, dtype=xdt).permute(0, 2, 1)
    else:
        X = torch.zeros(1, A, L, dtype=xdt)
    for p, c in enumerate(seq0):
        X[0, c, p] = 1
    y = torch.tensor([case['y']], dtype=getattr(torch, case.get('ydtype', 'float64')))
    kw = dict(tol=case['tol'], max_iter=case['max_iter'], device='cpu')
    if not case.get('omit_alphabet'):
        kw['alphabet'] = alphabet
    if case['batch_size'] is not None:
        kw['batch_size'] = case['batch_size']
    if case['mask'] is not None:
        kw['mask'] = torch.tensor(case['mask'], dtype=torch.bool)
    if case.get('loss_form') == 'fn':
        kw['loss'] = _LOSS_FN[case['loss']]
    elif case['loss'] == 'l1':
        kw['loss'] = torch.nn.L1Loss(reduction='none')
    elif case['loss'] != 'mse':
        raise ValueError('loss %r needs loss_form fn' % case['loss'])
    elif case.get('explicit_loss'):
        kw['loss'] = torch.nn.MSELoss(reduction='none')
    motif_arg = list(case['motifs'])                # documented type: list of strings
    with _deadline(CALL_TIMEOUT_S):
        if case.get('verbose'):
            import contextlib
            import io
            kw['verbose'] = True
            with contextlib.redirect_stdout(io.StringIO()), contextlib.redirect_stderr(io.StringIO()):
                return greedy_substitution(model, X, motif_arg, y, **kw)
        return greedy_substitution(model, X, motif_arg, y, **kw)


def _models(case):
    """-> (model handed to greedy_substitution, float64 model of the same integer weights for the reference)"""
    model = _model(case)
    return model, (model if model.dt == F64 else _model(case, oracle=True))


def check_greedy(case, _info=None):
    alphabet, seq0, motifs, sel = _setup(case)
    A, L = len(alphabet), len(seq0)
    y = _flat(case['y'])
    model, ref = _models(case)
    fin, steps, last = admissible(case, ref)
    if _info is not None:
        _info.update(steps=steps, last=last, capped=fin is None, n_final=None if fin is None else len(fin))
    try:
        R = _call(case, model)
    except Exception as e:
        return ['greedy_substitution raised an exception on a valid request (every motif fits in the sequence): %s (%s); motif lengths %s, L=%d'
                % (type(e).__name__, str(e)[:80], [len(m) for m in motifs], L)]
    if not isinstance(R, torch.Tensor) or tuple(R.shape) != (1, A, L):
        return ['result is not a tensor of the original shape (1, %d, %d): %s' % (A, L, tuple(R.shape) if isinstance(R, torch.Tensor) else type(R).__name__)]
    ok = ((R == 0) | (R == 1)).all(dim=1) & (R.sum(dim=1) == 1)
    if not bool(ok.all()):
        return ['result is not a valid one-hot sequence']
    got = tuple(R[0].argmax(dim=0).tolist())
    out = []
    l0 = _loss(_outputs(ref, A, [seq0])[0], y, sel, case['loss'])
    l1 = _loss(_outputs(ref, A, [got])[0], y, sel, case['loss'])
    dec = lambda s: ''.join(alphabet[c] for c in s)
    if l1 > l0:
        out.append('loss of the result is higher than the loss of the starting sequence: %s > %s (result %s)' % (l1, l0, dec(got)))
    if case['max_iter'] == 0 and got != seq0:
        out.append('max_iter = 0 but the sequence was changed: %s' % dec(got))
    if fin is not None and got not in fin:
        fl = sorted(fin, key=lambda s: _loss(_outputs(ref, A, [s])[0], y, sel, case['loss']))
        out.append('result is not what greedy best-substitution steps over ALL fitting positions produce (ties / tol boundary allowed for): '
                   'got %s (loss %s), admissible e.g. %s (loss %s); start %s (loss %s); %d admissible result(s)'
                   % (dec(got), l1, dec(fl[0]), _loss(_outputs(ref, A, [fl[0]])[0], y, sel, case['loss']), dec(seq0), l0, len(fin)))
    return out


def replay(case):
    return _replay(case)


def _replay_impl(case):
    if case.get('kind') == 'greedy':
        return check_greedy(case)
    return ['unknown replay kind']


def _classify(case, viol):
    """'last-fitting-position-not-tried' iff the result (or the exception) is explained by a search that
    leaves out position L - len(motif) for every motif"""
    alphabet, seq0, motifs, sel = _setup(case)
    if any('raised' in v for v in viol):
        return 'last-fitting-position-not-tried' if any(len(m) == len(seq0) for m in motifs) else 'greedy-raises'
    model, ref = _models(case)
    try:
        R = _call(case, model)
        got = tuple(R[0].argmax(dim=0).tolist())
        fin, _, _ = admissible(case, ref, skip_last=True)
        if fin is not None and got in fin:
            return 'last-fitting-position-not-tried'
    except Exception:
        pass
    return 'greedy-mismatch'


# ----------------------------------------------------------------------------- generation
def _single_thread(fn):
    """design._fast_tile_substitute is numba-parallel; one numba thread keeps the run time stable on a
    loaded machine (restored afterwards)"""
    def wrapped(*a, **k):
        import numba
        old = numba.get_num_threads()
        numba.set_num_threads(1)
        try:
            return fn(*a, **k)
        finally:
            numba.set_num_threads(old)
    return wrapped


_replay = _single_thread(_replay_impl)


_ALPHABETS = [['A', 'C', 'G', 'T']] * 6 + [['A', 'C'], ['A', 'C', 'G'], ['A', 'C', 'G', 'T', 'U'], ['T', 'G', 'C', 'A']]


def _gen(g, k):
    alphabet = g.choice(_ALPHABETS)
    A = len(alphabet)
    L = 8 if g.random() < 0.2 else g.randint(8, 40)
    seq = ''.join(g.choice(alphabet) for _ in range(L))
    nm = g.randint(1, 5)
    motifs = []
    for _ in range(nm):
        ml = 8 if (L == 8 and g.random() < 0.3) else g.randint(1, 8)
        motifs.append(''.join(g.choice(alphabet) for _ in range(ml)))
    n_out = g.choice([1, 2, 3, 4, 5, 8])
    model = {'n_out': n_out, 'hidden': g.randint(2, 6), 'type': g.choice(['relu', 'relu', 'lin']), 'seed': g.randrange(10 ** 6)}
    r = g.random()
    if r < 0.35:
        mask = None
    else:
        ksel = g.choice([1, 2, 4, 8, g.randint(1, n_out)])
        ksel = min(ksel, n_out)
        on = set(g.sample(range(n_out), ksel))
        mask = [j in on for j in range(n_out)]
    case = {'kind': 'greedy', 'alphabet': alphabet, 'seq': seq, 'motifs': motifs, 'model': model, 'mask': mask,
            'loss': 'l1' if g.random() < 0.2 else 'mse', 'explicit_loss': g.random() < 0.2,
            'tol': g.choice([0.0, 0.0, 0.0, 1e-3, 1e-3, 0.25, 0.5, 1.0, 2.0]), 'max_iter': g.choice([-1, -1, -1, 0, 1, 2, 3, 4, 4]),
            'batch_size': g.choice([1, 2, 7, 32, 64, g.randint(1, 64)]), 'xdtype': g.choice(['int8', 'int8', 'float32'])}
    net = _model(dict(case, y=None))
    idx = {ch: i for i, ch in enumerate(alphabet)}
    s0 = tuple(idx[c] for c in seq)
    tk = g.random()
    if tk < 0.3:
        mi = g.randrange(nm)
        m = tuple(idx[c] for c in motifs[mi])
        p = L - len(m)
        case['target'] = 'planted-last'
    elif tk < 0.37:
        m = tuple(idx[c] for c in motifs[g.randrange(nm)])
        p = 0
        case['target'] = 'planted-first'
    elif tk < 0.45:
        m = tuple(idx[c] for c in motifs[g.randrange(nm)])
        p = g.randint(0, L - len(m))
        case['target'] = 'planted-random'
    elif tk < 0.82:                                  # several motifs planted: a multi-step path exists
        m, p = (), 0
        for _ in range(g.randint(2, 4)):
            mm = tuple(idx[c] for c in motifs[g.randrange(nm)])
            q = g.choice([L - len(mm), g.randint(0, L - len(mm)), g.randint(0, L - len(mm))])
            s0 = s0[:q] + mm + s0[q + len(mm):]
        case['target'] = 'planted-multi'
    else:
        m = None
        case['target'] = 'random'
    if m is not None:
        y = _outputs(net, A, [s0[:p] + m + s0[p + len(m):]])[0]
        if g.random() < 0.3:                       # planted, then perturbed: the best loss is not 0
            y = [v + g.randint(-1, 1) for v in y]
    else:
        base = _outputs(net, A, [s0])[0]
        y = [v + g.randint(-6, 6) for v in base]
    case['y'] = y
    if g.random() < 0.12:                           # tol == exact first improvement (boundary of "not above tol")
        _, s0, motifs_i, sel = _setup(case)
        c1 = dict(case, tol=0.0, max_iter=1)
        cands = [s0[:q] + mm + s0[q + len(mm):] for mm in motifs_i for q in range(L - len(mm) + 1)]
        ls = [_loss(o, y, sel, case['loss']) for o in _outputs(net, A, cands)]
        imp = _loss(_outputs(net, A, [s0])[0], y, sel, case['loss']) - min(ls)
        if imp > 0 and float(imp) == imp:
            case['tol'] = float(imp)
    return case


_XDTYPES = ['int8', 'int8', 'float32', 'int64', 'float64']   # every further dtype costs one numba compilation of _fast_tile_substitute (~1 s)


def _ref_improvements(case, net, n=5):
    """exact improvements of the first n steps of the reference path (first minimiser on ties, tol ignored)"""
    alphabet, s, motifs, sel = _setup(case)
    A, y, kind = len(alphabet), _flat(case['y']), case['loss']
    cur = _loss(_outputs(net, A, [s])[0], y, sel, kind)
    out = []
    for _ in range(n):
        cands = [s[:q] + m + s[q + len(m):] for m in motifs for q in range(len(s) - len(m) + 1)]
        ls = [_loss(o, y, sel, kind) for o in _outputs(net, A, cands)]
        best = min(ls)
        if cur - best <= 0:
            break
        out.append(cur - best)
        s, cur = cands[ls.index(best)], best
    return out


def _gen_ext(g, k, mask2d=False):
    """input classes the original generator never produces (see the module docstring); case['feats'] names them"""
    feats = []
    alphabet = g.choice(_ALPHABETS)
    A = len(alphabet)
    L = 8 if g.random() < 0.15 else g.randint(8, 40)
    seq = ''.join(g.choice(alphabet) for _ in range(L))
    nm = g.randint(1, 5)
    motifs = []
    for _ in range(nm):
        ml = 8 if (L == 8 and g.random() < 0.3) else g.randint(1, 8)
        motifs.append(''.join(g.choice(alphabet) for _ in range(ml)))
    if nm >= 2 and g.random() < 0.15:
        i, j = g.sample(range(nm), 2)
        motifs[j] = motifs[i]
        feats.append('duplicate-motif')
    if g.random() < 0.15:
        ml = g.randint(1, 8)
        q = g.randint(0, L - ml)
        motifs[g.randrange(nm)] = seq[q:q + ml]
        feats.append('motif-already-present')
    if nm >= 2 and g.random() < 0.25:
        motifs.sort(key=len, reverse=True)
        feats.append('longest-first')
    T = g.choice([2, 2, 4, 4, 8, 3]) if (mask2d or g.random() < 0.4) else None
    n_out = g.choice([1, 2, 3, 4]) if T else g.choice([1, 2, 3, 4, 5, 8])
    dtype = 'float32' if g.random() < 0.3 else 'float64'
    model = {'n_out': n_out, 'hidden': g.randint(2, 3) if dtype == 'float32' else g.randint(2, 6),
             'type': g.choice(['relu', 'relu', 'lin']), 'seed': g.randrange(10 ** 6)}
    if T:
        model['T'] = T
        feats.append('profile-output')
    if g.random() < 0.35:
        w = g.randint(max(2, L // 4), (3 * L) // 4)
        lo = g.randint(0, L - w)
        model['dead'] = [lo, lo + w]
        feats.append('blind-stretch')
    if mask2d:
        mask = [[g.random() < 0.5 for _ in range(T)] for _ in range(n_out)]
        mask[g.randrange(n_out)][g.randrange(T)] = True
        feats.append('full-shape-mask')
    elif g.random() < 0.35:
        mask = None
    else:
        ksel = min(g.choice([1, 2, 4, 8, g.randint(1, n_out)]), n_out)
        on = set(g.sample(range(n_out), ksel))
        mask = [j in on for j in range(n_out)]
    r = g.random()
    loss = 'asym' if r < 0.3 else 'negdot' if r < 0.4 else 'l1' if r < 0.55 else 'mse'
    loss_form = 'fn' if (loss in ('asym', 'negdot') or g.random() < 0.3) else 'module'
    feats.append('loss-%s-%s' % (loss, loss_form))
    case = {'kind': 'greedy', 'alphabet': alphabet, 'seq': seq, 'motifs': motifs, 'model': model, 'mask': mask,
            'loss': loss, 'loss_form': loss_form, 'explicit_loss': g.random() < 0.2,
            'tol': g.choice([0.0, 0.0, 0.0, 0.0, 1e-3, 1e-3, 0.25, 0.5, 1.0, 2.0]), 'max_iter': g.choice([-1, -1, -1, 0, 1, 2, 3, 4, 4]),
            'batch_size': g.choice([1, 2, 7, 32, 64, g.randint(1, 64)]), 'xdtype': g.choice(_XDTYPES)}
    net = _model(dict(case, y=None), oracle=True)
    idx = {ch: i for i, ch in enumerate(alphabet)}
    s0 = tuple(idx[c] for c in seq)
    mots = [tuple(idx[c] for c in m) for m in motifs]
    tk = g.random()
    if loss == 'negdot' or tk < 0.2:
        case['target'] = 'random'
        y = [v + g.randint(-6, 6) for v in _outputs(net, A, [s0])[0]]
    else:
        if tk < 0.4:
            plant, case['target'] = [(g.choice(mots), 'last')], 'planted-last'
        elif tk < 0.5:
            plant, case['target'] = [(g.choice(mots), 'any')], 'planted-random'
        else:
            plant, case['target'] = [(g.choice(mots), g.choice(['last', 'any', 'any'])) for _ in range(g.randint(2, 4))], 'planted-multi'
        s1 = s0
        for mm, where in plant:
            q = L - len(mm) if where == 'last' else g.randint(0, L - len(mm))
            s1 = s1[:q] + mm + s1[q + len(mm):]
        y = _outputs(net, A, [s1])[0]
        if g.random() < 0.3:
            y = [v + g.randint(-1, 1) for v in y]
    case['y'] = [y[j * T:(j + 1) * T] for j in range(n_out)] if T else y
    nsel = len(_setup(case)[3])
    # float32 only where it is exact: |output| <= 2 hidden (2 L + 1), |y - output| <= twice that + 6
    bound = 2 * model['hidden'] * (2 * L + 1)
    ok32 = _pow2(nsel) and nsel * (2 * bound + 6) ** 2 < 2 ** 24
    if dtype == 'float32' and ok32:
        model['dtype'] = case['ydtype'] = 'float32'
        feats.append('float32-model-and-target')
    elif g.random() < 0.15:                          # mixed: the loss is then computed in float64
        if g.random() < 0.5:
            model['dtype'] = 'float32'
        else:
            case['ydtype'] = 'float32'
        feats.append('mixed-dtypes')
    if g.random() < 0.4:
        imps = _ref_improvements(case, net)
        if imps:
            i = g.randrange(len(imps))
            t = imps[i] + g.choice([0, 0, -1, 1]) * (Fraction(1, nsel) if _pow2(nsel) else Fraction(1, 4))
            if t >= 0 and Fraction(float(t)) == t:
                case['tol'] = float(t)
                feats.append('tol-at-step-%d' % (i + 1))
    if g.random() < 0.25:
        case['xlayout'] = 'permuted'
        feats.append('non-contiguous-X')
    if alphabet == ['A', 'C', 'G', 'T'] and g.random() < 0.4:
        case['omit_alphabet'] = True
        feats.append('default-alphabet')
    if g.random() < 0.2:
        case['batch_size'] = None
        feats.append('default-batch-size')
    if g.random() < 0.03:
        case['verbose'] = True
        feats.append('verbose')
    case['feats'] = feats
    return case


def _one(rep, key, case, sample, prefix=''):
    info = {}
    viol = check_greedy(case, info)
    st = info.get('steps', 0)
    rep.case(key, nontrivial=bool(st), sample=sample,
             section=prefix + ('capped' if info.get('capped') else ('steps-%s' % min(st, 3) + ('+' if st >= 3 else ''))))
    if info.get('last') and not info.get('capped'):
        rep.sections['best-placement-at-last-fitting-position'] = rep.sections.get('best-placement-at-last-fitting-position', 0) + 1
    for f in case.get('feats', ()):
        f = 'ext:' + (f if not f.startswith('tol-at-step') else 'tol-at-path-improvement')
        rep.sections[f] = rep.sections.get(f, 0) + 1
    if viol:
        f = _classify(case, viol)
        for v in viol[:2]:
            rep.violation(v, case, finding=f)


@_single_thread
def run(rep):
    thorough = rep.tier == 'thorough'
    g = rep.rng
    if FULL_SHAPE_MASK_ON_PROFILE_OUTPUTS:
        for k in range(600 if thorough else 60):
            _one(rep, ('m', k), _gen_ext(g, k, mask2d=True), None, 'ext-')
    n_old, n_ext = (24000, 16000) if thorough else (2200, 1400)
    ko = kx = i = 0
    while ko < n_old or kx < n_ext:
        if rep.out_of_time():
            rep.note('time budget reached after %d original and %d extended cases' % (ko, kx))
            break
        ext = (i % 5 in (2, 4) or ko >= n_old) and kx < n_ext
        i += 1
        if ext:
            case = _gen_ext(g, kx)
            _one(rep, ('x', kx), case, case if kx < 2 else None, 'ext-')
            kx += 1
        else:
            case = _gen(g, ko)
            _one(rep, ('g', ko), case, case if ko < 2 else None)
            ko += 1
