"""Bounded stand-in for C20 (greedy motif substitution) -- never counted as proved.

Every case calls the REAL design.greedy_substitution with a small integer-valued float64 model
(exact arithmetic: every output, every loss sum and -- for 1, 2, 4 or 8 selected outputs -- every
loss mean is exactly representable) and compares the returned sequence with a brute-force
reference written from the statement:

  at each step evaluate EVERY (motif m, position p) with 0 <= p <= L - len(m) by substituting at
  the string level and running the model; best = smallest loss; improvement = current loss - best;
  improvement <= 0            -> stop, nothing applied;
  iteration count == max_iter -> stop (max_iter = -1: no limit);
  improvement > tol           -> apply a best candidate, continue;
  0 < improvement <= tol      -> stop.

The reference is a *set* of admissible results: on ties every minimiser may be taken, and in the
last situation (positive improvement not above tol) the statement does not say whether that last
small substitution is still applied (the pinned tree applies it, then stops), so both are accepted.
If the number of selected outputs is not a power of two the float mean is not exact, and an
improvement within 1e-9 of tol is treated as either side.  Cases whose admissible set needs more
than 400 explored states are only checked for the global clauses.

Global clauses checked on every case: result is a one-hot tensor of the original shape; its loss is
not above the loss of the start; max_iter = 0 returns the start; membership in the admissible set
(which implies "differs only inside substituted windows").
Not checked: `args` (the function tiles X but not args, so predict refuses any args; the statement
does not mention them), `verbose`, the unused `start` parameter, motifs longer than the sequence.
"""
import random
from fractions import Fraction

import torch

from tangermeme.design import greedy_substitution

SCOPE = {
    'quick': '2500 seeded random cases: sequence length 8-40 (length 8 over-weighted so that motifs of length 8 fit only at position 0), '
             '1-5 motifs of length 1-8 over alphabets of 2-5 letters (ACGT mostly), integer relu / linear models with 1-8 outputs, masks selecting '
             '1-8 outputs, MSE and L1 loss, tol in {0, 1e-3, 0.25, 0.5, 1, 2, exact first improvement}, max_iter in {-1, 0, 1, 2, 3, 4}, batch sizes 1-64, '
             'int8 / float32 X; targets: random, or the model output with a motif planted at the LAST fitting position / the first position / a random position, '
             'or with 2-4 motifs planted (multi-step paths)',
    'thorough': 'as quick with 40000 seeded random cases',
}

F64 = torch.float64
CAP = 400


CALL_TIMEOUT_S = 30


class _deadline:
    """a loop that never stops (e.g. the accepted loss not carried forward with max_iter = -1) must not hang
    the driver: SIGALRM-based guard, only armed in the main thread"""

    def __init__(self, seconds):
        self.seconds = seconds
        self.armed = False

    def _fire(self, signum, frame):
        raise TimeoutError('no result within %d s' % self.seconds)

    def __enter__(self):
        import signal
        import threading
        if hasattr(signal, 'SIGALRM') and threading.current_thread() is threading.main_thread():
            self.old = signal.signal(signal.SIGALRM, self._fire)
            signal.setitimer(signal.ITIMER_REAL, self.seconds)
            self.armed = True
        return self

    def __exit__(self, *exc):
        if self.armed:
            import signal
            signal.setitimer(signal.ITIMER_REAL, 0)
            signal.signal(signal.SIGALRM, self.old)
        return False


class Net(torch.nn.Module):
    def __init__(self, A, L, n_out, hidden, kind, seed):
        super().__init__()
        g = random.Random(seed)

        def mat(r, c, lo, hi):
            return torch.nn.Parameter(torch.tensor([float(g.randint(lo, hi)) for _ in range(r * c)], dtype=F64).reshape(r, c), requires_grad=False)
        self.kind = kind
        self.W1 = mat(hidden, A * L, -2, 2)
        self.b1 = mat(1, hidden, -1, 1)
        self.W2 = mat(n_out, hidden, -2, 2)

    def forward(self, X):
        h = X.reshape(X.shape[0], -1).to(F64) @ self.W1.T + self.b1
        if self.kind == 'relu':
            h = torch.relu(h)
        return h @ self.W2.T


def _model(case):
    m = case['model']
    return Net(len(case['alphabet']), len(case['seq']), m['n_out'], m['hidden'], m['type'], m['seed'])


def _outputs(model, A, seqs):
    """integer outputs of the model on index-level sequences (own one-hot construction)"""
    X = torch.nn.functional.one_hot(torch.tensor(seqs, dtype=torch.int64), A).permute(0, 2, 1).to(F64)
    with torch.no_grad():
        Y = model(X)
    return [[int(v) for v in row] for row in Y.tolist()]


def _loss(o, y, sel, kind):
    if kind == 'mse':
        S = sum((y[j] - o[j]) ** 2 for j in sel)
    else:
        S = sum(abs(y[j] - o[j]) for j in sel)
    return Fraction(S, len(sel))


def _setup(case):
    alphabet = case['alphabet']
    idx = {ch: i for i, ch in enumerate(alphabet)}
    seq = tuple(idx[ch] for ch in case['seq'])
    motifs = [tuple(idx[ch] for ch in m) for m in case['motifs']]
    n_out = case['model']['n_out']
    sel = [j for j in range(n_out) if case['mask'] is None or case['mask'][j]]
    return alphabet, seq, motifs, sel


def admissible(case, model, skip_last=False):
    """-> (set of admissible final sequences or None if capped, max accepted steps, used_last_position)"""
    alphabet, seq0, motifs, sel = _setup(case)
    A, L = len(alphabet), len(seq0)
    y, kind = case['y'], case['loss']
    tol = Fraction(case['tol'])
    max_iter = case['max_iter']
    exact_mean = len(sel) in (1, 2, 4, 8)
    finals, seen, stack = set(), set(), [(seq0, 0)]
    info = {'steps': 0, 'last': False}
    cache = {}

    def loss_of(s):
        if s not in cache:
            cache[s] = _loss(_outputs(model, A, [s])[0], y, sel, kind)
        return cache[s]

    while stack:
        state, it = stack.pop()
        if (state, it) in seen:
            continue
        seen.add((state, it))
        if len(seen) > CAP:
            return None, info['steps'], info['last']
        if it == max_iter:
            finals.add(state)
            continue
        cands = []
        for m in motifs:
            hi = len(state) - len(m) + (0 if skip_last else 1)
            for p in range(0, hi):
                cands.append((m, p, state[:p] + m + state[p + len(m):]))
        if not cands:
            finals.add(state)
            continue
        outs = _outputs(model, A, [c[2] for c in cands])
        losses = [_loss(o, y, sel, kind) for o in outs]
        for c, l in zip(cands, losses):
            cache[c[2]] = l
        best = min(losses)
        imp = loss_of(state) - best
        if imp <= 0:
            finals.add(state)
            continue
        nxt = set()
        for (m, p, s), l in zip(cands, losses):
            if l == best:
                nxt.add(s)
                if p == len(state) - len(m):
                    info['last'] = True
        near = (not exact_mean) and abs(imp - tol) <= Fraction(1, 10 ** 9)
        if imp <= tol or near:
            finals.add(state)             # stop without applying ...
            finals.update(nxt)            # ... or apply the last small step and stop (both accepted)
            info['steps'] = max(info['steps'], it + 1)
        if imp > tol or near:
            info['steps'] = max(info['steps'], it + 1)
            for s in nxt:
                stack.append((s, it + 1))
    return finals, info['steps'], info['last']


def _call(case, model):
    alphabet, seq0, motifs, sel = _setup(case)
    A, L = len(alphabet), len(seq0)
    X = torch.zeros(1, A, L, dtype=getattr(torch, case.get('xdtype', 'int8')))
    for p, c in enumerate(seq0):
        X[0, c, p] = 1
    y = torch.tensor([case['y']], dtype=F64)
    kw = dict(tol=case['tol'], max_iter=case['max_iter'], alphabet=alphabet, batch_size=case['batch_size'], device='cpu')
    if case['mask'] is not None:
        kw['mask'] = torch.tensor(case['mask'], dtype=torch.bool)
    if case['loss'] == 'l1':
        kw['loss'] = torch.nn.L1Loss(reduction='none')
    elif case.get('explicit_loss'):
        kw['loss'] = torch.nn.MSELoss(reduction='none')
    with _deadline(CALL_TIMEOUT_S):
        return greedy_substitution(model, X, list(case['motifs']), y, **kw)


def check_greedy(case, _info=None):
    alphabet, seq0, motifs, sel = _setup(case)
    A, L = len(alphabet), len(seq0)
    model = _model(case)
    fin, steps, last = admissible(case, model)
    if _info is not None:
        _info.update(steps=steps, last=last, capped=fin is None, n_final=None if fin is None else len(fin))
    try:
        R = _call(case, model)
    except Exception as e:
        return ['greedy_substitution raised an exception on a valid request (every motif fits in the sequence): %s (%s); motif lengths %s, L=%d'
                % (type(e).__name__, str(e)[:80], [len(m) for m in motifs], L)]
    if not isinstance(R, torch.Tensor) or tuple(R.shape) != (1, A, L):
        return ['result is not a tensor of the original shape (1, %d, %d): %s' % (A, L, tuple(R.shape) if isinstance(R, torch.Tensor) else type(R).__name__)]
    ok = ((R == 0) | (R == 1)).all(dim=1) & (R.sum(dim=1) == 1)
    if not bool(ok.all()):
        return ['result is not a valid one-hot sequence']
    got = tuple(R[0].argmax(dim=0).tolist())
    out = []
    l0 = _loss(_outputs(model, A, [seq0])[0], case['y'], sel, case['loss'])
    l1 = _loss(_outputs(model, A, [got])[0], case['y'], sel, case['loss'])
    dec = lambda s: ''.join(alphabet[c] for c in s)
    if l1 > l0:
        out.append('loss of the result is higher than the loss of the starting sequence: %s > %s (result %s)' % (l1, l0, dec(got)))
    if case['max_iter'] == 0 and got != seq0:
        out.append('max_iter = 0 but the sequence was changed: %s' % dec(got))
    if fin is not None and got not in fin:
        fl = sorted(fin, key=lambda s: _loss(_outputs(model, A, [s])[0], case['y'], sel, case['loss']))
        out.append('result is not what greedy best-substitution steps over ALL fitting positions produce (ties / tol boundary allowed for): '
                   'got %s (loss %s), admissible e.g. %s (loss %s); start %s (loss %s); %d admissible result(s)'
                   % (dec(got), l1, dec(fl[0]), _loss(_outputs(model, A, [fl[0]])[0], case['y'], sel, case['loss']), dec(seq0), l0, len(fin)))
    return out


def replay(case):
    return _replay(case)


def _replay_impl(case):
    if case.get('kind') == 'greedy':
        return check_greedy(case)
    return ['unknown replay kind']


def _classify(case, viol):
    """'last-fitting-position-not-tried' iff the result (or the exception) is explained by a search that
    leaves out position L - len(motif) for every motif"""
    alphabet, seq0, motifs, sel = _setup(case)
    if any('raised' in v for v in viol):
        return 'last-fitting-position-not-tried' if any(len(m) == len(seq0) for m in motifs) else 'greedy-raises'
    model = _model(case)
    try:
        R = _call(case, model)
        got = tuple(R[0].argmax(dim=0).tolist())
        fin, _, _ = admissible(case, model, skip_last=True)
        if fin is not None and got in fin:
            return 'last-fitting-position-not-tried'
    except Exception:
        pass
    return 'greedy-mismatch'


# ----------------------------------------------------------------------------- generation
def _single_thread(fn):
    """design._fast_tile_substitute is numba-parallel; one numba thread keeps the run time stable on a
    loaded machine (restored afterwards)"""
    def wrapped(*a, **k):
        import numba
        old = numba.get_num_threads()
        numba.set_num_threads(1)
        try:
            return fn(*a, **k)
        finally:
            numba.set_num_threads(old)
    return wrapped


_replay = _single_thread(_replay_impl)


_ALPHABETS = [['A', 'C', 'G', 'T']] * 6 + [['A', 'C'], ['A', 'C', 'G'], ['A', 'C', 'G', 'T', 'U'], ['T', 'G', 'C', 'A']]


def _gen(g, k):
    alphabet = g.choice(_ALPHABETS)
    A = len(alphabet)
    L = 8 if g.random() < 0.2 else g.randint(8, 40)
    seq = ''.join(g.choice(alphabet) for _ in range(L))
    nm = g.randint(1, 5)
    motifs = []
    for _ in range(nm):
        ml = 8 if (L == 8 and g.random() < 0.3) else g.randint(1, 8)
        motifs.append(''.join(g.choice(alphabet) for _ in range(ml)))
    n_out = g.choice([1, 2, 3, 4, 5, 8])
    model = {'n_out': n_out, 'hidden': g.randint(2, 6), 'type': g.choice(['relu', 'relu', 'lin']), 'seed': g.randrange(10 ** 6)}
    r = g.random()
    if r < 0.35:
        mask = None
    else:
        ksel = g.choice([1, 2, 4, 8, g.randint(1, n_out)])
        ksel = min(ksel, n_out)
        on = set(g.sample(range(n_out), ksel))
        mask = [j in on for j in range(n_out)]
    case = {'kind': 'greedy', 'alphabet': alphabet, 'seq': seq, 'motifs': motifs, 'model': model, 'mask': mask,
            'loss': 'l1' if g.random() < 0.2 else 'mse', 'explicit_loss': g.random() < 0.2,
            'tol': g.choice([0.0, 0.0, 0.0, 1e-3, 1e-3, 0.25, 0.5, 1.0, 2.0]), 'max_iter': g.choice([-1, -1, -1, 0, 1, 2, 3, 4, 4]),
            'batch_size': g.choice([1, 2, 7, 32, 64, g.randint(1, 64)]), 'xdtype': g.choice(['int8', 'int8', 'float32'])}
    net = _model(dict(case, y=None))
    idx = {ch: i for i, ch in enumerate(alphabet)}
    s0 = tuple(idx[c] for c in seq)
    tk = g.random()
    if tk < 0.3:
        mi = g.randrange(nm)
        m = tuple(idx[c] for c in motifs[mi])
        p = L - len(m)
        case['target'] = 'planted-last'
    elif tk < 0.37:
        m = tuple(idx[c] for c in motifs[g.randrange(nm)])
        p = 0
        case['target'] = 'planted-first'
    elif tk < 0.45:
        m = tuple(idx[c] for c in motifs[g.randrange(nm)])
        p = g.randint(0, L - len(m))
        case['target'] = 'planted-random'
    elif tk < 0.82:                                  # several motifs planted: a multi-step path exists
        m, p = (), 0
        for _ in range(g.randint(2, 4)):
            mm = tuple(idx[c] for c in motifs[g.randrange(nm)])
            q = g.choice([L - len(mm), g.randint(0, L - len(mm)), g.randint(0, L - len(mm))])
            s0 = s0[:q] + mm + s0[q + len(mm):]
        case['target'] = 'planted-multi'
    else:
        m = None
        case['target'] = 'random'
    if m is not None:
        y = _outputs(net, A, [s0[:p] + m + s0[p + len(m):]])[0]
        if g.random() < 0.3:                       # planted, then perturbed: the best loss is not 0
            y = [v + g.randint(-1, 1) for v in y]
    else:
        base = _outputs(net, A, [s0])[0]
        y = [v + g.randint(-6, 6) for v in base]
    case['y'] = y
    if g.random() < 0.12:                           # tol == exact first improvement (boundary of "not above tol")
        _, s0, motifs_i, sel = _setup(case)
        c1 = dict(case, tol=0.0, max_iter=1)
        cands = [s0[:q] + mm + s0[q + len(mm):] for mm in motifs_i for q in range(L - len(mm) + 1)]
        ls = [_loss(o, y, sel, case['loss']) for o in _outputs(net, A, cands)]
        imp = _loss(_outputs(net, A, [s0])[0], y, sel, case['loss']) - min(ls)
        if imp > 0 and float(imp) == imp:
            case['tol'] = float(imp)
    return case


@_single_thread
def run(rep):
    thorough = rep.tier == 'thorough'
    g = rep.rng
    n = 40000 if thorough else 2500
    for k in range(n):
        if rep.out_of_time():
            rep.note('time budget reached after %d cases' % k)
            break
        case = _gen(g, k)
        info = {}
        viol = check_greedy(case, info)
        rep.case(('g', k), nontrivial=bool(info.get('steps')), sample=case if k < 2 else None,
                 section='capped' if info.get('capped') else ('steps-%s' % min(info.get('steps', 0), 3) + ('+' if info.get('steps', 0) >= 3 else '')))
        if info.get('last') and not info.get('capped'):
            rep.sections['best-placement-at-last-fitting-position'] = rep.sections.get('best-placement-at-last-fitting-position', 0) + 1
        if viol:
            f = _classify(case, viol)
            for v in viol[:2]:
                rep.violation(v, case, finding=f)
