"""Bounded stand-in for C12 (FIMO hits) -- never counted as proved.

Observed: the DataFrames / counts returned by the REAL `tangermeme.tools.fimo.fimo`.

Oracle: a pure-Python reference scanner written from the statement.  For every motif and strand
(the '-' strand scans the reverse-complemented motif P[::-1, ::-1]) it uses the exact tail
distribution of the discretised score (big-int oracle of bounded/C11.py):
   threshold bin  b* = lowest bin whose exact tail probability is < threshold,
   score threshold T = b* * bin_size,
   window (sequence s, start i, 0 <= i <= len(s) - w) is a hit  iff  score(s, i) > T,
   score = sum over the window of log2((pwm+eps)/0.25), unknown characters contribute 0,
   p-value of a hit = exact tail probability of the bin floor(score / bin_size).
Guards against demanding more than the statement says (floating point only):
   * windows whose score is within 1e-11 (relative) of T are "free" (may or may not be reported);
   * if some bin has a tail probability within 1e-9 (relative) of the requested threshold, every
     window between the two possible thresholds is free;
   * score compared to 1e-9 relative; p-value to 1e-9 relative, the bin of a score within 1e-11 of
     a bin edge may be either neighbour; for NEGATIVE scores both floor and truncation toward zero
     are admitted (the statement does not say; DESIGN: undecided);
   * row order inside a DataFrame is not asserted; for dim=1 only "one frame per sequence that has
     hits, each frame one sequence, union = the dim=0 hit set" is asserted;
   * PWMs are float64 tensors (what read_meme produces).
The float guards are switched OFF where no rounding can occur (family (e) below): when every log-odds term of a
window is a small dyadic rational (integer, here) and the bin size is a power of two, the score, the score threshold
and the score bin are exact in float64 whatever the summation order, so a window scoring EXACTLY the threshold must
not be reported ("exceeds") and its p-value must be the entry of its one bin.
Relational clauses (real run versus real run): reverse complement of the sequences gives the
mirror image with strands exchanged; FASTA == tensor input; dim=1 == dim=0; return_counts ==
row counts; numba thread counts 1..16 (numba.set_num_threads, capped at NUMBA_NUM_THREADS of the
machine) give identical results; MEME file == dict of the same PWMs (each matrix followed by a
URL line and a blank line, so that the separate read_meme property C16 is not involved).

Input variants of the SAME mathematical input (case keys xvar / pvar / names / snames / desc / lower, all replayed):
one-hot sequences as torch float32/float64/float16/int8/uint8/int64, numpy float32/int8 (Fortran order)/bool, a
non-contiguous (N, L, 4)-stored tensor; PWM tensors column-major, strided slices of a wider matrix, requires_grad;
motif names that end in '-rc', contain ':' or '.', have different lengths; FASTA record names that are unsorted /
numeric / followed by a description, FASTA text soft-masked (lower case = the same base, upper() in the anchored
code; the statement's "FASTA versus tensor input describe the same hit set" is read with FASTA's usual case
convention), IUPAC ambiguity codes besides N (all "unknown characters", score contribution 0, also after reverse
complementing), N-rich and all-N sequences (score 0 everywhere: hits iff the score threshold is negative).
Call histories (kind 'history'): 3-5 consecutive calls, each differing from the previous one in one respect, each
judged in full; optionally the same dict / tensor objects are passed again after an in-place update.

Finding keys
   score-equal-to-threshold-reported   (exact family) a window whose score equals the score threshold is reported
   last-window-not-scanned        a window at start = L - w that must be reported is not
   float32-score-threshold        a window whose score lies within float32 rounding of the score
                                  threshold is reported with p >= threshold, or is dropped
   return-counts-forward-only-raises   fimo(reverse_complement=False, return_counts=True) raises
                                  IndexError instead of returning the counts
   pvalue-table-wrong             the discrepancy is explained by the p-value table of that motif
                                  being wrong (property C11; diagnosed by comparing the real
                                  _pwm_to_mapping output with the exact table)
   None                           anything else
"""
import itertools
import math
import os
import random
import tempfile

import numpy
import torch
import numba

from tangermeme.tools import fimo as F

from bounded.C11 import (ALPHA, log_odds, exact_tail, compare_table, random_pwm, one_hot, window_score,
                         score_bins)

COMP = {'A': 'T', 'C': 'G', 'G': 'C', 'T': 'A', 'N': 'N'}
THRESHOLDS = [1e-1, 3e-2, 1e-2, 1e-3, 1e-4, 1e-5, 1e-6]
BINS = [0.05, 0.1, 0.1, 0.1, 0.25, 0.5, 1.0]
EPSS = [1e-6, 1e-5, 1e-4, 1e-4, 1e-3, 1e-2, 0.1]

SCOPE = {
    'quick': '1-8 float64 PWMs of width 2-20 (random Dirichlet / zero entries / one-hot / uniform columns; palindromic motifs, the same '
             'matrix under two names, a motif together with its reverse complement), eps 1e-6..0.1, bin 0.05-1, threshold 1e-1..1e-6, both '
             'strands or forward only; sequences with unknown characters (N, other IUPAC codes; a few, many, or nothing else): '
             '(a) random, 1-4 sequences of length 1..120, as array (equal lengths) or FASTA (different lengths, some shorter than the motif, '
             'L = w included, wrapped lines); (b) consensus of a motif (and of its reverse complement) planted at EVERY offset 0..L-w of a '
             'random background, one sequence per offset; (c) directed: PWM tuned so that one window scores between the exact score '
             'threshold and its float32 rounding; (e) directed exact family: PWMs with integer log-odds (eps 2^-4..2^-13) and bin 1 / 0.5 / '
             '0.25, windows scoring exactly the score threshold, one bin above and below it planted at start 0, L-w and inside, either '
             'strand - judged WITHOUT float guard; (f) call histories: 3-5 consecutive calls differing in one of PWM values (same names and '
             'widths) / eps / bin / threshold / strands / sequences / input kind / motif order / motif count / nothing, every call judged in '
             'full, same dict and tensor objects re-passed after in-place update in half of them; (g) scale: 258-300 sequences (array and '
             'FASTA records), one FASTA record of 66-70 kb with hits beyond position 65535; '
             'every window of every sequence judged against the reference scanner, all eight columns of every reported row checked; '
             '(d) relations on ~1/2 of the cases of (a), (b) (1-3 of: reverse-complemented sequences, FASTA vs array, dim=1, return_counts, '
             'return_counts with dim=1, MEME file, two thread counts out of {1,2,3,5,8,16}; end / motif_name / strand / bounds of every row '
             'of the second run checked too), mirror relation on 1/3 of (e); input variants on ~1/3-1/2 of all cases: array container / dtype '
             '/ memory layout (9 variants), PWM tensor layout (3), adversarial motif names (-rc suffix) and FASTA record names, header '
             'descriptions, soft-masked FASTA; calls without explicit thread count use 2 numba threads, 30 % of the multi-motif cases '
             '1/2/4/7/16; 180 exact + 80 histories (~300 calls) + 120 planted + ~40 float32-directed + 6 scale + 330 random cases (fewer if '
             'the time shares 12/12/18/7/8/40 % of the budget after numba warm-up run out)',
    'thorough': 'same families, as many cases as fit in 10 min (up to 1500 exact / 800 histories / 2500 planted / 1500 float32-directed / 12 '
                'scale incl. two 40-45 kb array sequences (offsets beyond 65535) / 8000 random), sequences up to length 400, planted motifs '
                'up to width 20, exact family up to width 12, thread relation runs every thread count 1..16',
}


# ----------------------------------------------------------------------------- reference

def revcomp(s):
    return ''.join(COMP.get(c, 'N') for c in reversed(s))


def is_dyadic(v):
    return math.isfinite(v) and abs(v) <= 64.0 and v * 1048576.0 == math.floor(v * 1048576.0)


def is_pow2(v):
    return v > 0 and math.frexp(v)[0] == 0.5 and 2.0 ** -10 <= v <= 64.0


class Ref:
    """reference for one (motif, strand)"""

    def __init__(self, pwm, strand, eps, bin_size, thr):
        P = numpy.array(pwm, dtype=numpy.float64)
        if strand == '-':
            P = P[::-1, ::-1]
        self.P = P
        self.w = P.shape[1]
        self.bin = bin_size
        self.lp, self.ints, self.tie, self.tail = exact_tail(P.tolist(), eps, bin_size)
        t = self.tail
        self.b_hi = self.b_lo = None
        for b in range(t.lo, t.hi + 2):
            k = t.numer(b)
            if self.b_hi is None and k < thr * (1 + 1e-9) * t.total:
                self.b_hi = b
            if k < thr * (1 - 1e-9) * t.total:
                self.b_lo = b
                break
        self.T_lo, self.T_hi = self.b_lo * bin_size, self.b_hi * bin_size
        # exact mode: entries of the log-odds matrix that are small dyadic rationals (multiples of 2^-20, |v| <= 64)
        # add up in float64 without any rounding, in every summation order.  With a power-of-two bin size the score
        # threshold b* * bin and the quotient score / bin are exact too, so NO float guard is needed for windows made
        # of such entries only: a window whose score EQUALS the threshold must not be reported ("exceeds"), and its
        # score bin is unambiguous.
        self.dy = [[is_dyadic(float(self.lp[k, j])) for j in range(self.w)] for k in range(4)]
        self.exact_ok = is_pow2(bin_size) and any(any(r) for r in self.dy)

    def window_exact(self, s, start):
        if not self.exact_ok:
            return False
        for j in range(self.w):
            ch = s[start + j]
            if ch in ALPHA and not self.dy[ALPHA.index(ch)][j]:
                return False
        return True

    def status(self, score, exact=False):
        tol = 0.0 if exact else 1e-11 * max(1.0, abs(score), abs(self.T_lo))
        if score > self.T_lo + tol:
            return 'must'
        if score <= self.T_hi - tol:
            return 'mustnot'
        return 'free'

    def near_edge(self, score):
        """is the score within float32 rounding distance of a bin edge (a possible score threshold)"""
        q = score / self.bin
        e = round(q) * self.bin
        return abs(score - e) <= 2.5e-7 * max(abs(e), 1e-3)

    def p_candidates(self, score, exact=False):
        if exact:
            q = score / self.bin          # exact (power-of-two bin); negative scores: floor or truncation, see above
            return [self.tail.p(b) for b in sorted({math.floor(q)} | ({math.ceil(q)} if q < 0 else set()))]
        return [self.tail.p(b) for b in sorted(score_bins(score, self.bin))]


def on_bin_edge(score, bin_size):
    q = score / bin_size
    return abs(q - round(q)) <= 1e-9 * max(1.0, abs(q))


def table_ok(ref, cache, key):
    """diagnosis only: is the real p-value table of this motif/strand the exact one? (C11)"""
    if key not in cache:
        try:
            sm, tab = F._pwm_to_mapping(numpy.ascontiguousarray(ref.lp), float(ref.bin))
            cache[key] = not compare_table(sm, tab, ref.tail)
        except Exception:
            cache[key] = True       # cannot diagnose -> do not attribute to the table
    return cache[key]


# ----------------------------------------------------------------------------- running the real thing

def _write_fasta(path, names, seqs, wrap, desc=False, lower=0):
    """lower = k > 0: every k-th character is written in lower case (soft-masking); desc: a description follows the
    record name on the header line (the name is the first word)"""
    with open(path, 'w') as f:
        for n, s in zip(names, seqs):
            f.write('>%s%s\n' % (n, ' len=%d some description' % len(s) if desc else ''))
            if lower:
                s = ''.join(c.lower() if i % lower == 0 else c for i, c in enumerate(s))
            if wrap:
                for i in range(0, len(s), wrap):
                    f.write(s[i:i + wrap] + '\n')
            else:
                f.write(s + '\n')


def _write_meme(path, names, pwms):
    with open(path, 'w') as f:
        f.write('MEME version 4\n\nALPHABET= ACGT\n\nstrands: + -\n\nBackground letter frequencies\nA 0.25 C 0.25 G 0.25 T 0.25\n\n')
        for n, p in zip(names, pwms):
            w = len(p[0])
            f.write('MOTIF %s\nletter-probability matrix: alength= 4 w= %d nsites= 20 E= 0\n' % (n, w))
            for i in range(w):
                f.write(' '.join(repr(float(p[k][i])) for k in range(4)) + '\n')
            f.write('URL none\n\n')


def _tmpdir():
    base = os.environ.get('VERIF_TMP')
    return tempfile.TemporaryDirectory(dir=base if base and os.path.isdir(base) else None, prefix='c12_')


def names_of(case):
    return list(case.get('names') or ['m%d' % i for i in range(len(case['pwms']))])


def snames_of(case, n):
    sn = case.get('snames')
    return list(sn) if sn and len(sn) == n else ['s%d' % i for i in range(n)]


X_VARIANTS = ['numpy', 'int8', 'uint8', 'int64', 'f64', 'f16', 'permuted', 'numpy-int8-f', 'numpy-bool']
P_VARIANTS = ['transposed', 'strided', 'grad']


def build_x(seqs, xvar):
    """the one-hot input in one of the accepted container / dtype / memory-layout variants (all the same sequences)"""
    X = one_hot(seqs)                                   # torch float32, contiguous
    if xvar in (None, 'f32'):
        return X
    if xvar == 'numpy':
        return X.numpy()
    if xvar == 'int8':
        return X.to(torch.int8)
    if xvar == 'uint8':
        return X.to(torch.uint8)
    if xvar == 'int64':
        return X.to(torch.int64)
    if xvar == 'f64':
        return X.to(torch.float64)
    if xvar == 'f16':
        return X.to(torch.float16)
    if xvar == 'permuted':                              # (N, L, 4) storage viewed as (N, 4, L): not contiguous
        return X.permute(0, 2, 1).contiguous().permute(0, 2, 1)
    if xvar == 'numpy-int8-f':
        return numpy.asfortranarray(X.numpy().astype(numpy.int8))
    if xvar == 'numpy-bool':
        return X.numpy().astype(bool)
    raise ValueError(xvar)


def build_motifs(case, pvar):
    out = {}
    for n, p in zip(names_of(case), case['pwms']):
        t = torch.tensor(p, dtype=torch.float64)
        if pvar == 'transposed':                        # column-major storage
            t = t.T.contiguous().T
        elif pvar == 'strided':                         # every third column of a wider matrix
            big = torch.full((4, 3 * t.shape[1]), 0.25, dtype=torch.float64)
            big[:, 1::3] = t
            t = big[:, 1::3]
        elif pvar == 'grad':
            t = t.clone().requires_grad_(True)
        out[n] = t
    return out


# call-history cases: the SAME dict / tensor objects are passed to consecutive calls (updated in place), and the FASTA /
# MEME files of consecutive calls have the SAME path (rewritten; pyfaidx's .fai index removed so that only fimo's own
# memory is on trial)
_SHARED = {'motifs': None, 'dir': None}


class _KeepDir:
    def __init__(self, d):
        self.d = d

    def __enter__(self):
        for f in os.listdir(self.d):
            os.remove(os.path.join(self.d, f))
        return self.d

    def __exit__(self, *a):
        return False


class RealError(Exception):
    pass


def run_real(case, **kw):
    try:
        return _run_real(case, **kw)
    except Exception as e:
        raise RealError('fimo(%s) raised %s: %s' % (', '.join('%s=%r' % (k, v) for k, v in sorted(kw.items()) if k != 'seqs'),
                                                  type(e).__name__, str(e)[:120]))


def _run_real(case, seqs=None, inp=None, dim=0, counts=False, threads=None, meme=False):
    """calls the real fimo; returns (rows, extra) where rows is a list of dicts with the seq index
    resolved (key 'si'), plus 'frame' = index of the DataFrame the row came from; for counts the
    numpy array"""
    seqs = case['seqs'] if seqs is None else seqs
    inp = case['input'] if inp is None else inp
    names = names_of(case)
    motifs = _SHARED['motifs'] if _SHARED['motifs'] is not None else build_motifs(case, case.get('pvar'))
    snames = snames_of(case, len(seqs))
    old = numba.get_num_threads()
    with (_KeepDir(_SHARED['dir']) if _SHARED['dir'] else _tmpdir()) as d:
        try:
            if threads is not None:
                numba.set_num_threads(min(int(threads), numba.config.NUMBA_NUM_THREADS))
            if meme:
                mp = os.path.join(d, 'm.meme')
                _write_meme(mp, names, case['pwms'])
                motifs = mp
            if inp == 'fasta':
                fp = os.path.join(d, 'x.fa')
                _write_fasta(fp, snames, seqs, case.get('wrap'), case.get('desc', False), case.get('lower', 0))
                X = fp
            else:
                X = build_x(seqs, case.get('xvar'))
            out = F.fimo(motifs, X, bin_size=case['bin'], eps=case['eps'], threshold=case['threshold'],
                         reverse_complement=case['rc'], return_counts=counts, dim=dim)
        finally:
            numba.set_num_threads(old)
    if counts:
        return [int(c) for c in out], None
    rows = []
    for fi, df in enumerate(out):
        cols = list(df.columns)
        for r in df.itertuples(index=False):
            r = dict(zip(cols, r))
            sn = r['sequence_name']
            r['si'] = snames.index(sn) if inp == 'fasta' else int(sn)
            r['frame'] = fi
            rows.append(r)
    return rows, len(out)


def keyset(rows):
    d = {}
    for r in rows:
        d.setdefault((int(r['motif_idx']), r['si'], int(r['start']), r['strand']), []).append(r)
    return d


# ----------------------------------------------------------------------------- the check

def _add(out, finding, msg, limit=3):
    n = sum(1 for f, _ in out if f == finding)
    if n < limit:
        out.append((finding, msg))


def check_scan_full(case):
    """returns list of (finding, message)"""
    out = []
    pwms, seqs, eps, bin_size, thr, rc = case['pwms'], case['seqs'], case['eps'], case['bin'], case['threshold'], case['rc']
    names = names_of(case)
    strands = ('+', '-') if rc else ('+',)
    refs = {(mi, st): Ref(p, st, eps, bin_size, thr) for mi, p in enumerate(pwms) for st in strands}
    if any(r.tie for r in refs.values()):
        case['_stats'] = {'expected': 0}
        return []
    tcache = {}
    try:
        rows, nframes = run_real(case, threads=case.get('threads'))
    except RealError as e:
        case['_stats'] = {'expected': 0}
        return [(None, str(e))]
    if nframes != len(pwms):
        _add(out, None, 'dim=0 returned %d DataFrames for %d motifs' % (nframes, len(pwms)))
    got = keyset(rows)
    stats = {'expected': 0, 'expected_last': 0, 'expected_first': 0, 'reported': len(rows), 'neg_score_hits': 0, 'free': 0,
             'exact_windows': 0, 'exact_ties': 0, 'beyond_65535': 0, 'seqidx_ge_128': 0}

    # window contents reported per (motif, strand): table-independent evidence for the last-window class
    reported_words = {}
    for (mi, si, start, st), rs in got.items():
        if (mi, st) in refs and 0 <= si < len(seqs):
            w = refs[(mi, st)].w
            if 0 <= start <= len(seqs[si]) - w:
                reported_words.setdefault((mi, st), set()).add(seqs[si][start:start + w])

    def classify(ref, key, score, start, L, kind, word=None, ex=False):
        ok = table_ok(ref, tcache, key)
        if kind == 'extra' and ex and ok and score == ref.T_lo:
            return 'score-equal-to-threshold-reported'
        if kind in ('p>=thr', 'extra'):
            if ref.near_edge(score) and (ok or kind == 'p>=thr'):
                return 'float32-score-threshold'
            return None if ok else 'pvalue-table-wrong'
        if kind == 'missing':
            if ok and ref.near_edge(score):
                return 'float32-score-threshold'
            if start == L - ref.w and (ok or word in reported_words.get(key, ()) or
                                       score > _steer_threshold(ref.lp, ref.bin, thr, ref) + 1e-6 * max(1.0, abs(score))):
                # (third alternative, diagnosis only: the window exceeds the threshold the implementation derives
                #  from its own table, so the table cannot explain the omission)
                return 'last-window-not-scanned'
            return None if ok else 'pvalue-table-wrong'
        if kind == 'pvalue':
            return None if ok else 'pvalue-table-wrong'
        return None

    # 1. every window of every sequence
    for (mi, st), ref in refs.items():
        w = ref.w
        for si, s in enumerate(seqs):
            L = len(s)
            for start in range(0, L - w + 1):
                sc = window_score(ref.lp, s, start)
                ex = ref.window_exact(s, start)
                status = ref.status(sc, ex)
                k = (mi, si, start, st)
                word = s[start:start + w]
                if ex:
                    stats['exact_windows'] += 1
                    stats['exact_ties'] += sc == ref.T_lo == ref.T_hi
                if status == 'must':
                    stats['expected'] += 1
                    stats['expected_last'] += start == L - w
                    stats['expected_first'] += start == 0
                    stats['neg_score_hits'] += sc < 0
                    stats['beyond_65535'] += start + w > 65535
                    stats['seqidx_ge_128'] += si >= 128
                    if k not in got:
                        _add(out, classify(ref, (mi, st), sc, start, L, 'missing', word),
                             'window not reported: motif %d (w=%d) strand %s seq %d (L=%d) start %d word %s score %r > score threshold %r'
                             % (mi, w, st, si, L, start, word, sc, ref.T_lo))
                elif status == 'free':
                    stats['free'] += 1
                elif k in got:
                    r = got[k][0]
                    _add(out, classify(ref, (mi, st), sc, start, L, 'extra', ex=ex),
                         'window reported although its score does not exceed the score threshold: motif %d (w=%d) strand %s seq %d '
                         'start %d word %s score %r <= threshold %r (threshold bin %d, exact p of the score bin %s >= %r); reported p-value %r%s'
                         % (mi, w, st, si, start, word, sc, ref.T_hi, ref.b_hi, '/'.join(repr(c) for c in ref.p_candidates(sc, ex)), thr, float(r['p-value']),
                            ' [all terms are dyadic: the comparison is exact, no rounding involved]' if ex else ''))
    # 2. every reported row
    for k, rs in got.items():
        mi, si, start, st = k
        if len(rs) > 1:
            _add(out, None, 'hit reported %d times: %r' % (len(rs), k))
        r = rs[0]
        if (mi, st) not in refs or not (0 <= si < len(seqs)):
            _add(out, None, 'hit with impossible motif_idx / strand / sequence: %r' % (k,))
            continue
        ref = refs[(mi, st)]
        w, L = ref.w, len(seqs[si])
        if not (0 <= start <= L - w):
            _add(out, None, 'hit outside the sequence: motif %d (w=%d) seq %d (L=%d) start %d' % (mi, w, si, L, start))
            continue
        sc = window_score(ref.lp, seqs[si], start)
        word = seqs[si][start:start + w]
        if int(r['end']) != start + w:
            _add(out, None, 'end %d != start %d + width %d' % (int(r['end']), start, w))
        if r['motif_name'] != names[mi]:
            _add(out, None, 'motif_name %r for motif_idx %d (expected %r)' % (r['motif_name'], mi, names[mi]))
        if r['frame'] != mi:
            _add(out, None, 'dim=0: row of motif %d found in DataFrame %d' % (mi, r['frame']))
        gs, gp = float(r['score']), float(r['p-value'])
        if not abs(gs - sc) <= 1e-9 * max(1.0, abs(sc)):
            _add(out, None, 'score %r but the window %s of motif %d strand %s scores %r' % (gs, word, mi, st, sc))
            continue
        if math.isnan(gp) or not gp < thr * (1 + 1e-9):
            _add(out, classify(ref, (mi, st), sc, start, L, 'p>=thr'),
                 'reported hit has p-value %r, not below the threshold %r: motif %d (w=%d) strand %s seq %d start %d word %s score %r '
                 '(exact score threshold %r, as float32 %r)' % (gp, thr, mi, w, st, si, start, word, sc, ref.T_lo, float(numpy.float32(ref.T_lo))))
        cands = ref.p_candidates(sc, ref.window_exact(seqs[si], start))
        if math.isnan(gp) or not any(abs(gp - c) <= 1e-9 * max(c, 1e-300) for c in cands):
            _add(out, classify(ref, (mi, st), sc, start, L, 'pvalue'),
                 'p-value %r is not the table entry of the score bin (exact %s): motif %d (w=%d) strand %s seq %d start %d score %r'
                 % (gp, ' or '.join(repr(c) for c in cands), mi, w, st, si, start, sc))

    # 3. relations (real vs real)
    def feq(x, y, rel=0.0):
        return x == y or (math.isnan(x) and math.isnan(y)) or abs(x - y) <= rel * max(abs(x), abs(y))

    def as_map(rows2):
        return {k: (float(v[0]['score']), float(v[0]['p-value'])) for k, v in keyset(rows2).items()}

    base = as_map(rows)
    per = [0] * len(pwms)
    for r in rows:
        if 0 <= int(r['motif_idx']) < len(per):
            per[int(r['motif_idx'])] += 1

    def same(a, b, what, mirror=False, exact=False):
        """compare two maps (motif, seq, start, strand) -> (score, p); a = the base run"""
        for k in sorted(set(a) | set(b), key=repr):
            mi, si, start, st = k
            ref = refs.get((mi, st))
            if (k in a) != (k in b):
                fnd = None
                if mirror and ref is not None and 0 <= si < len(seqs) and 0 <= start <= len(seqs[si]) - ref.w:
                    # the two runs score the window with the columns in opposite order: allow the float guard
                    L = len(seqs[si])
                    sc = window_score(ref.lp, seqs[si], start)
                    status = ref.status(sc, ref.window_exact(seqs[si], start))
                    if status == 'free':
                        continue
                    if start == L - ref.w and k not in a and status == 'must':
                        fnd = 'last-window-not-scanned'
                    elif start == 0 and k not in b and status == 'must':
                        fnd = 'last-window-not-scanned'      # the mirrored run lost ITS last window
                    elif not table_ok(ref, tcache, (mi, st)):
                        fnd = 'pvalue-table-wrong'
                    elif ref.near_edge(sc):
                        fnd = 'float32-score-threshold'
                _add(out, fnd, '%s: hit %r (motif, seq, start, strand) present only in %s' % (what, k, 'the base run' if k in a else 'the other run'), limit=2)
            else:
                (s1, p1), (s2, p2) = a[k], b[k]
                if not feq(s1, s2, 0.0 if exact else 1e-9):
                    _add(out, None, '%s: hit %r has scores %r vs %r' % (what, k, s1, s2), limit=2)
                elif not feq(p1, p2, 0.0 if exact else 1e-9) and (exact or not on_bin_edge(s1, bin_size)):
                    fnd = None
                    if mirror and ref is not None and not table_ok(ref, tcache, (mi, st)):
                        fnd = 'pvalue-table-wrong'
                    _add(out, fnd, '%s: hit %r has p-values %r vs %r' % (what, k, p1, p2), limit=2)

    def fields_ok(rows2, what):
        """rows of a secondary run: end = start + width, motif_name, window inside the sequence (the sequences of
        every secondary run have the lengths of the base run)"""
        for r in rows2:
            mi, si, start = int(r['motif_idx']), r['si'], int(r['start'])
            if not (0 <= mi < len(pwms) and 0 <= si < len(seqs)):
                _add(out, None, '%s: hit with impossible motif_idx %d / sequence %d' % (what, mi, si), limit=1)
                continue
            w = len(pwms[mi][0])
            if int(r['end']) != start + w or not (0 <= start <= len(seqs[si]) - w) or r['motif_name'] != names[mi] or r['strand'] not in strands:
                _add(out, None, '%s: row motif_idx %d (w=%d, name %r) motif_name %r seq %d (L=%d) start %d end %d strand %r has a wrong field'
                     % (what, mi, w, names[mi], r['motif_name'], si, len(seqs[si]), start, int(r['end']), r['strand']), limit=1)

    def counts_check(label, **kw):
        try:
            cnt, _ = run_real(case, counts=True, **kw)
        except RealError as e:
            if not rc and 'IndexError' in str(e):
                _add(out, 'return-counts-forward-only-raises', 'reverse_complement=False: %s' % e, limit=1)
            else:
                _add(out, None, str(e))
            return
        if cnt != per:
            _add(out, None, '%sreturn_counts=True gives %r, the DataFrames hold %r rows per motif' % (label, cnt, per))

    def relation(rel):
        if rel == 'mirror':
            if not rc:
                return
            rseqs = [revcomp(s) for s in seqs]
            rows2, _ = run_real(case, seqs=rseqs)
            fields_ok(rows2, 'scan of the reverse-complemented sequences')
            back = {}
            for (mi, si, start, st), v in as_map(rows2).items():
                w = len(pwms[mi][0]) if 0 <= mi < len(pwms) else 0
                back[(mi, si, len(seqs[si]) - (start + w), '-' if st == '+' else '+')] = v
            if len(rows2) != len(back):
                _add(out, None, 'scan of the reverse-complemented sequences reports duplicate hits')
            same(base, back, 'scan of the reverse-complemented sequences is not the mirror image', mirror=True)
        elif rel == 'dim1':
            rows2, nfr = run_real(case, dim=1)
            fields_ok(rows2, 'dim=1')
            same(base, as_map(rows2), 'dim=1 vs dim=0', exact=True)
            if len(rows2) != len(rows):
                _add(out, None, 'dim=1 returns %d rows, dim=0 %d' % (len(rows2), len(rows)))
            fr = {}
            for r in rows2:
                fr.setdefault(r['frame'], set()).add(r['si'])
            if any(len(v) != 1 for v in fr.values()) or len({min(v) for v in fr.values()}) != len(fr):
                _add(out, None, 'dim=1: DataFrames are not one-per-sequence: %r' % ({k: sorted(v) for k, v in fr.items()},))
        elif rel == 'counts':
            counts_check('')
        elif rel == 'counts-dim1':
            counts_check('dim=1: ', dim=1)
        elif rel == 'other-input':
            if len({len(s) for s in seqs}) == 1:
                other = 'fasta' if case['input'] == 'tensor' else 'tensor'
                rows2, _ = run_real(case, inp=other)
                fields_ok(rows2, '%s input' % other)
                same(base, as_map(rows2), '%s vs %s input' % (case['input'], other), exact=True)
                if len(rows2) != len(rows):
                    _add(out, None, '%s input returns %d rows, %s input %d' % (other, len(rows2), case['input'], len(rows)))
        elif rel == 'meme':
            rows2, _ = run_real(case, meme=True)
            fields_ok(rows2, 'MEME file input')
            same(base, as_map(rows2), 'dict of PWMs vs MEME file of the same PWMs', exact=True)
            bad = [r for r in rows2 if 0 <= int(r['motif_idx']) < len(names) and r['motif_name'] != names[int(r['motif_idx'])]]
            if bad:
                _add(out, None, 'MEME file input: motif_name %r for motif_idx %d' % (bad[0]['motif_name'], int(bad[0]['motif_idx'])))
        elif isinstance(rel, list) and rel and rel[0] == 'threads':
            for t in rel[1:]:
                rows2, _ = run_real(case, threads=t)
                fields_ok(rows2, 'numba threads=%d' % t)
                if len(rows2) != len(rows):
                    _add(out, None, 'numba threads=%d: %d rows vs %d' % (t, len(rows2), len(rows)))
                same(base, as_map(rows2), 'numba threads=%d vs %s' % (t, case.get('threads') or 'default'), exact=True)
                counts_check('numba threads=%d: ' % t, threads=t)

    for rel in case.get('relations', []):
        try:
            relation(rel)
        except RealError as e:
            _add(out, None, str(e))
    case['_stats'] = stats
    return out


# ----------------------------------------------------------------------------- generators

UNKNOWN = 'NNNNRYKMSWBDHVX'        # N and the other IUPAC ambiguity codes: all "unknown characters"


def rand_seq(rng, L, pN=0.03, iupac=False):
    unk = UNKNOWN if iupac else 'N'
    return ''.join(rng.choice(unk) if rng.random() < pN else rng.choice(ALPHA) for _ in range(L))


def pick_pN(rng):
    """mostly a few unknown characters; sometimes many, sometimes nothing else (score 0 everywhere)"""
    return rng.choice([0.03, 0.03, 0.03, 0.0, 0.25, 0.6, 1.0])


def palindromic_pwm(rng, w):
    """P == P[::-1, ::-1]: the motif is its own reverse complement, every hit exists on both strands"""
    p = random_pwm(rng, w)
    for j in range(w):
        for k in range(4):
            if (w - 1 - j, 3 - k) < (j, k):
                p[k][j] = p[3 - k][w - 1 - j]
    if w % 2:
        j = w // 2
        a = rng.random() * 0.5
        p[0][j] = p[3][j] = a
        p[1][j] = p[2][j] = 0.5 - a
    return p


MOTIF_NAMES = ['MA0139.1', 'CTCF-rc', 'CTCF', 'x', 'motif_with_a_long_name_17', 'GATA1::TAL1', 'm-rc-rc', 'Z', '0', 'm1']
SEQ_NAMES = ['chr10', 'chr2', 'chrX', 'scaffold_1|size=12', 'b', 'a', 'Seq-7', 'chr1', '10', '9']


def pick_variants(rng, case):
    """container / dtype / layout / naming variants of the SAME mathematical input (all JSON-able, replayed)"""
    if rng.random() < 0.45:
        case['xvar'] = rng.choice(X_VARIANTS)              # used whenever the sequences are passed as an array
    if rng.random() < 0.3:
        case['pvar'] = rng.choice(P_VARIANTS)
    if rng.random() < 0.35:
        case['names'] = rng.sample(MOTIF_NAMES, len(case['pwms']))
    ns = len(case['seqs'])
    if rng.random() < 0.45:
        pool = rng.sample(SEQ_NAMES, len(SEQ_NAMES)) + ['ctg%d' % ((7 * i + 3) % 1000) for i in range(max(0, ns - len(SEQ_NAMES)))]
        case['snames'] = pool[:ns]
        case['desc'] = rng.random() < 0.5
    if rng.random() < 0.3:
        case['lower'] = rng.choice([1, 2, 3])
    return case


def consensus(pwm):
    w = len(pwm[0])
    return ''.join(ALPHA[max(range(4), key=lambda k: pwm[k][i])] for i in range(w))


def pick_threshold(rng, w):
    # a threshold the motif can reach at all (4^-w < thr) most of the time
    ok = [t for t in THRESHOLDS if t > 4.0 ** (-w) * 1.5]
    return rng.choice(ok) if ok and rng.random() < 0.85 else rng.choice(THRESHOLDS)


def gen_random(rng, thorough):
    nm = rng.randint(1, 8)
    pwms = [random_pwm(rng, rng.randint(2, 20) if rng.random() < 0.5 else rng.randint(2, 8)) for _ in range(nm)]
    for i in range(nm):
        u = rng.random()
        if u < 0.08:
            pwms[i] = palindromic_pwm(rng, len(pwms[i][0]))
        elif u < 0.16 and i > 0:
            pwms[i] = [list(r) for r in pwms[rng.randrange(i)]]          # the same matrix under two names
        elif u < 0.22 and i > 0:
            q = pwms[rng.randrange(i)]
            pwms[i] = [list(q[3 - k][::-1]) for k in range(4)]           # a motif and its reverse complement both listed
    wmin = min(len(p[0]) for p in pwms)
    wmax = max(len(p[0]) for p in pwms)
    inp = rng.choice(['tensor', 'fasta'])
    ns = rng.randint(1, 4)
    Lmax = 400 if thorough else 120
    iupac = rng.random() < 0.4
    if inp == 'tensor':
        L = rng.choice([rng.randint(1, Lmax), wmax, wmin, rng.randint(wmin, wmax + 3)])
        seqs = [rand_seq(rng, L, pick_pN(rng), iupac) for _ in range(ns)]
    else:
        seqs = [rand_seq(rng, rng.choice([rng.randint(1, Lmax), wmax, wmin, max(1, wmin - 1), rng.randint(1, wmax + 3)]), pick_pN(rng), iupac)
                for _ in range(ns)]
    # plant consensus words (either strand) at the ends and inside, so that hits exist
    for _ in range(rng.randint(0, 4)):
        p = rng.choice(pwms)
        word = consensus(p)
        if rng.random() < 0.5:
            word = revcomp(word)
        si = rng.randrange(len(seqs))
        s = seqs[si]
        if len(s) >= len(word):
            o = rng.choice([0, len(s) - len(word), rng.randint(0, len(s) - len(word))])
            seqs[si] = s[:o] + word + s[o + len(word):]
    thr = pick_threshold(rng, rng.choice([wmin, wmax]))
    return pick_variants(rng, {'kind': 'scan', 'pwms': pwms, 'seqs': seqs, 'input': inp, 'eps': rng.choice(EPSS), 'bin': rng.choice(BINS),
                               'threshold': thr, 'rc': rng.random() < 0.75, 'wrap': rng.choice([None, None, 7, 40]) if inp == 'fasta' else None})


def gen_planted(rng, thorough):
    """consensus (and rc consensus) of motif 0 planted at every offset 0..L-w, one sequence per offset"""
    w = rng.randint(2, 20 if thorough else 12)
    style_rng_pwm = random_pwm(rng, w)
    pwms = [style_rng_pwm] + [random_pwm(rng, rng.randint(2, 10)) for _ in range(rng.randint(0, 2))]
    L = w + rng.randint(0, 12 if thorough else 7)
    word = consensus(pwms[0])
    use_rc = rng.random() < 0.4
    if use_rc:
        word = revcomp(word)
    seqs = []
    for o in range(0, L - w + 1):
        bg = rand_seq(rng, L, pN=0.02)
        seqs.append(bg[:o] + word + bg[o + w:])
    thr = pick_threshold(rng, w)
    inp = rng.choice(['tensor', 'tensor', 'fasta'])
    return pick_variants(rng, {'kind': 'scan', 'pwms': pwms, 'seqs': seqs, 'input': inp, 'eps': rng.choice(EPSS), 'bin': rng.choice(BINS),
                               'threshold': thr, 'rc': True if use_rc else rng.random() < 0.6, 'wrap': None})


def _steer_threshold(lp, bin_size, thr, ref):
    """the score threshold the implementation derives (input steering only, never used as oracle)"""
    try:
        sm, tab = F._pwm_to_mapping(numpy.ascontiguousarray(lp), float(bin_size))
        idx = numpy.where(tab < math.log2(thr))[0]
        if len(idx):
            return (int(idx[0]) + int(sm)) * bin_size
    except Exception:
        pass
    return ref.T_lo


def gen_float32(rng, thorough):
    """directed: tune one PWM entry (inside its rounding cell, so the discretised scores and the
    table stay the same) until the score of one window lies strictly between the score threshold
    and its float32 rounding.  Returns None when the attempt fails."""
    w = rng.randint(2, 8)
    eps, bin_size = rng.choice([1e-5, 1e-4, 1e-3, 1e-2]), rng.choice([0.05, 0.1, 0.1, 0.2, 0.3])
    thr = pick_threshold(rng, w)
    cols = [[rng.random() + 0.08 for _ in range(4)] for _ in range(w)]
    pwm = [[cols[i][k] / sum(cols[i]) for i in range(w)] for k in range(4)]
    ref = Ref(pwm, '+', eps, bin_size, thr)
    if ref.tie or ref.b_lo != ref.b_hi:
        return None
    T = _steer_threshold(ref.lp, bin_size, thr, ref)
    T32 = float(numpy.float32(T))
    if T32 == T or T <= 0:
        return None
    target = (T + T32) / 2
    lo, hi = min(T, T32), max(T, T32)
    if w <= 5:
        words = [list(x) for x in itertools.product(range(4), repeat=w)]
    else:
        words = [[rng.randrange(4) for _ in range(w)] for _ in range(1500)]
    lpl = ref.lp.tolist()
    word = min(words, key=lambda x: abs(sum(lpl[x[c]][c] for c in range(w)) - target))
    P = [list(r) for r in pwm]

    def cell(v, k, c):
        return int(round(v / bin_size)) == ref.ints[k][c] and abs(abs(v / bin_size - math.floor(v / bin_size)) - 0.5) > 1e-6

    def retune(c):
        """move entry (word[c], c) so that the word scores `target`, compensating on another row; both
        entries must stay inside their rounding cells"""
        lp = log_odds(P, eps)
        sc = sum(float(lp[word[q], q]) for q in range(w))
        a = word[c]
        new_lp = float(lp[a, c]) + (target - sc)
        p_new = 0.25 * 2.0 ** new_lp - eps
        if p_new <= 0 or not cell(new_lp, a, c):
            return False
        for r in sorted((k for k in range(4) if k != a), key=lambda k: -P[k][c]):
            p_r = P[r][c] - (p_new - P[a][c])
            if p_r > 0 and cell(math.log2(p_r + eps) - math.log2(0.25), r, c):
                P[a][c], P[r][c] = p_new, p_r
                return True
        return False

    cols_order = list(range(w))
    rng.shuffle(cols_order)
    col = next((c for c in cols_order if retune(c)), None)
    if col is None:
        return None
    for it in range(5):
        lp = log_odds(P, eps)
        sc = sum(float(lp[word[q], q]) for q in range(w))
        if lo < sc < hi and abs(sc - target) < (hi - lo) * 0.3:
            break
        if not retune(col):
            return None
    else:
        return None
    ref2 = Ref(P, '+', eps, bin_size, thr)
    if ref2.tie or ref2.ints != ref.ints:
        return None
    if _steer_threshold(ref2.lp, bin_size, thr, ref2) != T:
        return None
    wordS = ''.join(ALPHA[a] for a in word)
    left, right = rand_seq(rng, rng.randint(1, 6), 0.0), rand_seq(rng, rng.randint(1, 6), 0.0)
    return {'kind': 'scan', 'pwms': [P], 'seqs': [left + wordS + right], 'input': 'tensor', 'eps': eps, 'bin': bin_size,
            'threshold': thr, 'rc': False, 'wrap': None, 'directed': 'float32'}


def pick_relations(rng, case, thorough):
    rel = []
    if rng.random() < 0.5:
        return rel
    pool = ['mirror', 'dim1', 'counts', 'counts-dim1', 'other-input', 'meme', 'threads']
    for r in rng.sample(pool, rng.randint(1, 3)):
        if r == 'threads':
            rel.append(['threads'] + (list(range(1, 17)) if thorough else rng.sample([1, 2, 3, 5, 8, 16], 2)))
        else:
            rel.append(r)
    return rel


# ----------------------------------------------------------------------------- exact (dyadic) family

DY_EPS = [2.0 ** -10, 2.0 ** -7, 2.0 ** -4, 2.0 ** -13]      # inside the eps range 1e-6..0.1
DY_BINS = [1.0, 1.0, 1.0, 1.0, 0.5, 0.25]      # integer scores: only bin 1 puts the threshold ON an attainable score


def dyadic_column(rng, e):
    """a probability column (sums to 1) whose entries + e are powers of two, so that log2((p+e)/0.25) is an integer;
    kinds D and E have one entry that is not (windows through it keep the float guard)"""
    kind = rng.choice('AABBCCDE')
    col = {'A': [0.5 - e, 0.5 - e, e, e],
           'B': [0.5 - e, 0.25 - e, 0.25 - e, 3 * e],
           'C': [1.0 - e, e, 0.0, 0.0],
           'D': [0.25 - e, 0.25 - e, 0.25 - e, 0.25 + 3 * e],
           'E': [0.5 - e, 0.25 - e, 0.125 - e, 0.125 + 3 * e]}[kind]
    rng.shuffle(col)
    return col


def word_with_score(rng, lp, target, tries=30):
    """a word (letter indices) whose window score is exactly `target`, found by degrading the consensus"""
    w = lp.shape[1]

    def total(word):
        sc = 0.0
        for j in range(w):
            sc += float(lp[word[j], j])
        return sc

    for _ in range(tries):
        word = [max(range(4), key=lambda k: (float(lp[k, j]), rng.random())) for j in range(w)]
        sc = total(word)
        for _ in range(6 * w):
            if sc <= target:
                break
            j, k = rng.randrange(w), rng.randrange(4)
            old = word[j]
            word[j] = k
            ns = total(word)
            if target <= ns < sc:
                sc = ns
            else:
                word[j] = old
        if total(word) == target:
            return ''.join(ALPHA[k] for k in word)
    return None


def gen_dyadic(rng, thorough):
    """directed: PWMs whose log-odds are integers and a power-of-two bin size: scores, the score threshold and the
    score bins are exact, windows scoring EXACTLY the threshold (must not be reported) and just above it (must be)
    are planted at start 0, at L - w and inside, on either strand"""
    e, bin_size = rng.choice(DY_EPS), rng.choice(DY_BINS)
    nm = rng.randint(1, 3)
    pwms = []
    for _ in range(nm):
        w = rng.randint(2, 12 if thorough else 9)
        cols = [dyadic_column(rng, e) for _ in range(w)]
        p = [[cols[i][k] for i in range(w)] for k in range(4)]
        if rng.random() < 0.2:                                 # palindromic: same entries, P == P[::-1, ::-1]
            for j in range(w):
                for k in range(4):
                    if (w - 1 - j, 3 - k) < (j, k):
                        p[k][j] = p[3 - k][w - 1 - j]
            if w % 2:                                          # the middle column must be self-complementary AND sum to 1
                a, b = rng.choice([(0.5 - e, e), (e, 0.5 - e)])  # (columns that do not sum to 1 are outside the domain: with
                j = w // 2                                     #  all log-odds negative an N outscores every real word, C11)
                p[0][j] = p[3][j] = a
                p[1][j] = p[2][j] = b
        pwms.append(p)
    wmax = max(len(p[0]) for p in pwms)
    wmin = min(len(p[0]) for p in pwms)
    thr = pick_threshold(rng, rng.choice([wmin, wmax]))
    rc = rng.random() < 0.7
    inp = rng.choice(['tensor', 'fasta'])
    ns = rng.randint(1, 3)
    L0 = wmax + rng.randint(0, 25)
    lens = [L0] * ns if inp == 'tensor' else [rng.choice([L0, wmax, wmin, rng.randint(1, L0)]) for _ in range(ns)]
    seqs = [rand_seq(rng, L, rng.choice([0.0, 0.03, 0.2])) for L in lens]
    for mi, p in enumerate(pwms):
        for st in (('+', '-') if rc else ('+',)):
            ref = Ref(p, st, e, bin_size, thr)
            if ref.tie or ref.b_lo != ref.b_hi or not math.isfinite(ref.T_lo):
                continue
            for target in (ref.T_lo, ref.T_lo + bin_size, ref.T_lo, ref.T_lo + 1.0, ref.T_lo, ref.T_lo - 1.0):
                word = word_with_score(rng, ref.lp, target)
                if word is None:
                    continue
                si = rng.randrange(ns)
                q = seqs[si]
                if len(q) >= len(word):
                    o = rng.choice([0, len(q) - len(word), rng.randint(0, len(q) - len(word))])
                    seqs[si] = q[:o] + word + q[o + len(word):]
    return pick_variants(rng, {'kind': 'scan', 'pwms': pwms, 'seqs': seqs, 'input': inp, 'eps': e, 'bin': bin_size, 'threshold': thr,
                               'rc': rc, 'wrap': rng.choice([None, 5]) if inp == 'fasta' else None, 'directed': 'dyadic'})


# ----------------------------------------------------------------------------- call histories

def _plant_consensus(rng, pwms, seqs, rc):
    seqs = list(seqs)
    for p in pwms:
        word = consensus(p)
        if rc and rng.random() < 0.4:
            word = revcomp(word)
        si = rng.randrange(len(seqs))
        q = seqs[si]
        if len(q) >= len(word):
            o = rng.choice([0, len(q) - len(word), rng.randint(0, len(q) - len(word))])
            seqs[si] = q[:o] + word + q[o + len(word):]
    return seqs


HISTORY_CHANGES = ['values', 'values', 'values', 'eps', 'bin', 'threshold', 'rc', 'seqs', 'input', 'same', 'order', 'count']


def gen_history(rng, thorough):
    """3-5 consecutive fimo() calls in one process; each call differs from the previous one in ONE respect (PWM values
    under the same names and widths, eps, bin size, threshold, strands, sequences, input kind, motif order, number of
    motifs, or nothing) and EVERY call is judged in full against the reference: nothing may be carried over from an
    earlier call.  With share=True the very same dict and tensor objects are passed again (updated in place)."""
    nm = rng.randint(1, 3)
    widths = [rng.randint(2, 8) for _ in range(nm)]
    pwms = [random_pwm(rng, w) for w in widths]
    L = max(widths) + rng.randint(0, 25)
    rc = rng.random() < 0.7
    ns = rng.randint(1, 3)
    step = {'kind': 'scan', 'pwms': pwms, 'seqs': _plant_consensus(rng, pwms, [rand_seq(rng, L) for _ in range(ns)], rc),
            'input': rng.choice(['tensor', 'fasta']), 'eps': rng.choice(EPSS), 'bin': rng.choice(BINS),
            'threshold': pick_threshold(rng, min(widths)), 'rc': rc, 'wrap': None, 'relations': []}
    steps = [step]
    for _ in range(rng.randint(2, 4)):
        new = {k: v for k, v in steps[-1].items() if not k.startswith('_')}
        new['pwms'] = [[list(r) for r in p] for p in new['pwms']]
        ch = rng.choice(HISTORY_CHANGES)
        if ch == 'values':
            new['pwms'] = [random_pwm(rng, len(p[0])) for p in new['pwms']]
            new['seqs'] = _plant_consensus(rng, new['pwms'], new['seqs'], new['rc'])
        elif ch == 'eps':
            new['eps'] = rng.choice([x for x in EPSS if x != new['eps']])
        elif ch == 'bin':
            new['bin'] = rng.choice([x for x in BINS if x != new['bin']])
        elif ch == 'threshold':
            new['threshold'] = rng.choice([x for x in THRESHOLDS[:4] if x != new['threshold']])
        elif ch == 'rc':
            new['rc'] = not new['rc']
        elif ch == 'seqs':
            L2 = rng.choice([L, L, max(widths), L + rng.randint(1, 9)])
            new['seqs'] = _plant_consensus(rng, new['pwms'], [rand_seq(rng, L2) for _ in range(rng.randint(1, 3))], new['rc'])
        elif ch == 'input':
            new['input'] = 'fasta' if new['input'] == 'tensor' else 'tensor'
        elif ch == 'order':
            new['pwms'] = new['pwms'][::-1]
        elif ch == 'count':
            if len(new['pwms']) > 1 and rng.random() < 0.5:
                new['pwms'] = new['pwms'][:-1]
            else:
                new['pwms'] = new['pwms'] + [random_pwm(rng, rng.randint(2, 8))]
        new['change'] = ch
        new['relations'] = [rng.choice(['counts', 'dim1', 'meme', 'counts-dim1'])] if rng.random() < 0.3 else []
        steps.append(new)
    return {'kind': 'history', 'steps': steps, 'share': rng.random() < 0.5}


def check_history(hist):
    """returns (list of (finding, message), list of per-step stats)"""
    out, stats = [], []
    store = None
    keep = _tmpdir()
    try:
        _SHARED['dir'] = keep.name
        for i, step in enumerate(hist['steps']):
            if hist.get('share'):
                names = names_of(step)
                if store is not None and list(store) == names and all(store[n].shape[1] == len(p[0]) for n, p in zip(names, step['pwms'])):
                    with torch.no_grad():
                        for n, p in zip(names, step['pwms']):
                            store[n].copy_(torch.tensor(p, dtype=torch.float64))
                else:
                    store = build_motifs(step, None)
                _SHARED['motifs'] = store
            res = check_scan_full(step)
            stats.append(step.pop('_stats', {}))
            for f, m in res:
                out.append((f, 'call %d of %d (changed since the previous call: %s): %s' % (i + 1, len(hist['steps']), step.get('change', '-'), m)))
    finally:
        _SHARED['motifs'] = None
        _SHARED['dir'] = None
        keep.cleanup()
    return out, stats


# ----------------------------------------------------------------------------- scale

def gen_scale(rng, thorough, k):
    """sizes beyond one byte / two bytes: > 255 sequences (tensor and FASTA), positions > 65535"""
    kind = ['many-tensor', 'many-fasta', 'long-fasta', 'long-tensor'][k % (4 if thorough else 3)]
    w = 4
    eps, bin_size, thr = rng.choice(EPSS[1:5]), rng.choice([0.1, 0.25]), rng.choice([1e-1, 3e-2])
    for _ in range(20):                     # a motif whose consensus is a hit at this threshold
        p0 = random_pwm(rng, w)
        ref = Ref(p0, '+', eps, bin_size, thr)
        if not ref.tie and ref.status(window_score(ref.lp, consensus(p0), 0)) == 'must':
            break
    pwms = [p0] + ([random_pwm(rng, rng.randint(2, 5))] if rng.random() < 0.5 else [])
    if kind == 'many-tensor':
        L = rng.randint(6, 10)
        seqs = [rand_seq(rng, L) for _ in range(rng.randint(258, 300))]
        inp = 'tensor'
    elif kind == 'many-fasta':
        seqs = [rand_seq(rng, rng.randint(1, 12)) for _ in range(rng.randint(258, 300))]
        inp = 'fasta'
    elif kind == 'long-fasta':
        seqs = [rand_seq(rng, rng.randint(66000, 70000), 0.01), rand_seq(rng, rng.randint(5, 300))]
        inp = 'fasta'
    else:
        L = rng.randint(40000, 45000)
        seqs = [rand_seq(rng, L, 0.01), rand_seq(rng, L, 0.01)]
        inp = 'tensor'
    if kind.startswith('long'):
        pwms = pwms[:1]
        # the consensus at the far end, so that the highest positions carry hits
        word = consensus(pwms[0])
        seqs[0] = seqs[0][:-len(word)] + word
    case = {'kind': 'scan', 'pwms': pwms, 'seqs': seqs, 'input': inp, 'eps': eps, 'bin': bin_size,
            'threshold': thr, 'rc': rng.random() < 0.5, 'wrap': rng.choice([None, 60]) if inp == 'fasta' else None,
            'directed': kind}
    if kind.startswith('many') and rng.random() < 0.5:
        case['snames'] = ['ctg%d' % ((7 * i + 3) % 1000) for i in range(len(seqs))]
    return case


# ----------------------------------------------------------------------------- driver

HEADS = {
    'last-window-not-scanned': 'window at start = L - w not reported',
    'float32-score-threshold': 'score between the exact score threshold and its float32 rounding',
    'return-counts-forward-only-raises': 'return_counts=True with reverse_complement=False raises IndexError',
    'pvalue-table-wrong': 'hit set / p-values wrong because the p-value table of the motif is wrong (C11)',
    'score-equal-to-threshold-reported': 'window whose score EQUALS the score threshold (exact arithmetic) is reported',
    None: 'fimo output differs from the reference scanner',
}

STAT_KEYS = ['expected', 'expected_last', 'expected_first', 'neg_score_hits', 'reported', 'exact_windows', 'exact_ties', 'beyond_65535',
             'seqidx_ge_128']


def _sample(case, stats):
    return {'widths': [len(p[0]) for p in case['pwms']], 'lengths': [len(s) for s in case['seqs']][:6], 'input': case['input'],
            'threshold': case['threshold'], 'rc': case['rc'], 'relations': case.get('relations', []),
            'variants': {k: case[k] for k in ('xvar', 'pvar', 'names', 'snames', 'desc', 'lower') if case.get(k)}, 'stats': stats}


def _one(rep, case, key, section):
    if case.get('kind') == 'history':
        res, sts = check_history(case)
        stats = {k: sum(st.get(k, 0) for st in sts) for k in STAT_KEYS}
        for i, st in enumerate(sts):
            rep.case((key, i), nontrivial=st.get('expected', 0) > 0, section=section, sample=_sample(case['steps'][i], st))
    else:
        res = check_scan_full(case)
        stats = case.pop('_stats', {})
        nontrivial = stats.get('expected', 0) > 0 or stats.get('exact_ties', 0) > 0
        rep.case(key, nontrivial=nontrivial, section=section, sample=_sample(case, stats))
    by = {}
    for f, m in res:
        by.setdefault(f, []).append(m)
    for f, ms in by.items():
        rep.violation('%s | %s' % (HEADS.get(f, str(f)).ljust(80), ' ;; '.join(ms[:2])), case, finding=f)
    return stats


def run(rep):
    # calls without an explicit thread count run with 2 numba threads (parallel path, but 5-10 times cheaper per call
    # on a shared 16-core machine than 16 spinning threads); 1..16 threads come from case['threads'] and the relation
    old_threads = numba.get_num_threads()
    numba.set_num_threads(min(2, numba.config.NUMBA_NUM_THREADS))
    try:
        _run(rep)
    finally:
        numba.set_num_threads(old_threads)


def _run(rep):
    import time
    torch.set_num_threads(1)
    thorough = rep.tier == 'thorough'
    budget = rep.budget_s
    tot = {k: 0 for k in STAT_KEYS}
    used = {}

    def acc(st):
        for k in tot:
            tot[k] += st.get(k, 0)

    # warm-up: the first call compiles the numba kernels when the cache of this tree is cold (a changed tree always
    # is); that time must not be taken from the share of the first section.  Shares refer to what is left afterwards.
    t0 = time.time()
    wc = {'pwms': [[[0.7, 0.1], [0.1, 0.7], [0.1, 0.1], [0.1, 0.1]]], 'seqs': ['ACGTAC'], 'input': 'tensor', 'eps': 1e-4, 'bin': 0.1,
          'threshold': 0.1, 'rc': True}
    for kw in ({}, {'inp': 'fasta'}, {'counts': True}):
        try:
            run_real(wc, **kw)
        except RealError:
            pass                            # the first real case reports it
    table_ok(Ref(wc['pwms'][0], '+', 1e-4, 0.1, 0.1), {}, 0)      # the diagnosis helper compiles _pwm_to_mapping on its own
    used['warm-up'] = round(time.time() - t0, 1)
    budget = max(rep.left(), 0.5 * budget)

    scale_k = itertools.count()
    # (section, generator, share of the time budget, number of attempts, with relations); cheap directed families first
    plan = [('dyadic-exact-threshold', gen_dyadic, 0.12, 1500 if thorough else 180, 'mirror'),
            ('call-history', gen_history, 0.12, 800 if thorough else 80, False),
            ('planted-every-offset', gen_planted, 0.18, 2500 if thorough else 120, True),
            ('directed-float32-threshold', gen_float32, 0.07, 1500 if thorough else 80, False),
            ('scale', lambda r, t: gen_scale(r, t, next(scale_k)), 0.08, 12 if thorough else 6, False),
            ('random', gen_random, 0.40, 8000 if thorough else 330, True)]
    for section, gen, share, n, with_rel in plan:
        rng = random.Random('%s-%s-%s' % (rep.seed, rep.tier, section))
        t0 = time.time()
        t_end = t0 + budget * share
        made = 0
        for k in range(n):
            if time.time() > t_end or rep.out_of_time():
                rep.note('%s: stopped after %d cases (time share)' % (section, made))
                break
            case = gen(rng, thorough)
            if case is None:
                continue
            if case['kind'] == 'scan':
                if with_rel == 'mirror':        # the only relation that adds something to the exact family
                    case['relations'] = ['mirror'] if case['rc'] and rng.random() < 0.3 else []
                else:
                    case['relations'] = pick_relations(rng, case, thorough) if with_rel else []
                if len(case['pwms']) > 1 and rng.random() < 0.3:
                    case['threads'] = rng.choice([1, 2, 4, 7, 16])
            acc(_one(rep, case, (section, k), section))
            made += 1
        used[section] = round(time.time() - t0, 1)
    rep.note('windows the reference requires to be reported: %(expected)d (at start 0: %(expected_first)d, at start L-w: %(expected_last)d, '
             'with negative score: %(neg_score_hits)d, ending beyond position 65535: %(beyond_65535)d, in sequence number >= 128: '
             '%(seqidx_ge_128)d); rows reported by fimo: %(reported)d; windows judged without float guard (dyadic terms): '
             '%(exact_windows)d, of which score == score threshold exactly (must not be reported): %(exact_ties)d' % tot)
    rep.note('seconds per section: %r' % (used,))


def replay(case):
    if case.get('kind') == 'history':
        c = dict(case, steps=[dict(st) for st in case['steps']])
        res, _ = check_history(c)
        return ['[%s] %s' % (f, m) for f, m in res]
    if case.get('kind') != 'scan':
        return ['unknown replay kind']
    c = dict(case)
    res = check_scan_full(c)
    return ['[%s] %s' % (f, m) for f, m in res]
