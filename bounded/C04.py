"""Bounded stand-in for C04 (DeepLIFT/SHAP completeness) -- never counted as proved.

Every case builds a tiny random float64 network from a JSON spec, calls the REAL
tangermeme.deep_lift_shap.deep_lift_shap twice (processed output and raw_outputs=True) and compares
with plain forward passes of an identically built, never-hooked copy of the model:

  (P) processed:  sum_{c,p} attr[e,c,p]            == f(x_e)[t] - mean_j f(ref_{e,j})[t]
  (R) raw:        sum_{c,p} (x_e - ref_{e,j}) * m_{e,j} == f(x_e)[t] - f(ref_{e,j})[t]    for every pair
  (W) no RuntimeWarning ("Convergence deltas too high") is emitted
  (S) shapes: attr like X, multipliers (n, n_shuffles, A, L); every value finite

The oracle is nothing but forward passes (OBSERVE AT of the property).  Tolerance: 1e-9 relative to
1 + |f(x)| + |f(ref)| + sum |(x-ref)*m|  (float64 models; observed residuals are ~1e-16).  If an
activation input of example and reference differs by 0 < |d| < 1e-5 (the gradient-fallback band of the
implementation, probability ~0 with random float weights) the tolerance is relaxed to 1e-4 relative and
(W) is not asserted.

Sections
  net           the property's layer zoo, max-pooling with disjoint windows (stride >= kernel, dilation 1)
  dag           hand-written non-sequential models (residual add, concatenated branches, activation on input)
  maxpool-overlap   MaxPool1d whose windows overlap (stride < kernel and/or dilation > 1).  The statement
                quantifies over "max-pooling" without restriction, the implementation passes
                module.dilation on purpose, so these are asserted, under their own finding keys.
Not asserted (outside "element-wise activations"): GLU (changes the shape; raises), Softmax (not
element-wise).  A model that applies ONE activation module object at two places is measured and
reported as a note only: the statement's quantifier ("randomly generated architectures") does not
clearly include weight/module sharing.
"""
import copy
import warnings

import numpy
import torch

from tangermeme.deep_lift_shap import deep_lift_shap
from tangermeme.ersatz import dinucleotide_shuffle, shuffle
from tangermeme.utils import random_one_hot

nn = torch.nn

SCOPE = {
    'quick': 'seeded random sequential float64 nets, depth 1-4 weight layers (Conv1d k1-4/stride1-3/dilation1-3/padding0-2, Linear, AvgPool1d incl. padding/ceil/overlap, MaxPool1d with disjoint windows incl. padding/ceil, Flatten/Unflatten/Transpose, 16 element-wise activations of the table with non-default parameters), alphabet 2-5, length 6-14, 1-3 examples x 1-4 references (tensor: one-hot / zeros / uniform / real-valued; generated: dinucleotide_shuffle and shuffle with int seed, dinucleotide_shuffle unseeded), every target, batch_size 1..n*S+2: 1200 nets + every activation class (2 parameterisations x 2 weight scales) in a fixed 3-layer net + 4 non-sequential models (residual add, concatenated branches + MaxPool1d, activation/max-pool on the input, MaxPool2d) x 3 seeds + 2 nets with the default n_shuffles=20 / batch_size=32 + 100 nets with overlapping/dilated MaxPool1d and the two minimal hand-checkable ones',
    'thorough': 'same generator, 15000 nets, 1500 overlapping/dilated MaxPool1d nets, non-sequential models x 20 seeds, every activation x 10 parameterisations x 2 weight scales',
}

# ---------------------------------------------------------------------------------------------
# model zoo

ACTS = {
    'ReLU': lambda q: nn.ReLU(),
    'ReLU6': lambda q: nn.ReLU6(),
    'RReLU': lambda q: nn.RReLU(0.1, 0.4),
    'SELU': lambda q: nn.SELU(),
    'CELU': lambda q: nn.CELU(alpha=(0.5, 1.0, 2.0)[q % 3]),
    'GELU': lambda q: nn.GELU(approximate=('none', 'tanh')[q % 2]),
    'SiLU': lambda q: nn.SiLU(),
    'Mish': lambda q: nn.Mish(),
    'ELU': lambda q: nn.ELU(alpha=(1.0, 0.3, 2.5)[q % 3]),
    'LeakyReLU': lambda q: nn.LeakyReLU((0.01, 0.3, -0.2)[q % 3]),
    'Sigmoid': lambda q: nn.Sigmoid(),
    'Tanh': lambda q: nn.Tanh(),
    'Softplus': lambda q: nn.Softplus(beta=(1.0, 2.0, 0.5)[q % 3], threshold=(20.0, 3.0)[q % 2]),
    'Softshrink': lambda q: nn.Softshrink((0.5, 0.1, 1.0)[q % 3]),
    'LogSigmoid': lambda q: nn.LogSigmoid(),
    'PReLU': lambda q: nn.PReLU(),
}
ACT_NAMES = sorted(ACTS)
ACT_CLASSES = tuple({type(f(0)) for f in ACTS.values()})


class Transpose(nn.Module):
    """reshaping layer: (B, C, L) -> (B, L, C)"""
    def forward(self, X):
        return X.transpose(1, 2)


def make_layer(l):
    k = l[0]
    if k == 'conv':
        return nn.Conv1d(l[1], l[2], l[3], stride=l[4], dilation=l[5], padding=l[6], bias=bool(l[7]))
    if k == 'lin':
        return nn.Linear(l[1], l[2], bias=bool(l[3]))
    if k == 'act':
        return ACTS[l[1]](l[2])
    if k == 'avg':
        return nn.AvgPool1d(l[1], stride=l[2], padding=l[3], ceil_mode=bool(l[4]), count_include_pad=bool(l[5]))
    if k == 'max':
        return nn.MaxPool1d(l[1], stride=l[2], padding=l[3], dilation=l[4], ceil_mode=bool(l[5]))
    if k == 'flat':
        return nn.Flatten()
    if k == 'unflat':
        return nn.Unflatten(1, (l[1], l[2]))
    if k == 'transpose':
        return Transpose()
    raise ValueError(k)


def init_weights(model, wseed, gain):
    """deterministic float64 weights: N(0, gain^2 / fan_in), biases N(0, 1), PReLU slope U(-0.3, 0.8)"""
    g = torch.Generator().manual_seed(int(wseed))
    for mod in model.modules():
        if isinstance(mod, nn.PReLU):
            mod.weight.data = (torch.rand(mod.weight.shape, generator=g, dtype=torch.float64) * 1.1 - 0.3)
        elif isinstance(mod, (nn.Conv1d, nn.Linear)):
            fan_in = mod.weight[0].numel()
            mod.weight.data = torch.randn(mod.weight.shape, generator=g, dtype=torch.float64) * (gain / fan_in ** 0.5)
            if mod.bias is not None:
                mod.bias.data = torch.randn(mod.bias.shape, generator=g, dtype=torch.float64)
    return model.double().eval()


def build(spec, wseed, gain):
    return init_weights(nn.Sequential(*[make_layer(l) for l in spec]), wseed, gain)


def gen_spec(rng, A, L, depth, n_targets, maxpool='disjoint', acts=None, p_max=0.3):
    """random sequential architecture with `depth` weight layers (the last one is the Linear head).
    maxpool: None | 'disjoint' (stride >= kernel, dilation 1) | 'overlap' (at least one MaxPool1d with
    stride < kernel or dilation > 1)"""
    acts = acts or ACT_NAMES          # acts='none': affine model
    for _attempt in range(200):
        spec, cur, seq, has_overlap = [], torch.zeros(1, A, L, dtype=torch.float64), True, False

        def push(l):
            nonlocal cur
            y = make_layer(l).double()(cur)
            if y.numel() == 0 or y.numel() > 400 or not bool(torch.isfinite(y).all()):
                raise ValueError('size')     # also rejects dilated max-pool windows lying entirely in the padding (-inf)
            spec.append(l)
            cur = y

        def pool():
            nonlocal has_overlap
            if not seq or cur.shape[2] < 2:
                return
            r = rng.random()
            k = rng.randint(2, min(3, cur.shape[2]))
            if maxpool and r < p_max:
                if maxpool == 'disjoint':
                    push(['max', k, rng.choice([k, k, k + 1]), rng.randint(0, k // 2), 1, rng.randint(0, 1)])
                else:
                    s, d = rng.choice([(1, 1), (1, 1), (k - 1, 1), (k, 2), (1, 2), (k, 3), (2, 2)])
                    if s >= k and d == 1:
                        s = 1
                    push(['max', k, s, rng.randint(0, k // 2), d, rng.randint(0, 1)])
                    has_overlap = True
            elif r < p_max + 0.3:
                push(['avg', k, rng.randint(1, k + 1), rng.randint(0, k // 2), rng.randint(0, 1), rng.randint(0, 1)])

        def act(p):
            if acts != 'none' and rng.random() < p:
                push(['act', rng.choice(acts), rng.randint(0, 5)])

        try:
            if rng.random() < 0.08:
                act(1.0)          # non-linearity applied directly to the one-hot input
            if rng.random() < 0.08:
                pool()
            for _ in range(depth - 1):
                if seq and rng.random() < 0.1:
                    push(['transpose'])
                if seq and rng.random() < 0.75:
                    Lc = cur.shape[2]
                    k = rng.randint(1, min(4, Lc))
                    push(['conv', cur.shape[1], rng.randint(1, 4), k, rng.randint(1, 3) if rng.random() < 0.4 else 1,
                          rng.randint(1, 3) if rng.random() < 0.4 else 1, rng.randint(0, 2) if rng.random() < 0.5 else 0,
                          int(rng.random() < 0.85)])
                else:
                    if seq:
                        push(['flat'])
                        seq = False
                    F = rng.randint(2, 8)
                    push(['lin', cur.shape[1], F, int(rng.random() < 0.85)])
                    facs = [c for c in range(1, F + 1) if F % c == 0]
                    if rng.random() < 0.4:
                        c = rng.choice(facs)
                        push(['unflat', c, F // c])
                        seq = True
                act(0.85)
                pool()
                if rng.random() < 0.15:
                    act(1.0)      # activation directly after a pooling layer / another activation
            if seq:
                push(['flat'])
                seq = False
            push(['lin', cur.shape[1], n_targets, int(rng.random() < 0.85)])
            act(0.2)
        except Exception:
            continue
        if maxpool == 'overlap' and not has_overlap:
            continue
        return spec
    raise RuntimeError('generator failed')


def overlap_kind(spec):
    """classification of the input class, used for the finding key"""
    ov = [l for l in spec if l[0] == 'max' and (l[2] < l[1] or l[4] > 1)]
    if not ov:
        return None
    return 'dilated' if any(l[4] > 1 for l in ov) else 'overlap'


# ---------------------------------------------------------------------------------------------
# non-sequential models (section dag) and the module-sharing observation

class Res(nn.Module):
    def __init__(s, A, L):
        super().__init__()
        s.c, s.c2, s.a, s.b, s.l = nn.Conv1d(A, 3, 3, padding=1), nn.Conv1d(3, 3, 3, padding=1), nn.ReLU(), nn.Tanh(), nn.Linear(3 * L, 2)

    def forward(s, X):
        h = s.a(s.c(X))
        h = h + s.b(s.c2(h))
        return s.l(h.flatten(1))


class Branch(nn.Module):
    def __init__(s, A, L):
        super().__init__()
        s.c, s.c2, s.a, s.b, s.p, s.l = nn.Conv1d(A, 3, 3, padding=1), nn.Conv1d(A, 2, 5, padding=2), nn.ELU(), nn.Sigmoid(), nn.MaxPool1d(2), nn.Linear(5 * (L // 2), 2)

    def forward(s, X):
        return s.l(s.p(torch.cat([s.a(s.c(X)), s.b(s.c2(X))], dim=1)).flatten(1))


class InputAct(nn.Module):
    def __init__(s, A, L):
        super().__init__()
        s.a, s.p, s.b, s.l = nn.Softplus(), nn.MaxPool1d(2), nn.GELU(), nn.Linear(A * (L // 2), 2)

    def forward(s, X):
        return s.l(s.b(s.p(s.a(X)) - 0.9).flatten(1))


class Shared(nn.Module):
    """one ReLU object used at two places (observation only)"""
    def __init__(s, A, L):
        super().__init__()
        s.c, s.c2, s.a, s.l = nn.Conv1d(A, 3, 3, padding=1), nn.Conv1d(3, 3, 3, padding=1), nn.ReLU(), nn.Linear(3 * L, 2)

    def forward(s, X):
        return s.l(s.a(s.c2(s.a(s.c(X)))).flatten(1))


class Pool2d(nn.Module):
    """MaxPool2d (disjoint windows) over the (channel, position) plane"""
    def __init__(s, A, L):
        super().__init__()
        s.c, s.a, s.p, s.l = nn.Conv1d(A, 4, 3, padding=1), nn.Tanh(), nn.MaxPool2d(2), nn.Linear(2 * (L // 2), 2)

    def forward(s, X):
        return s.l(s.p(s.a(s.c(X)).unsqueeze(1)).flatten(1))


DAGS = {'res': Res, 'branch': Branch, 'inputact': InputAct, 'shared': Shared, 'pool2d': Pool2d}

# smallest overlapping-window input: alphabet {A, C}, x = ACA, reference all-zero, MaxPool1d(2, stride=1)
# directly on the input, then the sum of everything.  f(x) = 4, f(ref) = 0; position 1 of row C is the
# arg-max of both windows of that row.
MINIMAL_OVERLAP = {'kind': 'net', 'section': 'maxpool-overlap', 'A': 2, 'L': 3, 'n': 1, 'S': 1, 'target': 0, 'wseed': 0, 'gain': 1.0,
                   'xseed': 0, 'refs': 'zeros', 'rs': 0, 'batch_size': 1, 'weights': 'ones', 'Xlist': [[[1, 0, 1], [0, 1, 0]]],
                   'spec': [['max', 2, 1, 0, 1, 0], ['flat'], ['lin', 4, 1, 0]]}
# smallest dilated input: same data, MaxPool1d(2, stride=1, dilation=2): one window {0, 2} per row
MINIMAL_DILATED = dict(MINIMAL_OVERLAP, spec=[['max', 2, 1, 0, 2, 0], ['flat'], ['lin', 2, 1, 0]])


def model_of(case):
    if case.get('weights') == 'ones':        # hand-checkable minimal cases: every weight 1, no bias term
        m = nn.Sequential(*[make_layer(l) for l in case['spec']]).double().eval()
        for p in m.parameters():
            p.data.fill_(1.0)
        return m
    if case.get('dag'):
        return init_weights(DAGS[case['dag']](case['A'], case['L']), case['wseed'], case['gain'])
    return build(case['spec'], case['wseed'], case['gain'])


# ---------------------------------------------------------------------------------------------
# inputs

def make_X(case):
    if case.get('Xlist') is not None:
        return torch.tensor(case['Xlist'], dtype=torch.float64)
    return random_one_hot((case['n'], case['A'], case['L']), random_state=case['xseed']).double()


def make_refs(case, X):
    """-> (references argument, kwargs)"""
    n, S, A, L = case['n'], case['S'], case['A'], case['L']
    g = torch.Generator().manual_seed(case['xseed'] + 7919)
    r = case['refs']
    if r == 'onehot':
        return random_one_hot((n * S, A, L), random_state=case['xseed'] + 1).double().reshape(n, S, A, L), {}
    if r == 'zeros':
        return torch.zeros(n, S, A, L, dtype=torch.float64), {}
    if r == 'uniform':
        return torch.full((n, S, A, L), 1.0 / A, dtype=torch.float64), {}
    if r == 'real':
        return torch.rand(n, S, A, L, generator=g, dtype=torch.float64), {}
    if r == 'dinuc':
        return dinucleotide_shuffle, {'n_shuffles': S, 'random_state': case['rs']}
    if r == 'shuffle':
        return shuffle, {'n_shuffles': S, 'random_state': case['rs']}
    if r == 'dinuc-noseed':
        return dinucleotide_shuffle, {'n_shuffles': S, 'random_state': None}
    raise ValueError(r)


REF_KINDS = ['onehot', 'onehot', 'zeros', 'uniform', 'real', 'dinuc', 'dinuc', 'shuffle', 'dinuc-noseed']


def _act_inputs(model, Z):
    """inputs of every activation / max-pool module for the batch Z (forward hooks on a private copy)"""
    m = copy.deepcopy(model)
    got, hs = [], []
    for mod in m.modules():
        if isinstance(mod, ACT_CLASSES + (nn.MaxPool1d, nn.MaxPool2d)):
            hs.append(mod.register_forward_pre_hook(lambda mod, inp: got.append(inp[0].detach().clone())))
    with torch.no_grad():
        m(Z)
    for h in hs:
        h.remove()
    return got


def _call(model, X, refs_arg, kw, case, raw):
    numpy.random.seed(case['xseed'] % (2 ** 31))      # only matters for random_state=None
    with warnings.catch_warnings(record=True) as w:
        warnings.simplefilter('always')
        out = deep_lift_shap(model, X, target=case['target'], batch_size=case['batch_size'], references=refs_arg,
                             return_references=True, raw_outputs=raw, device='cpu', **kw)
    nw = [str(x.message)[:80] for x in w if issubclass(x.category, RuntimeWarning)]
    return out[0], out[1].double(), nw


def finding_of(case, what):
    """stable key of the input class a violation belongs to"""
    kind = overlap_kind(case['spec']) if case.get('spec') else None
    if what.startswith('deep_lift_shap raised'):
        return 'maxpool-dilation-raises' if kind == 'dilated' else ('maxpool-overlap-raises' if kind else 'raises')
    return 'maxpool-overlapping-windows' if kind else 'generic'


def check_net(case, info=None):
    """-> list of violation strings"""
    out = []
    kind = overlap_kind(case['spec']) if case.get('spec') else None
    model = model_of(case)           # handed to deep_lift_shap
    clean = model_of(case)           # never hooked: forward passes of "the same model"
    X = make_X(case)
    n, S, A, L, t = case['n'], case['S'], case['A'], case['L'], case['target']
    refs_arg, kw = make_refs(case, X)
    try:
        attr, refs_p, w1 = _call(model, X, refs_arg, kw, case, False)
        mult, refs_r, w2 = _call(model, X, refs_arg, kw, case, True)
    except Exception as e:
        return [('deep_lift_shap raised instead of returning attributions (%s model)%s: %s: %s'
                 % (kind or 'in-scope', ' ' * 24, type(e).__name__, str(e)[:100]))]
    if tuple(attr.shape) != (n, A, L):
        return [('processed shape %s != X shape' % (tuple(attr.shape),))]
    if tuple(mult.shape) != (n, S, A, L) or tuple(refs_p.shape) != (n, S, A, L):
        return [('raw shape %s / references shape %s' % (tuple(mult.shape), tuple(refs_p.shape)))]
    if not (torch.isfinite(attr).all() and torch.isfinite(mult).all()):
        out.append(('non-finite attribution / multiplier'))
        return out
    with torch.no_grad():
        fx = clean(X)[:, t]
        fr_p = clean(refs_p.reshape(n * S, A, L))[:, t].reshape(n, S)
        fr_r = clean(refs_r.reshape(n * S, A, L))[:, t].reshape(n, S)
    # band detection (see module docstring)
    band = False
    Z = torch.cat([X.repeat_interleave(S, 0), refs_r.reshape(n * S, A, L), refs_p.reshape(n * S, A, L)])
    for h in _act_inputs(clean, Z):
        a, b, c = h.chunk(3)
        for d in ((a - b).abs(), (a - c).abs()):
            if bool(((d > 0) & (d < 1e-5)).any()):
                band = True
    rel = 1e-4 if band else 1e-9
    terms = (X[:, None] - refs_r) * mult
    lhs_r = terms.sum(dim=(2, 3))
    rhs_r = fx[:, None] - fr_r
    scale_r = 1 + fx.abs()[:, None] + fr_r.abs() + terms.abs().sum(dim=(2, 3))
    err_r = (lhs_r - rhs_r).abs() / scale_r
    if bool((err_r > rel).any()):
        e, j = divmod(int(err_r.argmax()), S)
        out.append(('raw clause: sum((x-ref)*multipliers) != f(x)[t]-f(ref)[t] for an example-reference pair: %.12g vs %.12g (example %d, reference %d)' % (lhs_r[e, j], rhs_r[e, j], e, j)))
    lhs_p = attr.sum(dim=(1, 2))
    rhs_p = fx - fr_p.mean(dim=1)
    scale_p = 1 + fx.abs() + fr_p.abs().mean(dim=1) + attr.abs().sum(dim=(1, 2))
    err_p = (lhs_p - rhs_p).abs() / scale_p
    if bool((err_p > rel).any()):
        e = int(err_p.argmax())
        out.append(('processed clause: sum(attributions) != f(x)[t] - mean_j f(ref_j)[t] for an example: %.12g vs %.12g (example %d)' % (lhs_p[e], rhs_p[e], e)))
    if (w1 or w2) and not band:
        out.append(('warning clause: a RuntimeWarning was emitted for a model inside the property scope: %s' % (w1 + w2)[0]))
    if info is not None:
        # non-trivial: the rescale rule made a difference w.r.t. the plain gradient
        Xg = X.repeat_interleave(S, 0).clone().requires_grad_()
        g = torch.autograd.grad(clean(Xg)[:, t].sum(), Xg)[0].reshape(n, S, A, L)
        info['nontrivial'] = bool(((g - mult).abs() > 1e-6).any())
        info['max_rel_err'] = float(max(err_r.max(), err_p.max()))
        info['band'] = band
    return out


# ---------------------------------------------------------------------------------------------

def _new_case(rng, section, spec_fn):
    A = rng.choice([4, 4, 4, 2, 3, 5])
    L = rng.randint(6, 14)
    n, S = rng.randint(1, 3), rng.randint(1, 4)
    nt = rng.randint(1, 3)
    case = {'kind': 'net', 'section': section, 'A': A, 'L': L, 'n': n, 'S': S, 'target': rng.randrange(nt),
            'wseed': rng.randrange(10 ** 6), 'gain': rng.choice([0.7, 1.5, 3.0]), 'xseed': rng.randrange(10 ** 6),
            'refs': rng.choice(REF_KINDS), 'rs': rng.randrange(1000), 'batch_size': rng.randint(1, n * S + 2)}
    case['spec'] = spec_fn(rng, A, L, nt)
    return case


def _run_case(rep, case, key, sample=False):
    info = {}
    try:
        res = check_net(case, info)
    except Exception as e:      # harness error: visible, not a property violation
        rep.note('harness error on %s: %s %s' % (key, type(e).__name__, str(e)[:120]))
        return
    rep.case(key, nontrivial=info.get('nontrivial', True), section=case['section'],
             sample={k: case[k] for k in ('spec', 'A', 'L', 'n', 'S', 'refs', 'batch_size') if k in case} if sample else None)
    for what in res:
        rep.violation(what, case, finding=finding_of(case, what))
    return info


def run(rep):
    thorough = rep.tier == 'thorough'
    rng = rep.rng
    worst = 0.0
    # (1) every activation class in a fixed 3-weight-layer net
    for name in ACT_NAMES:
        for q in range(10 if thorough else 2):
            for gain in (1.5, 4.0):
                spec = [['conv', 4, 3, 3, 2, 2, 2, 1], ['act', name, q], ['avg', 2, 2, 0, 0, 1], ['flat'], ['lin', 9, 3, 1], ['act', name, q + 1], ['lin', 3, 2, 1]]
                case = {'kind': 'net', 'section': 'each-activation', 'A': 4, 'L': 12, 'n': 2, 'S': 3, 'target': q % 2, 'wseed': 100 + q, 'gain': gain,
                        'xseed': q, 'refs': 'onehot' if q % 2 == 0 else 'dinuc', 'rs': q, 'batch_size': 4, 'spec': spec}
                i = _run_case(rep, case, ('act', name, q, gain))
                if i:
                    worst = max(worst, i['max_rel_err'])
    # (2) non-sequential models
    for name in ('res', 'branch', 'inputact', 'pool2d'):
        for sd in range(20 if thorough else 3):
            case = {'kind': 'net', 'section': 'dag', 'dag': name, 'A': 4, 'L': 10, 'n': 2, 'S': 3, 'target': sd % 2, 'wseed': sd, 'gain': 2.0,
                    'xseed': sd, 'refs': REF_KINDS[sd % len(REF_KINDS)], 'rs': sd, 'batch_size': 1 + sd % 7}
            _run_case(rep, case, ('dag', name, sd))
    # the documented defaults: 20 dinucleotide shuffles per example, batch_size 32 (the last batch is partial)
    for sd in range(10 if thorough else 2):
        spec = gen_spec(rng, 4, 16, 3, 2, maxpool='disjoint')
        case = {'kind': 'net', 'section': 'defaults', 'A': 4, 'L': 16, 'n': 3, 'S': 20, 'target': sd % 2, 'wseed': sd, 'gain': 1.5,
                'xseed': 50 + sd, 'refs': 'dinuc', 'rs': sd, 'batch_size': 32, 'spec': spec}
        _run_case(rep, case, ('defaults', sd))
    # observation only: one activation object applied twice
    bad = 0
    for sd in range(3):
        case = {'kind': 'net', 'section': 'shared', 'dag': 'shared', 'A': 4, 'L': 10, 'n': 2, 'S': 3, 'target': 0, 'wseed': sd, 'gain': 2.0,
                'xseed': sd, 'refs': 'onehot', 'rs': sd, 'batch_size': 6}
        try:
            bad += bool(check_net(case))
        except Exception:
            bad += 1
    rep.note('observation, not asserted: a model applying ONE ReLU module object at two places breaks completeness in %d of 3 seeded cases (module.input/output are overwritten by the later use)' % bad)
    # (3) overlapping / dilated MaxPool1d
    _run_case(rep, MINIMAL_OVERLAP, ('ov', 'minimal'))
    _run_case(rep, MINIMAL_DILATED, ('ov', 'minimal-dilated'))
    n_ov = 1500 if thorough else 100
    for k in range(n_ov):
        if rep.left() < (200 if thorough else 25):
            rep.note('overlap section cut at %d' % k)
            break
        case = _new_case(rng, 'maxpool-overlap', lambda r, A, L, nt: gen_spec(r, A, L, r.randint(2, 3), nt, maxpool='overlap', p_max=0.7))
        _run_case(rep, case, ('ov', k), sample=k < 1)
    # (4) the main generator
    n_main = 15000 if thorough else 1200
    for k in range(n_main):
        if rep.out_of_time():
            rep.note('main generator cut at %d of %d (time budget)' % (k, n_main))
            break
        depth = 1 + k % 4
        case = _new_case(rng, 'net', lambda r, A, L, nt: gen_spec(r, A, L, depth, nt, maxpool='disjoint'))
        i = _run_case(rep, case, ('net', k), sample=k < 2)
        if i:
            worst = max(worst, i['max_rel_err'])
    rep.note('largest relative completeness residual over the sections expected to hold: %.3g' % worst)


def replay(case):
    if case.get('kind') == 'net':
        return check_net(case)
    return ['unknown replay kind']
