"""Bounded stand-in for C04 (DeepLIFT/SHAP completeness) -- never counted as proved.

Every case builds a tiny random float64 network from a JSON spec, calls the REAL
tangermeme.deep_lift_shap.deep_lift_shap twice (processed output and raw_outputs=True) and compares
with plain forward passes of an identically built, never-hooked copy of the model:

  (P) processed:  sum_{c,p} attr[e,c,p]            == f(x_e)[t] - mean_j f(ref_{e,j})[t]
  (R) raw:        sum_{c,p} (x_e - ref_{e,j}) * m_{e,j} == f(x_e)[t] - f(ref_{e,j})[t]    for every pair
  (W) no RuntimeWarning ("Convergence deltas too high") is emitted
  (S) shapes: attr like X, multipliers (n, n_shuffles, A, L); every value finite

The oracle is nothing but forward passes (OBSERVE AT of the property).  Tolerance: 1e-9 relative to
1 + |f(x)| + |f(ref)| + sum |(x-ref)*m|  (float64 models; observed residuals are ~1e-16).  If an
activation input of example and reference differs by 0 < |d| < 1e-5 (the gradient-fallback band of the
implementation, probability ~0 with random float weights) the tolerance is relaxed to 1e-4 relative and
(W) is not asserted.

Sections
  net           the property's layer zoo, max-pooling with disjoint windows (stride >= kernel, dilation 1)
  dag           hand-written non-sequential models (residual add, concatenated branches, activation on input)
  maxpool-overlap   MaxPool1d whose windows overlap (stride < kernel and/or dilation > 1).  The statement
                quantifies over "max-pooling" without restriction, the implementation passes
                module.dilation on purpose, so these are asserted, under their own finding keys.
  extra-act     element-wise activations that are NOT in the built-in table (Hardtanh, Softsign, Tanhshrink,
                Hardswish, Hardsigmoid, Hardshrink, Threshold, a user module x*x), made "supported" through
                additional_nonlinear_ops={cls: _nonlinear} as documented; for two of them the rule is a
                function written in this file (same signature, reads module.input / module.output)
  near          references = x + eps * noise, eps in 3e-4 .. 1e-2: every activation input differs by a small
                amount that lies OUTSIDE the gradient-fallback band, so the rescale rule (not the gradient)
                must be used; tolerance 1e-12 relative (largest residual observed over 2300 such cases: 3e-15)
  pool2d        random MaxPool2d (int / tuple kernel, stride, padding, dilation, ceil_mode) on the
                (channel, position) plane
  args          models with additional forward arguments (args=(a,) / (a, b)), batches that cut through
                the references of one example
  nested        the same generator, layers grouped into nested nn.Sequential containers
  many          5-9 examples, 1-3 references, batch sizes that straddle examples
  history       call histories on shared state: a preceding call on ANOTHER model that overrides the
                rules of ReLU/Tanh/MaxPool1d through additional_nonlinear_ops must not leak into the next
                call; a preceding call on the SAME model that raised (target out of range) must not matter
Options mixed into the random sections: hypothetical=True (sum(attr * x) is the asserted quantity: the
attribution of the characters actually present), return_references=False (tensor references), an
n_shuffles argument that contradicts a reference tensor (documented: ignored), verbose /
print_convergence_deltas, negative target index, references that equal x / duplicate references.
For a reference TENSOR the oracle uses the tensor that was GIVEN (pair j of the raw output belongs to
references[:, j]), not the one handed back by return_references.

POSSIBLE DEFECT (cases kept, switched off by the flags below; both raise on the unchanged tree)
  ENABLE_AMBIENT_NO_GRAD  deep_lift_shap called inside `with torch.no_grad():` raises
        RuntimeError "The differentiated Tensor at index 0 appears to not have been used in the graph":
        X_ = torch.cat([_X, _references]) (L420) is executed BEFORE the set_grad_enabled(True) block, so
        the graph does not reach _X.  Input: any model, e.g. Conv1d(4,3,3,padding=1)-ReLU-Flatten-Linear,
        X = random_one_hot((2,4,10)), references tensor (2,3,4,10), device='cpu', under torch.no_grad().
        The statement does not mention the ambient grad mode, the code visibly intends to support it.
  ENABLE_INPLACE_ACT      a supported activation constructed with inplace=True (nn.ReLU(inplace=True), same
        model/input as above) raises RuntimeError "Output 0 of BackwardHookFunction is a view and is being
        modified inplace" (full backward hook + in-place op).  Whether ReLU(inplace=True) is one of "the
        supported element-wise activations" is a matter of reading.

Not asserted (outside "element-wise activations"): GLU (changes the shape; raises), Softmax (not
element-wise).  A model that applies ONE activation module object at two places is measured and
reported as a note only: the statement's quantifier ("randomly generated architectures") does not
clearly include weight/module sharing.
"""
import contextlib
import copy
import io
import warnings

import numpy
import torch

from tangermeme.deep_lift_shap import deep_lift_shap, _nonlinear
from tangermeme.ersatz import dinucleotide_shuffle, shuffle
from tangermeme.utils import random_one_hot

nn = torch.nn
torch.set_num_threads(1)

# see POSSIBLE DEFECT in the module docstring
ENABLE_AMBIENT_NO_GRAD = False
ENABLE_INPLACE_ACT = False

SCOPE = {
    'quick': 'seeded random sequential float64 nets, depth 1-4 weight layers (Conv1d k1-4/stride1-3/dilation1-3/padding0-2, Linear, AvgPool1d incl. padding/ceil/overlap, MaxPool1d with disjoint windows incl. padding/ceil, Flatten/Unflatten/Transpose, 16 element-wise activations of the table with non-default parameters; 12% of the nets wrapped into nested nn.Sequential containers), alphabet 2-5, length 6-14, 1-3 examples x 1-4 references (tensor: one-hot / zeros / uniform / real-valued / x itself as a reference / duplicate references / x + small noise; generated: dinucleotide_shuffle and shuffle with int seed, dinucleotide_shuffle unseeded), every target incl. negative indices, batch_size 1..n*S+2, options mixed in: hypothetical=True (15%), return_references=False with reference tensors (30%), a contradicting n_shuffles with reference tensors (30%), verbose/print_convergence_deltas (3%); for reference tensors the oracle pairs multipliers with the tensor that was passed in: 1200 nets + every activation class (2 parameterisations x 2 weight scales) in a fixed 3-layer net + 4 non-sequential models (residual add, concatenated branches + MaxPool1d, activation/max-pool on the input, MaxPool2d) x 3 seeds + 2 models with additional forward arguments (args) x 5 seeds/batch sizes + 8 activations outside the table registered through additional_nonlinear_ops (library rule or a rule written in the driver) x 2 + 16 random nets of them + every activation x references at distance 3e-4/1e-3/1e-2 from x (tolerance 1e-12) + 30 such random nets + 60 nets with MaxPool2d (int/pair/default kernel, stride, padding, dilation, ceil_mode, overlapping) + 12 nested + 10 nets with 5-9 examples + 8 call histories (rule overrides in a preceding call on another model; a preceding failing call on the same model) + 2 nets with the default n_shuffles=20 / batch_size=32 + 100 nets with overlapping/dilated MaxPool1d and the two minimal hand-checkable ones',
    'thorough': 'same generator, 15000 nets, 1500 overlapping/dilated MaxPool1d nets, 800 MaxPool2d nets, non-sequential models x 20 seeds, args models x 20, every activation x 10 parameterisations x 2 weight scales, x 5 small reference distances, 300 near-reference nets, 200 + 48 nets with activations outside the table, 150 nested, 100 many-example nets, 24 call histories',
}

# ---------------------------------------------------------------------------------------------
# model zoo

ACTS = {
    'ReLU': lambda q: nn.ReLU(),
    'ReLU6': lambda q: nn.ReLU6(),
    'RReLU': lambda q: nn.RReLU(0.1, 0.4),
    'SELU': lambda q: nn.SELU(),
    'CELU': lambda q: nn.CELU(alpha=(0.5, 1.0, 2.0)[q % 3]),
    'GELU': lambda q: nn.GELU(approximate=('none', 'tanh')[q % 2]),
    'SiLU': lambda q: nn.SiLU(),
    'Mish': lambda q: nn.Mish(),
    'ELU': lambda q: nn.ELU(alpha=(1.0, 0.3, 2.5)[q % 3]),
    'LeakyReLU': lambda q: nn.LeakyReLU((0.01, 0.3, -0.2)[q % 3]),
    'Sigmoid': lambda q: nn.Sigmoid(),
    'Tanh': lambda q: nn.Tanh(),
    'Softplus': lambda q: nn.Softplus(beta=(1.0, 2.0, 0.5)[q % 3], threshold=(20.0, 3.0)[q % 2]),
    'Softshrink': lambda q: nn.Softshrink((0.5, 0.1, 1.0)[q % 3]),
    'LogSigmoid': lambda q: nn.LogSigmoid(),
    'PReLU': lambda q: nn.PReLU(),
}
ACT_NAMES = sorted(ACTS)


class Square(nn.Module):
    """a user-written element-wise activation"""
    def forward(self, X):
        return X * X


# element-wise activations that are not in the built-in table: supported through additional_nonlinear_ops
EXTRA_ACTS = {
    'Hardtanh': lambda q: nn.Hardtanh(-0.5, (1.0, 0.7)[q % 2]),
    'Softsign': lambda q: nn.Softsign(),
    'Tanhshrink': lambda q: nn.Tanhshrink(),
    'Hardswish': lambda q: nn.Hardswish(),
    'Hardsigmoid': lambda q: nn.Hardsigmoid(),
    'Hardshrink': lambda q: nn.Hardshrink((0.5, 0.2)[q % 2]),
    'Threshold': lambda q: nn.Threshold((0.1, -0.3)[q % 2], -0.5),
    'Square': lambda q: Square(),
}
EXTRA_NAMES = sorted(EXTRA_ACTS)
ALL_ACTS = dict(ACTS, **EXTRA_ACTS)
EXTRA_CLASSES = tuple({type(f(0)) for f in EXTRA_ACTS.values()})
ACT_CLASSES = tuple({type(f(0)) for f in ALL_ACTS.values()})


class Transpose(nn.Module):
    """reshaping layer: (B, C, L) -> (B, L, C)"""
    def forward(self, X):
        return X.transpose(1, 2)


def _t(v):
    """MaxPool2d parameter: int, [h, w] or None (stride: the default)"""
    return tuple(v) if isinstance(v, (list, tuple)) else v


def make_layer(l):
    k = l[0]
    if k == 'conv':
        return nn.Conv1d(l[1], l[2], l[3], stride=l[4], dilation=l[5], padding=l[6], bias=bool(l[7]))
    if k == 'lin':
        return nn.Linear(l[1], l[2], bias=bool(l[3]))
    if k == 'act':
        return ALL_ACTS[l[1]](l[2])
    if k == 'avg':
        return nn.AvgPool1d(l[1], stride=l[2], padding=l[3], ceil_mode=bool(l[4]), count_include_pad=bool(l[5]))
    if k == 'max':
        return nn.MaxPool1d(l[1], stride=l[2], padding=l[3], dilation=l[4], ceil_mode=bool(l[5]))
    if k == 'max2':      # on (B, 1, C, L); every parameter int or [h, w]
        return nn.MaxPool2d(_t(l[1]), stride=_t(l[2]), padding=_t(l[3]), dilation=_t(l[4]), ceil_mode=bool(l[5]))
    if k == 'unsq':      # (B, C, L) -> (B, 1, C, L)
        return nn.Unflatten(1, (1, l[1]))
    if k == 'flat':
        return nn.Flatten()
    if k == 'unflat':
        return nn.Unflatten(1, (l[1], l[2]))
    if k == 'transpose':
        return Transpose()
    if k == 'seq':       # nested container
        return nn.Sequential(*[make_layer(x) for x in l[1]])
    raise ValueError(k)


def flat_layers(spec):
    for l in spec:
        if l[0] == 'seq':
            yield from flat_layers(l[1])
        else:
            yield l


def nestify(rng, spec):
    """group runs of consecutive layers into nested nn.Sequential containers (same function)"""
    out, i = [], 0
    while i < len(spec):
        m = rng.randint(1, 3)
        grp = spec[i:i + m]
        i += m
        r = rng.random()
        if r < 0.5:
            out.append(['seq', grp])
        elif r < 0.75:
            out.append(['seq', [['seq', grp[:1]]] + grp[1:]])
        else:
            out.extend(grp)
    if not any(l[0] == 'seq' for l in out):
        out = [['seq', [['seq', out[:-1]]]], out[-1]] if len(out) > 1 else [['seq', out]]
    return out


def init_weights(model, wseed, gain):
    """deterministic float64 weights: N(0, gain^2 / fan_in), biases N(0, 1), PReLU slope U(-0.3, 0.8)"""
    g = torch.Generator().manual_seed(int(wseed))
    for mod in model.modules():
        if isinstance(mod, nn.PReLU):
            mod.weight.data = (torch.rand(mod.weight.shape, generator=g, dtype=torch.float64) * 1.1 - 0.3)
        elif isinstance(mod, (nn.Conv1d, nn.Linear)):
            fan_in = mod.weight[0].numel()
            mod.weight.data = torch.randn(mod.weight.shape, generator=g, dtype=torch.float64) * (gain / fan_in ** 0.5)
            if mod.bias is not None:
                mod.bias.data = torch.randn(mod.bias.shape, generator=g, dtype=torch.float64)
    return model.double().eval()


def build(spec, wseed, gain):
    return init_weights(nn.Sequential(*[make_layer(l) for l in spec]), wseed, gain)


def gen_spec(rng, A, L, depth, n_targets, maxpool='disjoint', acts=None, p_max=0.3):
    """random sequential architecture with `depth` weight layers (the last one is the Linear head).
    maxpool: None | 'disjoint' (stride >= kernel, dilation 1) | 'overlap' (at least one MaxPool1d with
    stride < kernel or dilation > 1)"""
    acts = acts or ACT_NAMES          # acts='none': affine model
    for _attempt in range(200):
        spec, cur, seq, has_overlap = [], torch.zeros(1, A, L, dtype=torch.float64), True, False

        def push(l):
            nonlocal cur
            y = make_layer(l).double()(cur)
            if y.numel() == 0 or y.numel() > 400 or not bool(torch.isfinite(y).all()):
                raise ValueError('size')     # also rejects dilated max-pool windows lying entirely in the padding (-inf)
            spec.append(l)
            cur = y

        def pool():
            nonlocal has_overlap
            if not seq or cur.shape[2] < 2:
                return
            r = rng.random()
            k = rng.randint(2, min(3, cur.shape[2]))
            if maxpool and r < p_max:
                if maxpool == 'disjoint':
                    push(['max', k, rng.choice([k, k, k + 1]), rng.randint(0, k // 2), 1, rng.randint(0, 1)])
                else:
                    s, d = rng.choice([(1, 1), (1, 1), (k - 1, 1), (k, 2), (1, 2), (k, 3), (2, 2)])
                    if s >= k and d == 1:
                        s = 1
                    push(['max', k, s, rng.randint(0, k // 2), d, rng.randint(0, 1)])
                    has_overlap = True
            elif r < p_max + 0.3:
                push(['avg', k, rng.randint(1, k + 1), rng.randint(0, k // 2), rng.randint(0, 1), rng.randint(0, 1)])

        def act(p):
            if acts != 'none' and rng.random() < p:
                push(['act', rng.choice(acts), rng.randint(0, 5)])

        try:
            if rng.random() < 0.08:
                act(1.0)          # non-linearity applied directly to the one-hot input
            if rng.random() < 0.08:
                pool()
            for _ in range(depth - 1):
                if seq and rng.random() < 0.1:
                    push(['transpose'])
                if seq and rng.random() < 0.75:
                    Lc = cur.shape[2]
                    k = rng.randint(1, min(4, Lc))
                    push(['conv', cur.shape[1], rng.randint(1, 4), k, rng.randint(1, 3) if rng.random() < 0.4 else 1,
                          rng.randint(1, 3) if rng.random() < 0.4 else 1, rng.randint(0, 2) if rng.random() < 0.5 else 0,
                          int(rng.random() < 0.85)])
                else:
                    if seq:
                        push(['flat'])
                        seq = False
                    F = rng.randint(2, 8)
                    push(['lin', cur.shape[1], F, int(rng.random() < 0.85)])
                    facs = [c for c in range(1, F + 1) if F % c == 0]
                    if rng.random() < 0.4:
                        c = rng.choice(facs)
                        push(['unflat', c, F // c])
                        seq = True
                act(0.85)
                pool()
                if rng.random() < 0.15:
                    act(1.0)      # activation directly after a pooling layer / another activation
            if seq:
                push(['flat'])
                seq = False
            push(['lin', cur.shape[1], n_targets, int(rng.random() < 0.85)])
            act(0.2)
        except Exception:
            continue
        if maxpool == 'overlap' and not has_overlap:
            continue
        return spec
    raise RuntimeError('generator failed')


def gen_spec2d(rng, A, L, n_targets):
    """conv -> act -> MaxPool2d over the (channel, position) plane -> [act] -> head.  Kernel / stride /
    padding / dilation are ints or (h, w) pairs, windows may overlap, ceil_mode on or off"""
    for _attempt in range(300):
        C = rng.randint(2, 5)
        spec = [['conv', A, C, rng.randint(1, 3), 1, 1, rng.randint(0, 1), 1], ['act', rng.choice(ACT_NAMES), rng.randint(0, 5)], ['unsq', C]]
        if rng.random() < 0.35:      # all-int parameters (what MaxPool2d(2) stores)
            k = rng.randint(2, 3)
            mp = ['max2', k, rng.choice([k, k, 1, k - 1 or 1]), rng.randint(0, k // 2), rng.choice([1, 1, 1, 2]), rng.randint(0, 1)]
        else:
            kh, kw = rng.randint(1, min(3, C)), rng.randint(1, 3)
            if kh * kw == 1:
                kw = 2
            # the usual way of writing it: kernel (and stride) as pairs, padding / dilation left as the int defaults
            mp = ['max2', [kh, kw], rng.choice([None, [rng.randint(1, kh + 1), rng.randint(1, kw + 1)], [rng.randint(1, kh + 1), rng.randint(1, kw + 1)]]),
                  rng.choice([0, [rng.randint(0, kh // 2), rng.randint(0, kw // 2)]]),
                  rng.choice([1, 1, 1, [1, 1], [1, 2], [2, 1]]), rng.randint(0, 1)]
        spec.append(mp)
        if rng.random() < 0.3:
            spec.append(['act', rng.choice(ACT_NAMES), rng.randint(0, 5)])
        spec.append(['flat'])
        try:
            cur = torch.zeros(1, A, L, dtype=torch.float64)
            for l in spec:
                cur = make_layer(l).double()(cur)
            if cur.numel() == 0 or cur.numel() > 400 or not bool(torch.isfinite(cur).all()):
                continue
        except Exception:
            continue
        spec.append(['lin', cur.shape[1], n_targets, 1])
        return spec
    raise RuntimeError('generator failed')


def _pair(v, default=None):
    if v is None:
        v = default
    return list(v) if isinstance(v, (list, tuple)) else [v, v]


def overlap_kind(spec):
    """classification of the input class, used for the finding key"""
    layers = list(flat_layers(spec))
    ov = [l for l in layers if l[0] == 'max' and (l[2] < l[1] or l[4] > 1)]
    ov2 = [l for l in layers if l[0] == 'max2' and (any(s < k for s, k in zip(_pair(l[2], l[1]), _pair(l[1]))) or max(_pair(l[4])) > 1)]
    if not ov and not ov2:
        return None
    return 'dilated' if any(l[4] > 1 for l in ov) or any(max(_pair(l[4])) > 1 for l in ov2) else 'overlap'


# ---------------------------------------------------------------------------------------------
# non-sequential models (section dag) and the module-sharing observation

class Res(nn.Module):
    def __init__(s, A, L):
        super().__init__()
        s.c, s.c2, s.a, s.b, s.l = nn.Conv1d(A, 3, 3, padding=1), nn.Conv1d(3, 3, 3, padding=1), nn.ReLU(), nn.Tanh(), nn.Linear(3 * L, 2)

    def forward(s, X):
        h = s.a(s.c(X))
        h = h + s.b(s.c2(h))
        return s.l(h.flatten(1))


class Branch(nn.Module):
    def __init__(s, A, L):
        super().__init__()
        s.c, s.c2, s.a, s.b, s.p, s.l = nn.Conv1d(A, 3, 3, padding=1), nn.Conv1d(A, 2, 5, padding=2), nn.ELU(), nn.Sigmoid(), nn.MaxPool1d(2), nn.Linear(5 * (L // 2), 2)

    def forward(s, X):
        return s.l(s.p(torch.cat([s.a(s.c(X)), s.b(s.c2(X))], dim=1)).flatten(1))


class InputAct(nn.Module):
    def __init__(s, A, L):
        super().__init__()
        s.a, s.p, s.b, s.l = nn.Softplus(), nn.MaxPool1d(2), nn.GELU(), nn.Linear(A * (L // 2), 2)

    def forward(s, X):
        return s.l(s.b(s.p(s.a(X)) - 0.9).flatten(1))


class Shared(nn.Module):
    """one ReLU object used at two places (observation only)"""
    def __init__(s, A, L):
        super().__init__()
        s.c, s.c2, s.a, s.l = nn.Conv1d(A, 3, 3, padding=1), nn.Conv1d(3, 3, 3, padding=1), nn.ReLU(), nn.Linear(3 * L, 2)

    def forward(s, X):
        return s.l(s.a(s.c2(s.a(s.c(X)))).flatten(1))


class Pool2d(nn.Module):
    """MaxPool2d (disjoint windows) over the (channel, position) plane"""
    def __init__(s, A, L):
        super().__init__()
        s.c, s.a, s.p, s.l = nn.Conv1d(A, 4, 3, padding=1), nn.Tanh(), nn.MaxPool2d(2), nn.Linear(2 * (L // 2), 2)

    def forward(s, X):
        return s.l(s.p(s.a(s.c(X)).unsqueeze(1)).flatten(1))


class Args1(nn.Module):
    """one additional forward argument a: (B, 3), scales the channels and enters the head"""
    n_args = 1

    def __init__(s, A, L):
        super().__init__()
        s.c, s.a, s.p, s.l, s.la = nn.Conv1d(A, 3, 3, padding=1), nn.GELU(), nn.MaxPool1d(2), nn.Linear(3 * (L // 2), 2), nn.Linear(3, 2)

    def forward(s, X, a):
        return s.l(s.p(s.a(s.c(X) * (1.0 + a[:, :, None]))).flatten(1)) + s.la(a)


class Args2(nn.Module):
    """two additional forward arguments a: (B, 3) and b: (B, L)"""
    n_args = 2

    def __init__(s, A, L):
        super().__init__()
        s.c, s.a, s.b, s.l = nn.Conv1d(A, 3, 3, padding=1), nn.ELU(), nn.Sigmoid(), nn.Linear(3 * L, 2)

    def forward(s, X, a, b):
        h = s.a(s.c(X) + a[:, :, None]) * b[:, None, :]
        return s.l(s.b(h).flatten(1))


DAGS = {'res': Res, 'branch': Branch, 'inputact': InputAct, 'shared': Shared, 'pool2d': Pool2d, 'args1': Args1, 'args2': Args2}


def make_args(case):
    """additional forward arguments of the model (one row per example) or None"""
    k = getattr(DAGS.get(case.get('dag')), 'n_args', 0)
    if not k:
        return None
    g = torch.Generator().manual_seed(case['xseed'] + 104729)
    a = torch.randn(case['n'], 3, generator=g, dtype=torch.float64)
    b = torch.rand(case['n'], case['L'], generator=g, dtype=torch.float64) * 2 - 0.5
    return (a, b)[:k]

# smallest overlapping-window input: alphabet {A, C}, x = ACA, reference all-zero, MaxPool1d(2, stride=1)
# directly on the input, then the sum of everything.  f(x) = 4, f(ref) = 0; position 1 of row C is the
# arg-max of both windows of that row.
MINIMAL_OVERLAP = {'kind': 'net', 'section': 'maxpool-overlap', 'A': 2, 'L': 3, 'n': 1, 'S': 1, 'target': 0, 'wseed': 0, 'gain': 1.0,
                   'xseed': 0, 'refs': 'zeros', 'rs': 0, 'batch_size': 1, 'weights': 'ones', 'Xlist': [[[1, 0, 1], [0, 1, 0]]],
                   'spec': [['max', 2, 1, 0, 1, 0], ['flat'], ['lin', 4, 1, 0]]}
# smallest dilated input: same data, MaxPool1d(2, stride=1, dilation=2): one window {0, 2} per row
MINIMAL_DILATED = dict(MINIMAL_OVERLAP, spec=[['max', 2, 1, 0, 2, 0], ['flat'], ['lin', 2, 1, 0]])


def model_of(case):
    m = _model_of(case)
    if case.get('inplace'):          # POSSIBLE DEFECT / ENABLE_INPLACE_ACT
        for mod in m.modules():
            if isinstance(mod, ACT_CLASSES) and hasattr(mod, 'inplace'):
                mod.inplace = True
    return m


def _model_of(case):
    if case.get('weights') == 'ones':        # hand-checkable minimal cases: every weight 1, no bias term
        m = nn.Sequential(*[make_layer(l) for l in case['spec']]).double().eval()
        for p in m.parameters():
            p.data.fill_(1.0)
        return m
    if case.get('dag'):
        return init_weights(DAGS[case['dag']](case['A'], case['L']), case['wseed'], case['gain'])
    return build(case['spec'], case['wseed'], case['gain'])


# ---------------------------------------------------------------------------------------------
# inputs

def make_X(case):
    if case.get('Xlist') is not None:
        return torch.tensor(case['Xlist'], dtype=torch.float64)
    return random_one_hot((case['n'], case['A'], case['L']), random_state=case['xseed']).double()


def make_refs(case, X):
    """-> (references argument, kwargs)"""
    n, S, A, L = case['n'], case['S'], case['A'], case['L']
    g = torch.Generator().manual_seed(case['xseed'] + 7919)
    r = case['refs']
    if r == 'onehot':
        return random_one_hot((n * S, A, L), random_state=case['xseed'] + 1).double().reshape(n, S, A, L), {}
    if r == 'zeros':
        return torch.zeros(n, S, A, L, dtype=torch.float64), {}
    if r == 'uniform':
        return torch.full((n, S, A, L), 1.0 / A, dtype=torch.float64), {}
    if r == 'real':
        return torch.rand(n, S, A, L, generator=g, dtype=torch.float64), {}
    if r == 'near':          # x + eps * noise: small activation differences outside the gradient-fallback band
        return X[:, None] + case.get('eps', 1e-3) * torch.randn(n, S, A, L, generator=g, dtype=torch.float64), {}
    if r == 'self':          # reference 0 of every example is the example itself, the others are one-hot
        R = random_one_hot((n * S, A, L), random_state=case['xseed'] + 1).double().reshape(n, S, A, L)
        R[:, 0] = X
        return R, {}
    if r == 'dup':           # the S references of an example are identical
        R = random_one_hot((n, A, L), random_state=case['xseed'] + 1).double()
        return R[:, None].repeat(1, S, 1, 1), {}
    if r == 'dinuc':
        return dinucleotide_shuffle, {'n_shuffles': S, 'random_state': case['rs']}
    if r == 'shuffle':
        return shuffle, {'n_shuffles': S, 'random_state': case['rs']}
    if r == 'dinuc-noseed':
        return dinucleotide_shuffle, {'n_shuffles': S, 'random_state': None}
    raise ValueError(r)


REF_KINDS = ['onehot', 'onehot', 'zeros', 'uniform', 'real', 'dinuc', 'dinuc', 'shuffle', 'dinuc-noseed', 'self', 'dup', 'near']
NEAR_EPS = [3e-4, 1e-3, 1e-2]


def _act_inputs(model, Z, args=None):
    """inputs of every activation / max-pool module for the batch Z (forward hooks on a private copy)"""
    m = copy.deepcopy(model)
    got, hs = [], []
    for mod in m.modules():
        if isinstance(mod, ACT_CLASSES + (nn.MaxPool1d, nn.MaxPool2d)):
            hs.append(mod.register_forward_pre_hook(lambda mod, inp: got.append(inp[0].detach().clone())))
    with torch.no_grad():
        m(Z, *(args or ()))
    for h in hs:
        h.remove()
    return got


def _passthrough(module, grad_input, grad_output):
    """a (deliberately non-DeepLIFT) user rule: the plain gradient"""
    return (grad_input[0],)


def _own_rescale(module, grad_input, grad_output):
    """a USER-WRITTEN rescale rule (signature of _nonlinear), relying only on the anchored state: module.input /
    module.output hold the activations of the concatenated [examples; references] batch"""
    xi, ri = module.input.chunk(2)
    xo, ro = module.output.chunk(2)
    d_in = xi - ri
    tiny = d_in.abs() < 1e-6
    ratio = (xo - ro) / torch.where(tiny, torch.ones_like(d_in), d_in)
    return (torch.where(torch.cat([tiny, tiny]), grad_input[0], grad_output[0] * torch.cat([ratio, ratio])),)


def _history(case, model, X):
    """calls that precede the measured ones (call histories on shared state)"""
    pre = case.get('pre')
    if pre == 'poison':
        # ANOTHER model, with user rules that override built-in ones for that call only
        other = init_weights(nn.Sequential(nn.Conv1d(case['A'], 2, 3, padding=1), nn.ReLU(), nn.MaxPool1d(2), nn.Tanh(), nn.Flatten(),
                                           nn.Linear(2 * (case['L'] // 2), 1)), 1, 1.0)
        ops = {c: _passthrough for c in (nn.ReLU, nn.Tanh, nn.Sigmoid, nn.GELU, nn.ELU, nn.Softplus, nn.MaxPool1d)}
        with warnings.catch_warnings():
            warnings.simplefilter('ignore')
            deep_lift_shap(other, X[:1], references=torch.zeros(1, 1, case['A'], case['L'], dtype=torch.float64), device='cpu',
                           additional_nonlinear_ops=ops)
    elif pre == 'raise':
        # the SAME model, a call that fails after the hooks were registered
        try:
            deep_lift_shap(model, X[:1], target=10 ** 6, references=torch.zeros(1, 1, case['A'], case['L'], dtype=torch.float64), device='cpu')
        except Exception:
            pass


def _call(model, X, refs_arg, kw, case, raw, ret=True, hyp=False, args=None):
    """-> (attributions, references handed back or None, convergence / runtime warnings)"""
    numpy.random.seed(case['xseed'] % (2 ** 31))      # only matters for random_state=None
    kw = dict(kw)
    if isinstance(refs_arg, torch.Tensor) and case.get('nshuf_arg') is not None:
        kw['n_shuffles'] = case['nshuf_arg']          # documented: ignored when a tensor is given
    # classes outside the table: the library's own rule, or (user module Square, Softsign) a rule written here
    xops = {type(m): (_own_rescale if isinstance(m, (Square, nn.Softsign)) else _nonlinear) for m in model.modules() if isinstance(m, EXTRA_CLASSES)}
    if xops:
        kw['additional_nonlinear_ops'] = xops
    if hyp:
        kw['hypothetical'] = True
    if case.get('chatty'):
        kw.update(verbose=True, print_convergence_deltas=True)
    if args is not None:
        kw['args'] = args
    ctx = torch.no_grad() if case.get('nograd') else contextlib.nullcontext()   # POSSIBLE DEFECT / ENABLE_AMBIENT_NO_GRAD
    with warnings.catch_warnings(record=True) as w:
        warnings.simplefilter('always')
        with contextlib.redirect_stdout(io.StringIO()), contextlib.redirect_stderr(io.StringIO()), ctx:
            out = deep_lift_shap(model, X, target=case['target'], batch_size=case['batch_size'], references=refs_arg,
                                 return_references=ret, raw_outputs=raw, device='cpu', **kw)
    nw = [str(x.message)[:80] for x in w if issubclass(x.category, RuntimeWarning) or 'onvergence' in str(x.message)]
    if ret:
        return out[0], out[1].double(), nw
    if not isinstance(out, torch.Tensor):
        raise TypeError('return_references=False returned %s, not a tensor' % type(out).__name__)
    return out, None, nw


def finding_of(case, what):
    """stable key of the input class a violation belongs to"""
    kind = overlap_kind(case['spec']) if case.get('spec') else None
    if what.startswith('deep_lift_shap raised'):
        return 'maxpool-dilation-raises' if kind == 'dilated' else ('maxpool-overlap-raises' if kind else 'raises')
    return 'maxpool-overlapping-windows' if kind else 'generic'


def check_net(case, info=None):
    """-> list of violation strings"""
    out = []
    kind = overlap_kind(case['spec']) if case.get('spec') else None
    model = model_of(case)           # handed to deep_lift_shap
    clean = _model_of(case)          # never hooked: forward passes of "the same model"
    X = make_X(case)
    X0 = X.clone()
    n, S, A, L, t = case['n'], case['S'], case['A'], case['L'], case['target']
    refs_arg, kw = make_refs(case, X)
    given = refs_arg.clone() if isinstance(refs_arg, torch.Tensor) else None
    args = make_args(case)
    ret = not (case.get('noret') and given is not None)      # return_references=False only with a reference tensor
    hyp = refs_h = None
    try:
        _history(case, model, X)
        attr, refs_p, w1 = _call(model, X, refs_arg, kw, case, False, ret=ret, args=args)
        mult, refs_r, w2 = _call(model, X, refs_arg, kw, case, True, ret=ret, args=args)
        if case.get('hyp'):
            hyp, refs_h, w3 = _call(model, X, refs_arg, kw, case, False, ret=ret, hyp=True, args=args)
            w2 = w2 + w3
    except Exception as e:
        return [('deep_lift_shap raised instead of returning attributions (%s model)%s: %s: %s'
                 % (kind or 'in-scope', ' ' * 24, type(e).__name__, str(e)[:100]))]
    X = X0
    if tuple(attr.shape) != (n, A, L) or (hyp is not None and tuple(hyp.shape) != (n, A, L)):
        return [('processed shape %s != X shape' % (tuple(attr.shape),))]
    if tuple(mult.shape) != (n, S, A, L):
        return [('raw shape %s != (n, n_shuffles, A, L)' % (tuple(mult.shape),))]
    for r in (refs_p, refs_r, refs_h):
        if r is not None and tuple(r.shape) != (n, S, A, L):
            return [('raw shape %s / references shape %s' % (tuple(mult.shape), tuple(r.shape)))]
    if given is not None:
        # "any reference set": pair j of example e is (x_e, references[e, j]) of the tensor that was passed in
        refs_p = refs_r = given
        refs_h = given if hyp is not None else None
    if not (torch.isfinite(attr).all() and torch.isfinite(mult).all() and (hyp is None or torch.isfinite(hyp).all())):
        out.append(('non-finite attribution / multiplier'))
        return out

    def xargs(rep):
        return () if args is None else tuple(a.repeat_interleave(rep, 0) for a in args)

    with torch.no_grad():
        fx = clean(X, *xargs(1))[:, t]
        fr_p = clean(refs_p.reshape(n * S, A, L), *xargs(S))[:, t].reshape(n, S)
        fr_r = clean(refs_r.reshape(n * S, A, L), *xargs(S))[:, t].reshape(n, S)
        fr_h = clean(refs_h.reshape(n * S, A, L), *xargs(S))[:, t].reshape(n, S) if hyp is not None else None
    # band detection (see module docstring)
    band = False
    others = [r.reshape(n * S, A, L) for r in (refs_r, refs_p, refs_h) if r is not None]
    Z = torch.cat([X.repeat_interleave(S, 0)] + others)
    zargs = None if args is None else tuple(a.repeat_interleave(S, 0).repeat(1 + len(others), 1) for a in args)
    for h in _act_inputs(clean, Z, zargs):
        parts = h.chunk(1 + len(others))
        for b in parts[1:]:
            d = (parts[0] - b).abs()
            if bool(((d > 0) & (d < 1e-5)).any()):
                band = True
    rel = 1e-4 if band else (1e-12 if case['refs'] == 'near' else 1e-9)
    terms = (X[:, None] - refs_r) * mult
    lhs_r = terms.sum(dim=(2, 3))
    rhs_r = fx[:, None] - fr_r
    scale_r = 1 + fx.abs()[:, None] + fr_r.abs() + terms.abs().sum(dim=(2, 3))
    err_r = (lhs_r - rhs_r).abs() / scale_r
    if bool((err_r > rel).any()):
        e, j = divmod(int(err_r.argmax()), S)
        out.append(('raw clause: sum((x-ref)*multipliers) != f(x)[t]-f(ref)[t] for an example-reference pair: %.12g vs %.12g (example %d, reference %d)' % (lhs_r[e, j], rhs_r[e, j], e, j)))
    lhs_p = attr.sum(dim=(1, 2))
    rhs_p = fx - fr_p.mean(dim=1)
    scale_p = 1 + fx.abs() + fr_p.abs().mean(dim=1) + attr.abs().sum(dim=(1, 2))
    err_p = (lhs_p - rhs_p).abs() / scale_p
    if bool((err_p > rel).any()):
        e = int(err_p.argmax())
        out.append(('processed clause: sum(attributions) != f(x)[t] - mean_j f(ref_j)[t] for an example: %.12g vs %.12g (example %d)' % (lhs_p[e], rhs_p[e], e)))
    err_h = torch.zeros(1, dtype=torch.float64)
    if hyp is not None:
        # hypothetical=True: the attribution of the characters actually present is hyp * x
        lhs_h = (hyp * X).sum(dim=(1, 2))
        rhs_h = fx - fr_h.mean(dim=1)
        err_h = (lhs_h - rhs_h).abs() / (1 + fx.abs() + fr_h.abs().mean(dim=1) + (hyp * X).abs().sum(dim=(1, 2)))
        if bool((err_h > rel).any()):
            e = int(err_h.argmax())
            out.append(('processed clause (hypothetical=True): sum(attributions * x) != f(x)[t] - mean_j f(ref_j)[t] for an example: %.12g vs %.12g (example %d)' % (lhs_h[e], rhs_h[e], e)))
    if (w1 or w2) and not band:
        out.append(('warning clause: a RuntimeWarning was emitted for a model inside the property scope: %s' % (w1 + w2)[0]))
    if info is not None:
        # non-trivial: the rescale rule made a difference w.r.t. the plain gradient
        Xg = X.repeat_interleave(S, 0).clone().requires_grad_()
        g = torch.autograd.grad(clean(Xg, *xargs(S))[:, t].sum(), Xg)[0].reshape(n, S, A, L)
        info['nontrivial'] = bool(((g - mult).abs() > 1e-6).any())
        info['max_rel_err'] = float(max(err_r.max(), err_p.max(), err_h.max()))
        info['band'] = band
    return out


# ---------------------------------------------------------------------------------------------

def _new_case(rng, section, spec_fn, refs=None, n_range=(1, 3), S_range=(1, 4), nest=0.12):
    A = rng.choice([4, 4, 4, 2, 3, 5])
    L = rng.randint(6, 14)
    n, S = rng.randint(*n_range), rng.randint(*S_range)
    nt = rng.randint(1, 3)
    case = {'kind': 'net', 'section': section, 'A': A, 'L': L, 'n': n, 'S': S, 'target': rng.randrange(nt),
            'wseed': rng.randrange(10 ** 6), 'gain': rng.choice([0.7, 1.5, 3.0]), 'xseed': rng.randrange(10 ** 6),
            'refs': refs or rng.choice(REF_KINDS), 'rs': rng.randrange(1000), 'batch_size': rng.randint(1, n * S + 2)}
    case['spec'] = spec_fn(rng, A, L, nt)
    # rarely used options / argument forms
    if case['refs'] == 'near':
        case['eps'] = rng.choice(NEAR_EPS)
    if rng.random() < 0.12:
        case['target'] -= nt                  # negative index into the last dimension
    if rng.random() < 0.15:
        case['hyp'] = 1                       # + a call with hypothetical=True
    if rng.random() < 0.3:
        case['noret'] = 1                     # return_references=False (takes effect with a reference tensor)
    if rng.random() < 0.3:
        case['nshuf_arg'] = rng.choice([1, 7, 20])     # contradicts the reference tensor: must be ignored
    if rng.random() < 0.03:
        case['chatty'] = 1                    # verbose=True, print_convergence_deltas=True
    if rng.random() < nest:
        case['spec'] = nestify(rng, case['spec'])
    return case


def _run_case(rep, case, key, sample=False):
    info = {}
    try:
        res = check_net(case, info)
    except Exception as e:      # harness error: visible, not a property violation
        rep.note('harness error on %s: %s %s' % (key, type(e).__name__, str(e)[:120]))
        return
    rep.case(key, nontrivial=info.get('nontrivial', True), section=case['section'],
             sample={k: case[k] for k in ('spec', 'A', 'L', 'n', 'S', 'refs', 'batch_size') if k in case} if sample else None)
    for what in res:
        rep.violation(what, case, finding=finding_of(case, what))
    return info


def run(rep):
    thorough = rep.tier == 'thorough'
    rng = rep.rng
    worst = 0.0
    # (1) every activation class in a fixed 3-weight-layer net
    for name in ACT_NAMES:
        for q in range(10 if thorough else 2):
            for gain in (1.5, 4.0):
                spec = [['conv', 4, 3, 3, 2, 2, 2, 1], ['act', name, q], ['avg', 2, 2, 0, 0, 1], ['flat'], ['lin', 9, 3, 1], ['act', name, q + 1], ['lin', 3, 2, 1]]
                case = {'kind': 'net', 'section': 'each-activation', 'A': 4, 'L': 12, 'n': 2, 'S': 3, 'target': q % 2, 'wseed': 100 + q, 'gain': gain,
                        'xseed': q, 'refs': 'onehot' if q % 2 == 0 else 'dinuc', 'rs': q, 'batch_size': 4, 'spec': spec}
                i = _run_case(rep, case, ('act', name, q, gain))
                if i:
                    worst = max(worst, i['max_rel_err'])
    # (2) non-sequential models
    for name in ('res', 'branch', 'inputact', 'pool2d'):
        for sd in range(20 if thorough else 3):
            case = {'kind': 'net', 'section': 'dag', 'dag': name, 'A': 4, 'L': 10, 'n': 2, 'S': 3, 'target': sd % 2, 'wseed': sd, 'gain': 2.0,
                    'xseed': sd, 'refs': REF_KINDS[sd % len(REF_KINDS)], 'rs': sd, 'batch_size': 1 + sd % 7}
            _run_case(rep, case, ('dag', name, sd))
    # (2b) additional forward arguments; batches that cut through the references of an example
    for name in ('args1', 'args2'):
        for sd in range(20 if thorough else 5):
            case = {'kind': 'net', 'section': 'args', 'dag': name, 'A': 4, 'L': 10, 'n': 3, 'S': 1 + (sd + 2) % 4, 'target': sd % 2, 'wseed': sd, 'gain': 2.0,
                    'xseed': 10 + sd, 'refs': REF_KINDS[(2 * sd + 1) % 9], 'rs': sd, 'batch_size': (2, 5, 1, 32, 4, 7, 3)[sd % 7], 'hyp': sd % 2, 'noret': sd % 3 == 0}
            _run_case(rep, case, ('args', name, sd))
    # (2c) element-wise activations outside the built-in table, registered through additional_nonlinear_ops
    for name in EXTRA_NAMES:
        for q in range(6 if thorough else 2):
            spec = [['conv', 4, 3, 3, 2, 2, 2, 1], ['act', name, q], ['avg', 2, 2, 0, 0, 1], ['flat'], ['lin', 9, 3, 1], ['act', name, q + 1], ['lin', 3, 2, 1]]
            case = {'kind': 'net', 'section': 'extra-act', 'A': 4, 'L': 12, 'n': 2, 'S': 3, 'target': q % 2, 'wseed': 200 + q, 'gain': (1.5, 4.0)[q % 2],
                    'xseed': q, 'refs': ('onehot', 'dinuc', 'real')[q % 3], 'rs': q, 'batch_size': 4, 'spec': spec}
            _run_case(rep, case, ('xact', name, q))
    for k in range(200 if thorough else 16):
        case = _new_case(rng, 'extra-act', lambda r, A, L, nt: gen_spec(r, A, L, r.randint(2, 4), nt, maxpool='disjoint', acts=EXTRA_NAMES + ['ReLU', 'Tanh']))
        _run_case(rep, case, ('xact-net', k), sample=k < 1)
    # (2d) references a small distance away from x: activation differences just outside the gradient-fallback band
    for name in ACT_NAMES:
        for qi, eps in enumerate(NEAR_EPS + ([1e-4, 3e-3] if thorough else [])):
            spec = [['conv', 4, 3, 3, 2, 2, 2, 1], ['act', name, qi], ['avg', 2, 2, 0, 0, 1], ['flat'], ['lin', 9, 3, 1], ['act', name, qi + 1], ['lin', 3, 2, 1]]
            case = {'kind': 'net', 'section': 'near', 'A': 4, 'L': 12, 'n': 2, 'S': 3, 'target': qi % 2, 'wseed': 300 + qi, 'gain': (1.5, 4.0)[qi % 2],
                    'xseed': qi, 'refs': 'near', 'eps': eps, 'rs': 0, 'batch_size': 4, 'spec': spec}
            i = _run_case(rep, case, ('near', name, eps))
            if i:
                worst = max(worst, i['max_rel_err'])
    for k in range(300 if thorough else 30):
        case = _new_case(rng, 'near', lambda r, A, L, nt: gen_spec(r, A, L, r.randint(2, 4), nt, maxpool='disjoint'), refs='near')
        _run_case(rep, case, ('near-net', k), sample=k < 1)
    # (2e) MaxPool2d with non-default parameters
    for k in range(800 if thorough else 60):
        case = _new_case(rng, 'pool2d', gen_spec2d, nest=0.0)
        _run_case(rep, case, ('pool2d', k), sample=k < 1)
    # (2f) nested containers
    for k in range(150 if thorough else 12):
        case = _new_case(rng, 'nested', lambda r, A, L, nt: gen_spec(r, A, L, r.randint(2, 4), nt, maxpool='disjoint'), nest=1.0)
        _run_case(rep, case, ('nested', k), sample=k < 1)
    # (2g) many examples, few references
    for k in range(100 if thorough else 10):
        case = _new_case(rng, 'many', lambda r, A, L, nt: gen_spec(r, A, L, r.randint(1, 3), nt, maxpool='disjoint'), n_range=(5, 9), S_range=(1, 3))
        _run_case(rep, case, ('many', k))
    # (2h) call histories
    for sd in range(12 if thorough else 4):
        spec = [['conv', 4, 3, 3, 1, 1, 1, 1], ['act', 'ReLU', 0], ['max', 2, 2, 0, 1, 0], ['act', ('Tanh', 'Sigmoid', 'GELU', 'ELU')[sd % 4], 0], ['flat'], ['lin', 15, 2, 1]]
        for pre in ('poison', 'raise'):
            case = {'kind': 'net', 'section': 'history', 'A': 4, 'L': 10, 'n': 2, 'S': 2, 'target': sd % 2, 'wseed': sd, 'gain': 2.0, 'xseed': 70 + sd,
                    'refs': ('onehot', 'dinuc')[sd % 2], 'rs': sd, 'batch_size': 3, 'spec': spec, 'pre': pre}
            _run_case(rep, case, ('history', pre, sd))
    # (2i) POSSIBLE DEFECT cases (see the module docstring), off by default
    for flag, key in ((ENABLE_AMBIENT_NO_GRAD, 'nograd'), (ENABLE_INPLACE_ACT, 'inplace')):
        if flag:
            spec = [['conv', 4, 3, 3, 1, 1, 1, 1], ['act', 'ReLU', 0], ['flat'], ['lin', 30, 2, 1]]
            case = {'kind': 'net', 'section': key, 'A': 4, 'L': 10, 'n': 2, 'S': 3, 'target': 0, 'wseed': 0, 'gain': 2.0, 'xseed': 0,
                    'refs': 'onehot', 'rs': 0, 'batch_size': 4, 'spec': spec, key: 1}
            _run_case(rep, case, (key, 0))
    # the documented defaults: 20 dinucleotide shuffles per example, batch_size 32 (the last batch is partial)
    for sd in range(10 if thorough else 2):
        spec = gen_spec(rng, 4, 16, 3, 2, maxpool='disjoint')
        case = {'kind': 'net', 'section': 'defaults', 'A': 4, 'L': 16, 'n': 3, 'S': 20, 'target': sd % 2, 'wseed': sd, 'gain': 1.5,
                'xseed': 50 + sd, 'refs': 'dinuc', 'rs': sd, 'batch_size': 32, 'spec': spec}
        _run_case(rep, case, ('defaults', sd))
    # observation only: one activation object applied twice
    bad = 0
    for sd in range(3):
        case = {'kind': 'net', 'section': 'shared', 'dag': 'shared', 'A': 4, 'L': 10, 'n': 2, 'S': 3, 'target': 0, 'wseed': sd, 'gain': 2.0,
                'xseed': sd, 'refs': 'onehot', 'rs': sd, 'batch_size': 6}
        try:
            bad += bool(check_net(case))
        except Exception:
            bad += 1
    rep.note('observation, not asserted: a model applying ONE ReLU module object at two places breaks completeness in %d of 3 seeded cases (module.input/output are overwritten by the later use)' % bad)
    # (3) overlapping / dilated MaxPool1d
    _run_case(rep, MINIMAL_OVERLAP, ('ov', 'minimal'))
    _run_case(rep, MINIMAL_DILATED, ('ov', 'minimal-dilated'))
    n_ov = 1500 if thorough else 100
    for k in range(n_ov):
        if rep.left() < (200 if thorough else 25):
            rep.note('overlap section cut at %d' % k)
            break
        case = _new_case(rng, 'maxpool-overlap', lambda r, A, L, nt: gen_spec(r, A, L, r.randint(2, 3), nt, maxpool='overlap', p_max=0.7))
        _run_case(rep, case, ('ov', k), sample=k < 1)
    # (4) the main generator
    n_main = 15000 if thorough else 1200
    for k in range(n_main):
        if rep.out_of_time():
            rep.note('main generator cut at %d of %d (time budget)' % (k, n_main))
            break
        depth = 1 + k % 4
        case = _new_case(rng, 'net', lambda r, A, L, nt: gen_spec(r, A, L, depth, nt, maxpool='disjoint'))
        i = _run_case(rep, case, ('net', k), sample=k < 2)
        if i:
            worst = max(worst, i['max_rel_err'])
    rep.note('largest relative completeness residual over the sections expected to hold: %.3g' % worst)


def replay(case):
    if case.get('kind') == 'net':
        return check_net(case)
    return ['unknown replay kind']
