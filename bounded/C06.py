"""Bounded stand-in for C06 (attributions independent of batch size, co-batched examples and order)
-- never counted as proved.

For a configuration (model, n examples X, n_shuffles S, references, optional extra args, target) the
oracle value of example e is what the REAL deep_lift_shap returns when it is called on that example
ALONE with batch_size = S (one batch holding exactly its S pairs), together with the references it
reports.  Every other way of calling must reproduce it:

  (B) every batch_size in 1 .. n*S+1 (smaller than / equal to / not dividing / larger than S), all examples
  (C) every ordered subset (subset x permutation) of the examples, with a random batch size
  (M) calls in which an example appears more than once (multisets such as [0, 0], [1, 0, 1], longer than
      the example set): "whichever other examples are passed" includes copies of itself; in 'dup'
      configurations two DIFFERENT examples carry the same sequence but their own rows of the extra
      arguments / of the explicit reference tensor (a result cache keyed by the sequence would mix them up)
  (O) output kinds: processed, hypothetical=True, raw_outputs=True, raw_outputs=True together with
      hypothetical=True; return_references on and off
  (R) the returned references of example e are bit-identical in every call (integer random_state with
      dinucleotide_shuffle / shuffle / a user-written reference function, or an explicit tensor, which
      must come back unchanged - also when it is a stride-0 expanded view shared by all examples)
  (D) repeating the very same call returns bit-identical attributions and references
  (X) extra args (none, one or two; tuple or list): row e of every extra argument travels with example e
  (H) call order / call histories: the identical call is made three times; between the calls the process
      does something else that is legitimate - a call on ANOTHER model, or on the SAME model, that
      overrides the rules of the built-in activations / max-pooling through additional_nonlinear_ops
      (documented), then one that passes the library's own rules explicitly; a call that raises; a call
      with random_state=None; re-seeding of the global numpy / torch / python generators; a call on other
      examples with another batch size and output kind.  The three results must be bit-identical and
      equal to the examples run alone.

Input classes: the integer-valued "recording" model (float64 and float32), and the C04 generator:
sequential nets with disjoint max-pooling, with overlapping / dilated MaxPool1d, with MaxPool2d, grouped
into nested nn.Sequential containers, with activations outside the built-in table (registered through
additional_nonlinear_ops in every call, as in C04), the hand-written non-sequential models (residual
add, concatenated branches, activation on the input, MaxPool2d), float64 and float32; all in evaluation
mode (the quantifier has no train-mode BatchNorm / Dropout models, nothing is asserted about them).
n = 1..3 examples, n_shuffles 1..7, 1..3 model outputs, random_state = 0 (falsy) / python int / numpy
integer, examples that are homopolymers / two-letter sequences / copies of one another.

Comparison of attributions: bit-wise for the recording model (affine, integer weights and integer
extra args: every intermediate value is an exactly representable integer - in float32 too, all values
stay below 2^24 - so a mix-up of rows cannot hide behind rounding and no tolerance is needed); for the
float64 nets 1e-10 relative to 1 + max|value| (the statement says "the same"; BLAS kernels chosen per
batch shape may legitimately differ in the last bits, so bit-equality is not demanded there; observed
difference: 6e-14), for float32 nets 1e-3 relative (rounding of delta_out / delta_in is amplified when delta_in is small; observed up to 3e-5 over four seeds, see the note of the run; a mix-up of rows shows at 1e-2 .. 1, and bit-wise on the float32 recording model).  The
identical call repeated is compared bit-wise for every model.
With random_state=None nothing is claimed by the statement and nothing is checked.  That shuffle j is
seeded with random_state + j is the mechanism, not the statement: the oracle only demands that shuffle
j of an example is the same sequence in every batching.

POSSIBLE DEFECT (input class kept, assertion switched off by ASSERT_ROUNDING_SWITCHES = False)
  The DeepLIFT rules are discontinuous at two kinds of switches, and last-bit rounding noise that depends
  on the SHAPE of the batch can throw a switch: values that are equal in exact arithmetic (the same letter
  at two positions, or in the example and in its reference) are computed at different offsets of the
  batch tensor; the vectorised torch kernels round the last bit differently in their main loop and in
  their remainder loop, and which elements fall into which depends on the number of rows of the batch.
  (a) a tie inside a max-pool window is broken differently, _maxpool sends the whole contribution of the
      window to another position.  Concrete input (unchanged tree, float64, torch CPU, 1 thread):
      spec [conv(4->4, k=1, bias), Mish, MaxPool1d(3, stride=1), Flatten, Linear(36, 2)], wseed 745308,
      gain 0.7, A=4, L=11, n=3, xseed 626017, Xkind 'low', references 'onehot' (S=1), target 1, raw outputs:
      example 1 alone (2 rows in the batch) vs. in a call with examples 0 and 2 (batch_size 2 or more):
      the input of the max-pool layer for the REFERENCE row differs by 2.8e-17 (one ulp), its arg-max
      moves, the multipliers of example 1 differ by 0.023 (channel 0, positions 1 and 3: 0.0010 / 0.0170
      alone, 0.0013 / 0.0128 co-batched).  replay() of
        {"kind": "indep", "model": "net", "A": 4, "L": 11, "n": 3, "S": 1, "nt": 2, "wseed": 745308, "gain": 0.7,
         "xseed": 626017, "refs": "onehot", "rs": 0, "rs_np": false, "nargs": 0, "args_list": false, "dtype": "f64",
         "Xkind": "low", "variant": "overlap", "spec": [["conv", 4, 4, 1, 1, 1, 0, 1], ["act", "Mish", 3],
         ["max", 3, 1, 0, 1, 0], ["flat"], ["lin", 36, 2, 1]], "target": 1, "idx": [0, 1, 2], "batch_size": 2,
         "mode": "raw", "rr": true, "repeat": false}
  (b) the test |input(example) - input(reference)| < 1e-7 of _maxpool (1e-6 in _nonlinear), which chooses
      between the plain gradient and the quotient delta_out / delta_in: in float32 one ulp of a value in
      [1, 2) is 1.19e-7 > 1e-7, so an example value and a reference value that should be identical but
      differ in the last bit are divided by that noise.  Concrete input (unchanged tree, float32):
      the non-sequential model 'inputact' of C04 (Softplus on the input, MaxPool1d(2), GELU, Linear), wseed
      513452, gain 0.7, A=4, L=6, n=3, xseed 575271, user-written references 'custom' rs=279 (S=2), two
      extra args, target 1: example 1 with batch_size=1 (2 rows per batch) vs. alone with batch_size=2
      (4 rows): pair 1, channel 3, position 3: softplus gives 1.5730 for example and reference in one
      batch shape and values one ulp apart in the other; the rule returns 0 resp. -0.526; the
      hypothetical attributions differ by 0.28.  replay() of
        {"kind": "indep", "model": "net", "A": 4, "L": 6, "n": 3, "S": 2, "nt": 2, "wseed": 513452, "gain": 0.7,
         "xseed": 575271, "refs": "custom", "rs": 279, "rs_np": false, "nargs": 2, "args_list": false, "dtype": "f32",
         "Xkind": "random", "variant": "dag", "dag": "inputact", "target": 1, "idx": [0, 1, 2], "batch_size": 1,
         "mode": "hyp", "rr": false, "repeat": false}
  Both are reported by replay() when ASSERT_ROUNDING_SWITCHES = True (27 resp. 18 evaluations of ~27000 in
  thorough runs).  The statement says "the same" without an exception, so the assertion is kept; whether a
  discontinuity of the rules that is triggered by last-bit noise of torch kernels is a defect of the
  batching logic is a matter of reading (the anchored state Xi / rj / attr_ / z is not involved).
  With the flag off, a mismatch on a float net is excused ONLY if plain forward passes of the model (no
  DeepLIFT hooks) on the two batches concerned - the batch deep_lift_shap forms for the pair in this call,
  and the batch of the example run alone - put some switch of that pair into different positions: the
  arg-max of a max-pool window, or the outcome of the |delta_in| < 1e-7 / 1e-6 test at the input of a
  max-pool / activation module.  The number of excused output rows is reported as a note.  The integer
  recording model, the bit-wise repeat / call-history comparisons and the references are never excused.
"""
import itertools
import random as _pyrandom
import warnings

import numpy
import torch

from tangermeme.deep_lift_shap import deep_lift_shap, _nonlinear, _maxpool
from tangermeme.ersatz import dinucleotide_shuffle, shuffle
from tangermeme.utils import random_one_hot

from bounded.C04 import (gen_spec, gen_spec2d, nestify, build, init_weights, nn, DAGS, ACTS, EXTRA_NAMES,
                         EXTRA_CLASSES, Square)

torch.set_num_threads(1)

# see POSSIBLE DEFECT in the module docstring
ASSERT_ROUNDING_SWITCHES = False

SCOPE = {
    'quick': '36 call histories (H: identical call x3 with, in between, rule overrides through additional_nonlinear_ops on another / the same model, a raising call, an unseeded call, re-seeded global generators, another call on the same model) + 100 configurations: integer recording model (float64 / float32) or nets of the C04 generator (disjoint, overlapping / dilated MaxPool1d, MaxPool2d, nested containers, activations registered through additional_nonlinear_ops, 4 non-sequential models; float64 / float32; evaluation mode), n in 1..3 examples (incl. homopolymer / two-letter examples and two examples with the same sequence but different args / references), n_shuffles 1..7, 1..3 outputs, references tensor (one-hot / real / one expanded stride-0 tensor shared by all examples) or generated (dinucleotide_shuffle / shuffle / a user-written function, random_state 0 / int / numpy.int64), 0 / 1 / 2 extra args (tuple or list); per configuration: every batch_size 1..n*S+1 x {processed, hypothetical, raw} (+ raw with hypothetical=True for a third of the batch sizes), every ordered subset of the examples (15 for n=3) and 3 multisets with repeated examples, with random batch size / output kind / return_references, repeat-call determinism',
    'thorough': '200 call histories, 500 configurations, n in 1..4 (all 64 ordered subsets for n=4), 5 multisets, otherwise as quick',
}

MODES = {'processed': {}, 'hyp': {'hypothetical': True}, 'raw': {'raw_outputs': True},
         'rawhyp': {'raw_outputs': True, 'hypothetical': True}}
MODES3 = ('processed', 'hyp', 'raw')
REL = {'f64': 1e-10, 'f32': 1e-3}
DTYPES = {'f64': torch.float64, 'f32': torch.float32}
NET_VARIANTS = ['disjoint', 'disjoint', 'disjoint', 'disjoint', 'overlap', 'overlap', 'pool2d', 'nested', 'extra', 'dag']
DAG_NAMES = ['res', 'branch', 'inputact', 'pool2d']
PRE_KINDS = ['override-other', 'override-same', 'raise', 'noseed', 'reseed', 'other-call']
# every class of the built-in table that the C04 generator can produce
TABLE_CLASSES = tuple(sorted({type(f(0)) for f in ACTS.values()}, key=lambda c: c.__name__)) + (nn.MaxPool1d, nn.MaxPool2d)


class ArgNet(nn.Module):
    """core(X scaled per example and channel by a) scaled per example by b: extra arguments that
    change the attributions of their own example"""
    def __init__(self, core):
        super().__init__()
        self.core = core

    def forward(self, X, a=None, b=None):
        if a is None:
            return self.core(X)
        y = self.core(X * a[:, :, None])
        return y if b is None else y * b


def rolled(X, n=1, random_state=None, **kwargs):
    """a user-written reference function (signature of the ersatz ones): reference k of a sequence is
    the sequence rotated along the length and along the alphabet by amounts derived from random_state + k.
    Depends on nothing but the row and the seed."""
    rs = 0 if random_state is None else int(random_state)
    A, L = X.shape[1], X.shape[2]
    return torch.stack([torch.roll(torch.roll(X, (3 * (rs + k) + 1) % L, dims=2), (rs + k) % A, dims=1) for k in range(n)], dim=1)


def _passthrough(module, grad_input, grad_output):
    """a (deliberately non-DeepLIFT) user rule: the plain gradient"""
    return (grad_input[0],)


def _own_rescale(module, grad_input, grad_output):
    """a user-written rescale rule (signature of _nonlinear)"""
    xi, ri = module.input.chunk(2)
    xo, ro = module.output.chunk(2)
    d_in = xi - ri
    tiny = d_in.abs() < 1e-6
    ratio = (xo - ro) / torch.where(tiny, torch.ones_like(d_in), d_in)
    return (torch.where(torch.cat([tiny, tiny]), grad_input[0], grad_output[0] * torch.cat([ratio, ratio])),)


def make_model(case):
    dt = DTYPES[case.get('dtype', 'f64')]
    if case['model'] == 'record':
        A, L, nt = case['A'], case['L'], case.get('nt', 2)
        core = nn.Sequential(nn.Flatten(), nn.Linear(A * L, nt)).double().eval()
        g = torch.Generator().manual_seed(case['wseed'])
        core[1].weight.data = torch.randint(-9, 10, (nt, A * L), generator=g).double()
        core[1].bias.data = torch.randint(-9, 10, (nt,), generator=g).double()
    elif case.get('dag'):
        core = init_weights(DAGS[case['dag']](case['A'], case['L']), case['wseed'], case['gain'])
    else:
        core = build(case['spec'], case['wseed'], case['gain'])
    return ArgNet(core).to(dt).eval()


def extra_ops(model):
    """activations outside the built-in table are registered in every call, as in C04"""
    return {type(m): (_own_rescale if isinstance(m, (Square, nn.Softsign)) else _nonlinear) for m in model.modules() if isinstance(m, EXTRA_CLASSES)}


def make_inputs(case):
    n, S, A, L = case['n'], case['S'], case['A'], case['L']
    dt = DTYPES[case.get('dtype', 'f64')]
    X = random_one_hot((n, A, L), random_state=case['xseed']).double()
    g = torch.Generator().manual_seed(case['xseed'] + 1)
    xk = case.get('Xkind', 'random')
    if xk == 'dup' and n > 1:            # two different examples with the same sequence
        X[1] = X[0]
    elif xk == 'homo':                   # a homopolymer: every shuffle of it is the sequence itself
        X[0] = 0
        X[0, case['xseed'] % A] = 1
    elif xk == 'low':                    # a two-letter sequence
        ch = torch.randint(0, 2, (L,), generator=g)
        X[n - 1] = 0
        X[n - 1, ch, torch.arange(L)] = 1
    rs = case.get('rs', 0)
    if case.get('rs_np'):
        rs = numpy.int64(rs)
    if case['refs'] == 'onehot':
        refs, kw = random_one_hot((n * S, A, L), random_state=case['xseed'] + 1).double().reshape(n, S, A, L), {}
    elif case['refs'] == 'shared':       # the usual "one background set for everything": a stride-0 expanded view
        refs, kw = random_one_hot((S, A, L), random_state=case['xseed'] + 1).double()[None], {}
    elif case['refs'] == 'real':
        refs, kw = torch.rand(n, S, A, L, generator=g, dtype=torch.float64), {}
        if case['model'] == 'record':
            refs = torch.round(refs * 4)          # keep everything integer-valued
    elif case['refs'] == 'dinuc':
        refs, kw = dinucleotide_shuffle, {'n_shuffles': S, 'random_state': rs}
    elif case['refs'] == 'custom':
        refs, kw = rolled, {'n_shuffles': S, 'random_state': rs}
    else:
        refs, kw = shuffle, {'n_shuffles': S, 'random_state': rs}
    if isinstance(refs, torch.Tensor):
        refs = refs.to(dt)
        if case['refs'] == 'shared':
            refs = refs.expand(n, S, A, L)
    nargs = case.get('nargs', 2 if case.get('args') else 0)
    args = None
    if nargs:
        if case['model'] == 'record':
            args = (torch.randint(1, 6, (n, A), generator=g).double(), torch.randint(1, 4, (n, 1), generator=g).double())
        else:
            args = (torch.rand(n, A, generator=g, dtype=torch.float64) * 1.5 + 0.5, torch.rand(n, 1, generator=g, dtype=torch.float64) * 3 - 1.5)
        args = tuple(a.to(dt) for a in args[:nargs])
    return X.to(dt), refs, kw, args


def _call(model, X, refs, kw, args, idx, case, mode, batch_size, rr, **over):
    idx = list(idx)
    r = refs[idx] if isinstance(refs, torch.Tensor) else refs
    if case['refs'] == 'shared':         # keep it what the caller would pass: one (1, S, A, L) tensor expanded, not a copy
        r = refs[:1].expand(len(idx), *refs.shape[1:])
    a = None if args is None else tuple(x[idx] for x in args)
    if a is not None and case.get('args_list'):
        a = list(a)
    kw = dict(kw)
    xops = extra_ops(model)
    if xops:
        kw['additional_nonlinear_ops'] = xops
    kw.update(MODES[mode])
    kw.update(target=case['target'], batch_size=batch_size, return_references=rr)
    kw.update(over)
    with warnings.catch_warnings():
        warnings.simplefilter('ignore')
        out = deep_lift_shap(model, X[idx], args=a, references=r, device='cpu', **kw)
    return out if kw['return_references'] else (out, None)


def _switch_flip(case, model, X, args, idx, i, batch_size, refs_of):
    """does some switch of the rules (arg-max of a max-pool window; |delta_in| below the threshold at the
    input of a max-pool / activation module) of the pairs of output row i stand differently in the batch
    deep_lift_shap forms for them in this call and in the batch of the example run alone?  Plain forward
    passes of the model only (hook-free at this point); refs_of[e]: the (S, A, L) references of example e"""
    mods = tuple(m for m in model.modules() if isinstance(m, TABLE_CLASSES + EXTRA_CLASSES))
    if not mods:
        return False
    S = case['S']
    pairs = [(r, j) for r in range(len(idx)) for j in range(S)]
    Fn = torch.nn.functional

    def switches(batch):
        rows = [idx[r] for r, _ in batch]
        Z = torch.cat([X[rows], torch.stack([refs_of[idx[r]][j] for r, j in batch])]).clone().requires_grad_()
        a = () if args is None else tuple(torch.cat([x[rows], x[rows]]) for x in args)
        seen = []
        hs = [p.register_forward_pre_hook(lambda mod, inp: seen.append((mod, inp[0].detach().clone()))) for p in mods]
        try:
            with torch.enable_grad():
                model(Z, *a)
        finally:
            for h in hs:
                h.remove()
        out = {}
        for q, pr in enumerate(batch):
            sw = []
            for mod, t in seen:
                t2 = t[[q, len(batch) + q]]
                if isinstance(mod, (nn.MaxPool1d, nn.MaxPool2d)):
                    sw.append((Fn.max_pool1d if isinstance(mod, nn.MaxPool1d) else Fn.max_pool2d)(
                        t2, mod.kernel_size, mod.stride, mod.padding, mod.dilation, mod.ceil_mode, True)[1])
                    sw.append((t2[0] - t2[1]).abs() < 1e-7)
                else:
                    sw.append((t2[0] - t2[1]).abs() < 1e-6)
            out[pr] = sw
        return out

    alone = switches([(i, j) for j in range(S)])
    for j in range(S):
        b = (i * S + j) // batch_size
        here = switches(pairs[b * batch_size:(b + 1) * batch_size])
        if any(not torch.equal(u, v) for u, v in zip(here[(i, j)], alone[(i, j)])):
            return True
    return False


_BASE = {}
_NOT_CFG = ('idx', 'batch_size', 'rr', 'mode', 'repeat', 'kind', 'pre')


def baseline(case, model, X, refs, kw, args, e, mode):
    """example e alone, one batch of exactly its S pairs"""
    key = (repr(sorted((k, repr(v)) for k, v in case.items() if k not in _NOT_CFG)), e, mode)
    if key not in _BASE:
        if len(_BASE) > 4000:
            _BASE.clear()
        _BASE[key] = _call(model, X, refs, kw, args, [e], case, mode, case['S'], True)
    return _BASE[key]


def check_indep(case, info=None, _built=None):
    out = []
    model = make_model(case) if _built is None else _built[0]
    X, refs, kw, args = make_inputs(case) if _built is None else _built[1]
    idx, mode, S = case['idx'], case['mode'], case['S']
    exact = case['model'] == 'record'
    rel = REL[case.get('dtype', 'f64')]
    try:
        got, got_refs = _call(model, X, refs, kw, args, idx, case, mode, case['batch_size'], case['rr'])
    except Exception as e:
        return ['deep_lift_shap raised %s: %s' % (type(e).__name__, str(e)[:100])]
    if not isinstance(got, torch.Tensor):
        return ['return_references=%s returned %s where a tensor is expected' % (case['rr'], type(got).__name__)]
    shape = (len(idx), S) + tuple(X.shape[1:]) if MODES[mode].get('raw_outputs') else (len(idx),) + tuple(X.shape[1:])
    if tuple(got.shape) != shape:
        return ['output shape %s, expected %s' % (tuple(got.shape), shape)]
    if case['rr'] and tuple(got_refs.shape) != (len(idx), S) + tuple(X.shape[1:]):
        return ['references shape %s' % (tuple(got_refs.shape),)]
    worst = 0.0
    for i, e in enumerate(idx):
        try:
            b_attr, b_refs = baseline(case, model, X, refs, kw, args, e, mode)
        except Exception as ex:
            return ['deep_lift_shap raised %s on the single example %d: %s' % (type(ex).__name__, e, str(ex)[:80])]
        d = float((got[i] - b_attr[0]).abs().max())
        bad = (not torch.equal(got[i], b_attr[0])) if exact else not (d <= rel * (1 + float(b_attr[0].abs().max())))
        if bad and not exact:
            # POSSIBLE DEFECT (module docstring): a switch of the rules thrown by last-bit noise that depends on the batch shape
            try:
                refs_of = {x: baseline(case, model, X, refs, kw, args, x, mode)[1][0] for x in set(idx)}
                flip = _switch_flip(case, model, X, args, idx, i, case['batch_size'], refs_of)
            except Exception:
                flip = False
            if flip:
                if info is not None:
                    info['flips'] = info.get('flips', 0) + 1
                if ASSERT_ROUNDING_SWITCHES:
                    out.append('rounding switch: attribution of an example depends on the batch composition: output row %d (example %d) differs from the example run alone by %.3g; a max-pool arg-max / a |delta_in| threshold test comes out differently in differently shaped batches' % (i, e, d))
                continue
        if not bad:
            worst = max(worst, d / (1 + float(b_attr[0].abs().max())))
        if bad:
            out.append('attribution of an example depends on batch_size / co-batched examples / order: output row %d (example %d) differs from the example run alone by %.3g' % (i, e, d))
        if case['rr']:
            if not torch.equal(got_refs[i], b_refs[0]):
                out.append('references of an example depend on batch_size / co-batched examples / order: output row %d (example %d), %d of %d shuffles differ'
                           % (i, e, int((got_refs[i] != b_refs[0]).flatten(1).any(dim=1).sum()), S))
            if isinstance(refs, torch.Tensor) and not torch.equal(got_refs[i].double(), refs[e].double()):
                out.append('returned references are not the explicit reference tensor that was passed in (row %d, example %d)' % (i, e))
    if case.get('repeat'):
        again, again_refs = _call(model, X, refs, kw, args, idx, case, mode, case['batch_size'], case['rr'])
        if not torch.equal(again, got) or (case['rr'] and not torch.equal(again_refs, got_refs)):
            out.append('repeating the identical call (integer random_state / explicit references) gave a different result')
    if info is not None:
        info['worst'] = worst
    return out


# ---------------------------------------------------------------------------------------------
# (H) call histories

def _other_model(A, L):
    return init_weights(nn.Sequential(nn.Conv1d(A, 2, 3, padding=1), nn.ReLU(), nn.MaxPool1d(2), nn.Tanh(), nn.Flatten(),
                                      nn.Linear(2 * (L // 2), 1)), 1, 1.0)


def _between(case, model, X, refs, kw, args, step):
    """what the process does between two identical calls.  step 0: the disturbance; step 1: for the rule
    overrides, a second legitimate call that passes the library's own rules explicitly"""
    pre, A, L = case['pre'], case['A'], case['L']
    dt = X.dtype
    idx = case['idx']
    with warnings.catch_warnings():
        warnings.simplefilter('ignore')
        if pre in ('override-other', 'override-same'):
            rule = _passthrough if step == 0 else None
            ops = {c: (rule or (_maxpool if c in (nn.MaxPool1d, nn.MaxPool2d) else _nonlinear)) for c in TABLE_CLASSES}
            if pre == 'override-other':
                deep_lift_shap(_other_model(A, L), X[:1].double(), references=torch.zeros(1, 1, A, L, dtype=torch.float64), device='cpu',
                               additional_nonlinear_ops=ops)
            else:
                ops.update({c: r for c, r in extra_ops(model).items() if step == 1})
                _call(model, X, refs, kw, args, idx, case, 'processed', 2, False, additional_nonlinear_ops=ops)
        elif pre == 'raise':
            if step == 0:
                try:
                    _call(model, X, refs, kw, args, idx, case, 'processed', 2, False, target=10 ** 6)
                except Exception:
                    pass
        elif pre == 'noseed':
            if not isinstance(refs, torch.Tensor):
                _call(model, X, refs, kw, args, idx, case, case['mode'], case['batch_size'], True, random_state=None)
            numpy.random.rand(3 + step)
        elif pre == 'reseed':
            numpy.random.seed(1234 + step)
            torch.manual_seed(99 + step)
            _pyrandom.seed(7 + step)
        elif pre == 'other-call':
            sub = idx[::-1][:max(1, len(idx) - 1)]
            _call(model, X, refs, kw, args, sub, case, ('raw', 'hyp')[step], 1 + step, bool(step))
        else:
            raise ValueError(pre)


def check_history(case, info=None):
    model = make_model(case)
    built = (model, make_inputs(case))
    X, refs, kw, args = built[1]
    a = (case['idx'], case, case['mode'], case['batch_size'], True)
    out = []
    try:
        r = [_call(model, X, refs, kw, args, *a)]
        for step in (0, 1):
            _between(case, model, X, refs, kw, args, step)
            r.append(_call(model, X, refs, kw, args, *a))
    except Exception as e:
        return ['deep_lift_shap raised %s in a call history (%s): %s' % (type(e).__name__, case['pre'], str(e)[:100])]
    for j in (1, 2):
        if not torch.equal(r[j][0], r[0][0]):
            out.append('call history (%s): the identical call gave different attributions after %d intervening call(s), largest difference %.3g'
                       % (case['pre'], j, float((r[j][0] - r[0][0]).abs().max())))
        if not torch.equal(r[j][1], r[0][1]):
            out.append('call history (%s): the identical call used different references after %d intervening call(s)' % (case['pre'], j))
    return out + check_indep(case, info, _built=built)


# ---------------------------------------------------------------------------------------------

def _config(rng, k, nmax, net_only=False):
    A = rng.choice([4, 4, 3, 5])
    L = rng.randint(6, 12)
    n = 1 if rng.random() < 0.08 else rng.randint(2, nmax)
    S = rng.randint(1, 4)
    if rng.random() < 0.1:
        n, S = min(n, 2), rng.randint(5, 7)
    nt = rng.choice([1, 2, 2, 3])
    model = 'net' if net_only or k % 4 else 'record'
    cfg = {'kind': 'indep', 'model': model, 'A': A, 'L': L, 'n': n, 'S': S, 'nt': nt,
           'wseed': rng.randrange(10 ** 6), 'gain': rng.choice([0.7, 1.5, 3.0]), 'xseed': rng.randrange(10 ** 6),
           'refs': rng.choice(['onehot', 'real', 'shared', 'dinuc', 'dinuc', 'shuffle', 'custom']),
           'rs': 0 if rng.random() < 0.15 else rng.randrange(1000), 'rs_np': rng.random() < 0.15,
           'nargs': rng.choice([0, 0, 1, 2, 2]), 'args_list': rng.random() < 0.3,
           'dtype': 'f32' if rng.random() < (0.4 if model == 'record' else 0.2) else 'f64',
           'Xkind': rng.choice(['random'] * 6 + ['dup', 'dup', 'homo', 'low'])}
    if model == 'net':
        v = cfg['variant'] = rng.choice(NET_VARIANTS)
        if v == 'dag':
            cfg['dag'], cfg['nt'] = rng.choice(DAG_NAMES), 2
        elif v == 'pool2d':
            cfg['spec'] = gen_spec2d(rng, A, L, nt)
        elif v == 'overlap':
            cfg['spec'] = gen_spec(rng, A, L, rng.randint(2, 3), nt, maxpool='overlap', p_max=0.7)
        elif v == 'extra':
            cfg['spec'] = gen_spec(rng, A, L, rng.randint(2, 4), nt, maxpool='disjoint', acts=EXTRA_NAMES + ['ReLU', 'Tanh'])
        elif v == 'nested':
            cfg['spec'] = nestify(rng, gen_spec(rng, A, L, rng.randint(2, 4), nt, maxpool='disjoint'))
        else:
            cfg['spec'] = gen_spec(rng, A, L, rng.randint(1, 4), nt, maxpool='disjoint')
    cfg['target'] = rng.randrange(cfg['nt'])
    return cfg


SAMPLE_KEYS = ('model', 'variant', 'dtype', 'n', 'S', 'refs', 'nargs', 'Xkind', 'pre', 'mode', 'idx', 'batch_size', 'rr')


def _finding(what):
    if what.startswith('rounding switch'):
        return 'rounding-switch-flips-with-batch-shape'
    if what.startswith('call history'):
        return 'call-history-dependent'
    if what.startswith(('references', 'returned references')):
        return 'references-depend-on-batching'
    if what.startswith('repeating'):
        return 'nondeterministic-repeat'
    return 'attribution-depends-on-batching'


def _eval(rep, case, key, section, stats, sample=False):
    info = {}
    try:
        res = check_history(case, info) if case['kind'] == 'history' else check_indep(case, info)
    except Exception as e:
        rep.note('harness error on %s: %s %s' % (key, type(e).__name__, str(e)[:100]))
        return
    rep.case(key, section=section, sample={k: case[k] for k in SAMPLE_KEYS if k in case} if sample else None)
    if case['model'] == 'net':
        w = 'worst32' if case.get('dtype') == 'f32' else 'worst'
        stats[w] = max(stats[w], info.get('worst', 0.0))
    stats['flips'] += info.get('flips', 0)
    c = case.get('variant', case['model']) + '/' + case.get('dtype', 'f64')
    stats['classes'][c] = stats['classes'].get(c, 0) + 1
    for what in res:
        rep.violation(what, case, finding=_finding(what))


def run(rep):
    thorough = rep.tier == 'thorough'
    rng = rep.rng
    stats = {'worst': 0.0, 'worst32': 0.0, 'classes': {}, 'flips': 0}
    nmax = 4 if thorough else 3
    # (H) call histories first: cheap, and the only section about shared state between calls
    n_hist = 200 if thorough else 36
    for k in range(n_hist):
        if rep.left() < 0.5 * rep.budget_s:
            rep.note('history section cut at %d of %d' % (k, n_hist))
            break
        cfg = _config(rng, k, 3, net_only=True)
        n, S = cfg['n'], cfg['S']
        case = dict(cfg, kind='history', pre=PRE_KINDS[k % len(PRE_KINDS)], idx=list(range(n)), batch_size=rng.randint(1, n * S + 1),
                    mode=rng.choice(list(MODES)), rr=True, repeat=False)
        _eval(rep, case, ('H', k), 'call-history', stats, sample=k < 2)
    n_cfg = 500 if thorough else 100
    done = 0
    for k in range(n_cfg):
        if rep.out_of_time():
            rep.note('cut at configuration %d of %d (time budget)' % (k, n_cfg))
            break
        cfg = _config(rng, k, nmax)
        n, S = cfg['n'], cfg['S']
        # (M) repeated examples: cheap, first
        multis = [[rng.randrange(n)] * 2, [rng.randrange(n) for _ in range(n + rng.randint(1, 2))], list(range(n)) + [rng.randrange(n)]]
        if thorough:
            multis += [[rng.randrange(n) for _ in range(rng.randint(2, n + 3))] for _ in range(2)]
        for j, idx in enumerate(multis):
            case = dict(cfg, idx=idx, batch_size=rng.randint(1, len(idx) * S + 1), mode=rng.choice(list(MODES)), rr=rng.random() < 0.5, repeat=(j == 0))
            _eval(rep, case, ('M', k, j), 'repeated-examples', stats, sample=(k == 0 and j == 1))
        # (B) every batch size x every output kind, all examples in order
        for b in range(1, n * S + 2):
            for mode in MODES3 + (('rawhyp',) if b % 3 == k % 3 else ()):
                case = dict(cfg, idx=list(range(n)), batch_size=b, mode=mode, rr=bool((b + len(mode)) % 2), repeat=(b == 2))
                _eval(rep, case, ('B', k, b, mode), 'batch-size', stats, sample=(k == 0 and b == 1 and mode == 'processed'))
        # (C) every ordered subset
        for r in range(1, n + 1):
            for idx in itertools.permutations(range(n), r):
                case = dict(cfg, idx=list(idx), batch_size=rng.randint(1, r * S + 1), mode=rng.choice(list(MODES)), rr=rng.random() < 0.5, repeat=False)
                _eval(rep, case, ('C', k, idx), 'subset-permutation', stats, sample=(k == 0 and idx in ((0,), (1,))))
        done += 1
    rep.mark_exhaustive('per configuration: all batch sizes 1..n*S+1 x 3 output kinds; all ordered subsets of the examples (%d configurations)' % done)
    rep.note('largest difference between any batching and the example run alone, relative to 1 + max|value|: float64 nets %.3g, float32 nets %.3g' % (stats['worst'], stats['worst32']))
    rep.note('POSSIBLE DEFECT rounding switches (ASSERT_ROUNDING_SWITCHES=%s): %d output rows differed from the example run alone while a max-pool arg-max / a |delta_in| threshold test came out differently in the two batch shapes (excused unless the flag is set)' % (ASSERT_ROUNDING_SWITCHES, stats['flips']))
    rep.note('evaluations per input class (model/dtype): ' + ' '.join('%s=%d' % kv for kv in sorted(stats['classes'].items())))


def replay(case):
    _BASE.clear()
    if case.get('kind') == 'indep':
        return check_indep(case)
    if case.get('kind') == 'history':
        return check_history(case)
    return ['unknown replay kind']
