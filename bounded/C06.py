"""Bounded stand-in for C06 (attributions independent of batch size, co-batched examples and order)
-- never counted as proved.

For a configuration (model, n examples X, n_shuffles S, references, optional extra args, target) the
oracle value of example e is what the REAL deep_lift_shap returns when it is called on that example
ALONE with batch_size = S (one batch holding exactly its S pairs), together with the references it
reports.  Every other way of calling must reproduce it:

  (B) every batch_size in 1 .. n*S+1 (smaller than / equal to / not dividing / larger than S), all examples
  (C) every ordered subset (subset x permutation) of the examples, with a random batch size
  (O) output kinds: processed, hypothetical=True, raw_outputs=True; return_references on and off
  (R) the returned references of example e are bit-identical in every call (integer random_state with
      dinucleotide_shuffle / shuffle, or an explicit tensor, which must come back unchanged)
  (D) repeating the very same call returns bit-identical attributions and references
  (X) extra args: row e of every extra argument travels with example e

Comparison of attributions: bit-wise for the integer-valued "recording" model (affine, integer weights
and integer extra args: every intermediate value is an exactly representable integer, so a mix-up of
rows cannot hide behind rounding and no tolerance is needed); for the float64 nets of the C04 generator
1e-10 relative to 1 + max|value| (the statement says "the same"; BLAS kernels chosen per batch shape may
legitimately differ in the last bits, so bit-equality is not demanded there; observed difference: 0).
With random_state=None nothing is claimed by the statement and nothing is checked.
"""
import itertools
import warnings

import torch

from tangermeme.deep_lift_shap import deep_lift_shap
from tangermeme.ersatz import dinucleotide_shuffle, shuffle
from tangermeme.utils import random_one_hot

from bounded.C04 import gen_spec, build, nn

SCOPE = {
    'quick': '100 configurations: float64 nets of the C04 generator (depth 1-4, disjoint max-pooling) or the integer recording model, n in 2..3 examples, n_shuffles 1..4, references tensor (one-hot / real) or generated (dinucleotide_shuffle / shuffle with integer random_state), with and without two extra args, random target; per configuration: every batch_size 1..n*S+1 x {processed, hypothetical, raw}, every ordered subset of the examples (15 for n=3) with random batch size / output kind / return_references, repeat-call determinism',
    'thorough': '500 configurations, n in 2..4 (all 64 ordered subsets for n=4), otherwise as quick',
}

MODES = {'processed': {}, 'hyp': {'hypothetical': True}, 'raw': {'raw_outputs': True}}
REL = 1e-10


class ArgNet(nn.Module):
    """core(X scaled per example and channel by a) scaled per example by b: two extra arguments that
    both change the attributions of their own example"""
    def __init__(self, core):
        super().__init__()
        self.core = core

    def forward(self, X, a=None, b=None):
        if a is None:
            return self.core(X)
        return self.core(X * a[:, :, None]) * b


def make_model(case):
    if case['model'] == 'record':
        A, L = case['A'], case['L']
        core = nn.Sequential(nn.Flatten(), nn.Linear(A * L, 2)).double().eval()
        g = torch.Generator().manual_seed(case['wseed'])
        core[1].weight.data = torch.randint(-9, 10, (2, A * L), generator=g).double()
        core[1].bias.data = torch.randint(-9, 10, (2,), generator=g).double()
    else:
        core = build(case['spec'], case['wseed'], case['gain'])
    return ArgNet(core).eval()


def make_inputs(case):
    n, S, A, L = case['n'], case['S'], case['A'], case['L']
    X = random_one_hot((n, A, L), random_state=case['xseed']).double()
    g = torch.Generator().manual_seed(case['xseed'] + 1)
    if case['refs'] == 'onehot':
        refs, kw = random_one_hot((n * S, A, L), random_state=case['xseed'] + 1).double().reshape(n, S, A, L), {}
    elif case['refs'] == 'real':
        refs, kw = torch.rand(n, S, A, L, generator=g, dtype=torch.float64), {}
        if case['model'] == 'record':
            refs = torch.round(refs * 4)          # keep everything integer-valued
    elif case['refs'] == 'dinuc':
        refs, kw = dinucleotide_shuffle, {'n_shuffles': S, 'random_state': case['rs']}
    else:
        refs, kw = shuffle, {'n_shuffles': S, 'random_state': case['rs']}
    args = None
    if case['args']:
        if case['model'] == 'record':
            args = (torch.randint(1, 6, (n, A), generator=g).double(), torch.randint(1, 4, (n, 1), generator=g).double())
        else:
            args = (torch.rand(n, A, generator=g, dtype=torch.float64) * 1.5 + 0.5, torch.rand(n, 1, generator=g, dtype=torch.float64) * 3 - 1.5)
    return X, refs, kw, args


def _call(model, X, refs, kw, args, idx, case, mode, batch_size, rr):
    idx = list(idx)
    r = refs[idx] if isinstance(refs, torch.Tensor) else refs
    a = None if args is None else tuple(x[idx] for x in args)
    with warnings.catch_warnings():
        warnings.simplefilter('ignore')
        out = deep_lift_shap(model, X[idx], args=a, target=case['target'], batch_size=batch_size, references=r,
                             return_references=rr, device='cpu', **kw, **MODES[mode])
    return out if rr else (out, None)


_BASE = {}


def baseline(case, model, X, refs, kw, args, e, mode):
    """example e alone, one batch of exactly its S pairs"""
    key = (repr(sorted((k, repr(v)) for k, v in case.items() if k not in ('idx', 'batch_size', 'rr', 'mode', 'repeat'))), e, mode)
    if key not in _BASE:
        if len(_BASE) > 4000:
            _BASE.clear()
        _BASE[key] = _call(model, X, refs, kw, args, [e], case, mode, case['S'], True)
    return _BASE[key]


def check_indep(case, info=None):
    out = []
    model = make_model(case)
    X, refs, kw, args = make_inputs(case)
    idx, mode, S = case['idx'], case['mode'], case['S']
    exact = case['model'] == 'record'
    try:
        got, got_refs = _call(model, X, refs, kw, args, idx, case, mode, case['batch_size'], case['rr'])
    except Exception as e:
        return ['deep_lift_shap raised %s: %s' % (type(e).__name__, str(e)[:100])]
    shape = (len(idx), S) + tuple(X.shape[1:]) if mode == 'raw' else (len(idx),) + tuple(X.shape[1:])
    if tuple(got.shape) != shape:
        return ['output shape %s, expected %s' % (tuple(got.shape), shape)]
    if case['rr'] and tuple(got_refs.shape) != (len(idx), S) + tuple(X.shape[1:]):
        return ['references shape %s' % (tuple(got_refs.shape),)]
    worst = 0.0
    for i, e in enumerate(idx):
        try:
            b_attr, b_refs = baseline(case, model, X, refs, kw, args, e, mode)
        except Exception as ex:
            return ['deep_lift_shap raised %s on the single example %d: %s' % (type(ex).__name__, e, str(ex)[:80])]
        d = float((got[i] - b_attr[0]).abs().max())
        worst = max(worst, d)
        bad = (not torch.equal(got[i], b_attr[0])) if exact else (d > REL * (1 + float(b_attr[0].abs().max())))
        if bad:
            out.append('attribution of an example depends on batch_size / co-batched examples / order: output row %d (example %d) differs from the example run alone by %.3g' % (i, e, d))
        if case['rr']:
            if not torch.equal(got_refs[i], b_refs[0]):
                out.append('references of an example depend on batch_size / co-batched examples / order: output row %d (example %d), %d of %d shuffles differ'
                           % (i, e, int((got_refs[i] != b_refs[0]).flatten(1).any(dim=1).sum()), S))
            if isinstance(refs, torch.Tensor) and not torch.equal(got_refs[i].double(), refs[e]):
                out.append('returned references are not the explicit reference tensor that was passed in (row %d, example %d)' % (i, e))
    if case.get('repeat'):
        again, again_refs = _call(model, X, refs, kw, args, idx, case, mode, case['batch_size'], case['rr'])
        if not torch.equal(again, got) or (case['rr'] and not torch.equal(again_refs, got_refs)):
            out.append('repeating the identical call (integer random_state / explicit references) gave a different result')
    if info is not None:
        info['worst'] = worst
    return out


# ---------------------------------------------------------------------------------------------

def _config(rng, k, nmax):
    A = rng.choice([4, 4, 3, 5])
    L = rng.randint(6, 12)
    n, S = rng.randint(2, nmax), rng.randint(1, 4)
    nt = 2
    cfg = {'kind': 'indep', 'model': 'record' if k % 4 == 0 else 'net', 'A': A, 'L': L, 'n': n, 'S': S, 'target': rng.randrange(nt),
           'wseed': rng.randrange(10 ** 6), 'gain': rng.choice([0.7, 1.5, 3.0]), 'xseed': rng.randrange(10 ** 6),
           'refs': rng.choice(['onehot', 'real', 'dinuc', 'dinuc', 'shuffle']), 'rs': rng.randrange(1000), 'args': rng.random() < 0.5}
    if cfg['model'] == 'net':
        cfg['spec'] = gen_spec(rng, A, L, rng.randint(1, 4), nt, maxpool='disjoint')
    return cfg


def _eval(rep, case, key, section, stats, sample=False):
    info = {}
    try:
        res = check_indep(case, info)
    except Exception as e:
        rep.note('harness error on %s: %s %s' % (key, type(e).__name__, str(e)[:100]))
        return
    rep.case(key, section=section, sample={k: case[k] for k in ('model', 'n', 'S', 'refs', 'args', 'mode', 'idx', 'batch_size', 'rr')} if sample else None)
    if case['model'] == 'net':
        stats['worst'] = max(stats['worst'], info.get('worst', 0.0))
    for what in res:
        finding = 'references-depend-on-batching' if what.startswith(('references', 'returned references')) else \
                  ('nondeterministic-repeat' if what.startswith('repeating') else 'attribution-depends-on-batching')
        rep.violation(what, case, finding=finding)


def run(rep):
    thorough = rep.tier == 'thorough'
    rng = rep.rng
    stats = {'worst': 0.0}
    n_cfg = 500 if thorough else 100
    done = 0
    for k in range(n_cfg):
        if rep.out_of_time():
            rep.note('cut at configuration %d of %d (time budget)' % (k, n_cfg))
            break
        cfg = _config(rng, k, 4 if thorough else 3)
        n, S = cfg['n'], cfg['S']
        # (B) every batch size x every output kind, all examples in order
        for b in range(1, n * S + 2):
            for mode in MODES:
                case = dict(cfg, idx=list(range(n)), batch_size=b, mode=mode, rr=bool((b + len(mode)) % 2), repeat=(b == 2))
                _eval(rep, case, ('B', k, b, mode), 'batch-size', stats, sample=(k == 0 and b == 1 and mode == 'processed'))
        # (C) every ordered subset
        for r in range(1, n + 1):
            for idx in itertools.permutations(range(n), r):
                case = dict(cfg, idx=list(idx), batch_size=rng.randint(1, r * S + 1), mode=rng.choice(list(MODES)), rr=rng.random() < 0.5, repeat=False)
                _eval(rep, case, ('C', k, idx), 'subset-permutation', stats, sample=(k == 0 and idx in ((0,), (1,))))
        done += 1
    rep.mark_exhaustive('per configuration: all batch sizes 1..n*S+1 x 3 output kinds; all ordered subsets of the examples (%d configurations)' % done)
    rep.note('float64 nets: largest absolute difference between any batching and the example run alone: %.3g' % stats['worst'])


def replay(case):
    if case.get('kind') == 'indep':
        _BASE.clear()
        return check_indep(case)
    return ['unknown replay kind']
