"""Bounded stand-in for C08 (perturbation wrappers evaluate exactly the input that each output index
denotes) - never counted as proved.

Oracle (from the statement): explicit loops.  For every index tuple of a wrapper's output the
oracle builds the ONE input row that the index denotes (ersatz.substitute / shuffle /
multisubstitute applied to the single example, the extra-argument row(s) of that example or of
that product index) and calls `func(model, row[None], args=rows[None])` on it alone; the wrapper's
entry must equal that value (for every model output, for every func output).  The 'before' output
must equal func on the unmodified rows.

Models are exact-integer float64 "recording" models without parameters: output o of example i is
(code(sequence_i) * (o+1) + o, code(arg_0[i]) * (o+2), code(arg_1[i]) * (o+3), ..., padding) with an
injective base-5 code of the sequence, and a different width for every output - a mix-up of rows,
of argument rows or of outputs can neither cancel nor go unnoticed.  For func=deep_lift_shap a tiny
differentiable float64 model with integer weights is used (compared with tolerance 1e-9; every
mix-up changes an entry by >= 1e-3).

Not asserted: the shape of space()'s 'before' beyond "equals func(X[i]) for every (i[, s])" (both
(n, ...) and (n, S, ...) layouts are accepted); for ablate_annotations both (A, 1, n, ...) and
(A, n, ...) layouts are accepted.
"""
import torch
import numpy

from tangermeme import ersatz
from tangermeme.predict import predict
from tangermeme.deep_lift_shap import deep_lift_shap
from tangermeme.ism import saturation_mutagenesis
from tangermeme.marginalize import marginalize, marginalize_annotations
from tangermeme.ablate import ablate, ablate_annotations
from tangermeme.space import space
from tangermeme.product import apply_pairwise, apply_product

SCOPE = {
    'quick': 'marginalize, ablate, space, marginalize_annotations, ablate_annotations, apply_pairwise, apply_product: '
             'a fixed grid (1-3 model outputs x 0-2 extra args x 1-6 annotations / 1-5 shuffles / 1-4 spacing rows / '
             'argument sets of sizes 1-4) plus 200 seeded random cases per wrapper with 1-4 examples of length 6-12, '
             'batch sizes 1-7 and 32, shuffle_fn shuffle / dinucleotide_shuffle, motif as string / shared tensor / per-example tensor, start None or int, '
             'func in {predict, deep_lift_shap, saturation_mutagenesis, a two-output func, marginalize (products)}; '
             'every output entry compared with func on the single denoted input row',
    'thorough': 'as quick with the full grid outputs x args x annotations x func and 1200 seeded random cases per wrapper, '
                '1-5 examples, up to 3 argument sets in products',
}

ALPHA = ['A', 'C', 'G', 'T']

# ----------------------------------------------------------------------------------------------
# models


class Rec(torch.nn.Module):
    """parameter-free exact-integer recording model with n_out outputs and n_args extra arguments"""

    def __init__(self, n_out, n_args):
        super().__init__()
        self.n_out, self.n_args = n_out, n_args

    def forward(self, X, *args):
        if len(args) != self.n_args:
            raise TypeError('model expects %d extra arguments, got %d' % (self.n_args, len(args)))
        n, A, L = X.shape
        W = (torch.arange(1, A + 1, dtype=torch.float64)[:, None] * (5.0 ** torch.arange(L, dtype=torch.float64))[None, :])
        code = (X.type(torch.float64) * W).sum(dim=(1, 2))
        acodes = []
        for a in args:
            a = a.type(torch.float64).reshape(n, -1)
            acodes.append((a * (31.0 ** torch.arange(a.shape[1], dtype=torch.float64))[None, :]).sum(dim=1))
        outs = []
        for o in range(self.n_out):
            cols = [code * (o + 1) + o] + [ac * (o + 2 + t) for t, ac in enumerate(acodes)]
            cols += [torch.full((n,), 11.0 * (o + 1), dtype=torch.float64)] * o
            outs.append(torch.stack(cols, dim=1))
        return outs[0] if self.n_out == 1 else tuple(outs)


class Diff(torch.nn.Module):
    """tiny differentiable float64 model with integer weights (for func=deep_lift_shap)"""

    def __init__(self, n_args, seed):
        super().__init__()
        rs = numpy.random.RandomState(seed)
        self.n_args = n_args
        self.conv = torch.nn.Conv1d(4, 2, 3, padding=1).double()
        self.relu = torch.nn.ReLU()
        self.lin = torch.nn.Linear(2, 2).double()
        with torch.no_grad():
            self.conv.weight.copy_(torch.from_numpy(rs.randint(-2, 3, size=(2, 4, 3)).astype('float64')))
            self.conv.bias.copy_(torch.from_numpy(rs.randint(-1, 2, size=(2,)).astype('float64')))
            self.lin.weight.copy_(torch.tensor([[1.0, -2.0], [3.0, 1.0]], dtype=torch.float64))
            self.lin.bias.zero_()

    def forward(self, X, *args):
        if len(args) != self.n_args:
            raise TypeError('model expects %d extra arguments, got %d' % (self.n_args, len(args)))
        pos = torch.arange(1, X.shape[-1] + 1, dtype=torch.float64)
        h = self.relu(self.conv(X.type(torch.float64)))
        y = self.lin((h * pos).sum(dim=-1))
        for t, a in enumerate(args):
            y = y + a.type(torch.float64).reshape(X.shape[0], -1).sum(dim=1, keepdim=True) * (t + 1)
        return y


def two_output_func(model, X, args=None, batch_size=32, device='cpu', **kwargs):
    """a func with two outputs of its own (single-output models only)"""
    y = predict(model, X, args=args, batch_size=batch_size, device=device)
    return y, X.type(torch.float64).sum(dim=1) * 3.0


FUNCS = {'predict': predict, 'dls': deep_lift_shap, 'ism': saturation_mutagenesis, 'two': two_output_func,
         'marginalize': marginalize}


# ----------------------------------------------------------------------------------------------
# inputs

def _seqs(rs, n, L):
    idx = rs.randint(0, 4, size=(n, L))
    X = torch.zeros(n, 4, L, dtype=torch.float64)
    for i in range(n):
        X[i, idx[i], numpy.arange(L)] = 1
    return X


def _argset(rs, rows, t):
    """rows x d tensor of per-row-distinct small integers"""
    d = 1 + (t % 2)
    vals = rs.permutation(28)[:rows] + 1
    a = numpy.stack([vals] + [rs.randint(0, 30, size=rows) for _ in range(d - 1)], axis=1)
    return torch.from_numpy(a.astype('float64'))


def _build(case, arg_rows=None):
    rs = numpy.random.RandomState(case['seed'])
    X = _seqs(rs, case['n'], case['L'])
    rows = [case['n']] * case['n_args'] if arg_rows is None else arg_rows
    args = [_argset(rs, r, t) for t, r in enumerate(rows)]
    if case['func'] == 'dls':
        model = Diff(len(rows), case['seed'])
    else:
        model = Rec(case['n_out'], len(rows))
    return rs, X, args, model


def _fkw(case):
    kw = {'batch_size': case['bs'], 'device': 'cpu'}
    if case['func'] == 'dls':
        kw.update(n_shuffles=2, random_state=case.get('fseed', 3))
    return kw


def _motif(rs, w):
    return ''.join(ALPHA[c] for c in rs.randint(0, 4, size=w))


def _ohe(s):
    from tangermeme.utils import one_hot_encode
    return one_hot_encode(s, alphabet=ALPHA).unsqueeze(0).type(torch.float64)


# ----------------------------------------------------------------------------------------------
# structural comparison

def _strip(res):
    if isinstance(res, torch.Tensor):
        return res[0]
    return [_strip(r) for r in res]


def _index(res, idx):
    if isinstance(res, torch.Tensor):
        return res[idx]
    return [_index(r, idx) for r in res]


def _shape_of(res):
    if isinstance(res, torch.Tensor):
        return tuple(res.shape)
    if isinstance(res, (list, tuple)):
        return [_shape_of(r) for r in res]
    return type(res).__name__


def _eq(got, exp, tol):
    """'' if equal else a short reason"""
    if isinstance(exp, torch.Tensor):
        if not isinstance(got, torch.Tensor):
            return 'a %s where a tensor is expected' % type(got).__name__
        if tuple(got.shape) != tuple(exp.shape):
            if got.numel() == exp.numel() and [s for s in got.shape if s != 1] == [s for s in exp.shape if s != 1]:
                got = got.reshape(exp.shape)     # singleton axes only
            else:
                return 'shape %s, expected %s' % (tuple(got.shape), tuple(exp.shape))
        got, exp = got.type(torch.float64), exp.type(torch.float64)
        ok = torch.equal(got, exp) if tol == 0 else torch.allclose(got, exp, rtol=tol, atol=tol, equal_nan=True)
        return '' if ok else 'values differ (max abs diff %.4g)' % float((got - exp).abs().max())
    if not isinstance(got, (list, tuple)):
        return 'a %s where %d outputs are expected' % (type(got).__name__, len(exp))
    if len(got) != len(exp):
        return '%d outputs where %d are expected' % (len(got), len(exp))
    for o, (g, e) in enumerate(zip(got, exp)):
        r = _eq(g, e, tol)
        if r:
            return 'output %d: %s' % (o, r)
    return ''


def _tol(case):
    return 1e-9 if case['func'] in ('dls', 'ism') else 0


def _single(case, model, x, arg_rows, extra=None):
    """func on ONE input row (and its argument rows) -> result with the leading axis removed"""
    func = FUNCS[case['func']]
    kw = _fkw(case)
    kw.update(extra or {})
    a = tuple(r[None] for r in arg_rows) if arg_rows else None
    if case['func'] == 'marginalize':
        res = marginalize(model, x[None], case['pmotif'], args=a, **kw)
    else:
        res = func(model, x[None], args=a, **kw)
    return _strip(res)


def _check_entries(out, what, got_struct, entries, tol, limit=3):
    """entries: iterable of (index tuple, expected value)"""
    bad = 0
    for idx, exp in entries:
        try:
            got = _index(got_struct, idx)
        except (IndexError, TypeError) as e:
            out.append('%s: entry %s cannot be read from a result of shape %s (%s)' % (
                what, list(idx), _shape_of(got_struct), type(e).__name__))
            return
        r = _eq(got, exp, tol)
        if r:
            bad += 1
            if bad <= limit:
                out.append('%s[%s] is not func(the input that index denotes): %s' % (what, ','.join(map(str, idx)), r))
    if bad > limit:
        out.append('%s: %d entries differ in total' % (what, bad))


def _n_outputs_ok(out, what, res, case):
    """top-level structure: a tensor for a single output, else one element per output"""
    k = _n_func_outputs(case)
    if k == 1:
        if not isinstance(res, torch.Tensor):
            out.append('%s is a %s of length %s where a single tensor is expected' % (
                what, type(res).__name__, len(res) if hasattr(res, '__len__') else '?'))
            return False
    else:
        if isinstance(res, torch.Tensor) or len(res) != k:
            out.append('%s has %s top-level outputs where %d are expected (shapes %s)' % (
                what, 'a single tensor instead of' if isinstance(res, torch.Tensor) else len(res), k, _shape_of(res)))
            return False
    return True


def _n_func_outputs(case):
    if case['func'] in ('two', 'marginalize'):
        return 2
    return 1 if case['func'] in ('dls', 'ism') else case['n_out']


# ----------------------------------------------------------------------------------------------
# checks

def check_marginalize(case):
    out = []
    rs, X, args, model = _build(case)
    w = case['w']
    if case['motif'] == 'str':
        motif = _motif(rs, w)
        rows = [motif] * case['n']
    elif case['motif'] == 'tensor1':
        motif = _ohe(_motif(rs, w))
        rows = [motif] * case['n']
    else:
        motif = torch.cat([_ohe(_motif(rs, w)) for _ in range(case['n'])])
        rows = [motif[i:i + 1] for i in range(case['n'])]
    X0 = X.clone()
    kw = dict(_fkw(case))
    if args:
        kw['args'] = tuple(args)
    try:
        if case.get('via_afk'):
            yb, ya = marginalize(model, X, motif, start=case['start'], func=FUNCS[case['func']],
                                 additional_func_kwargs=kw)
        else:
            yb, ya = marginalize(model, X, motif, start=case['start'], func=FUNCS[case['func']], **kw)
    except Exception as e:
        return ['marginalize raised %s (%s) on a valid request' % (type(e).__name__, str(e)[:80])]
    if not torch.equal(X, X0):
        out.append('marginalize modified X')
    if not (_n_outputs_ok(out, 'before', yb, case) and _n_outputs_ok(out, 'after', ya, case)):
        return out
    tol = _tol(case)
    eb, ea = [], []
    for i in range(case['n']):
        ar = [a[i] for a in args]
        eb.append(((i,), _single(case, model, X[i], ar)))
        xp = ersatz.substitute(X[i:i + 1], rows[i], start=case['start'], alphabet=ALPHA)[0]
        ea.append(((i,), _single(case, model, xp, ar)))
    _check_entries(out, 'before', yb, eb, tol)
    _check_entries(out, 'after', ya, ea, tol)
    return out


def check_ablate(case):
    out = []
    rs, X, args, model = _build(case)
    ns, st, en, seed = case['n_shuf'], case['start'], case['end'], case['rseed']
    kw = {'batch_size': case['bs'], 'device': 'cpu'}
    afk = {'n_shuffles': 2} if case['func'] == 'dls' else None
    dinuc = case.get('shuffle_fn') == 'dinuc'
    if dinuc:
        # dinucleotide_shuffle seeds row i of a batch with random_state + i: the denoted input is row
        # (i, j) of the shuffle of the whole batch.  It refuses regions without diversity: not a case.
        try:
            Xd = ersatz.dinucleotide_shuffle(X, start=st, end=en, n=ns, random_state=seed).type(torch.float64)
        except ValueError:
            return []
        kw['shuffle_fn'] = ersatz.dinucleotide_shuffle
    try:
        yb, ya = ablate(model, X, st, en, n=ns, args=tuple(args) if args else None, random_state=seed,
                        func=FUNCS[case['func']], additional_func_kwargs=afk, **kw)
    except Exception as e:
        return ['ablate raised %s (%s) on a valid request' % (type(e).__name__, str(e)[:80])]
    if not (_n_outputs_ok(out, 'before', yb, case) and _n_outputs_ok(out, 'after', ya, case)):
        return out
    tol = _tol(case)
    extra = {'random_state': seed} if case['func'] == 'dls' else None
    eb, ea = [], []
    for i in range(case['n']):
        ar = [a[i] for a in args]
        eb.append(((i,), _single(case, model, X[i], ar, extra)))
        Xs = Xd[i] if dinuc else ersatz.shuffle(X[i:i + 1], start=st, end=en, n=ns, random_state=seed)[0]
        for j in range(ns):
            ea.append(((i, j), _single(case, model, Xs[j], ar, extra)))
    _check_entries(out, 'before', yb, eb, tol)
    _check_entries(out, 'after', ya, ea, tol)
    return out


def check_space(case):
    out = []
    rs, X, args, model = _build(case)
    motifs = [_motif(rs, w) for w in case['ws']]
    if case.get('motif_tensors'):
        motifs_in = [_ohe(m) for m in motifs]
    else:
        motifs_in = motifs
    spacing = case['spacing']
    kw = dict(_fkw(case))
    if args:
        kw['args'] = tuple(args)
    try:
        yb, ya = space(model, X, motifs_in, torch.tensor(spacing, dtype=torch.int64).reshape(len(spacing), len(motifs) - 1),
                       start=case['start'], func=FUNCS[case['func']], **kw)
    except Exception as e:
        return ['space raised %s (%s) on a valid request' % (type(e).__name__, str(e)[:80])]
    if not (_n_outputs_ok(out, 'before', yb, case) and _n_outputs_ok(out, 'after', ya, case)):
        return out
    tol = _tol(case)
    S = len(spacing)
    # 'before' may be laid out (n, S, ...) (one copy per spacing row) or (n, ...): both say the same thing
    per_spacing = _leaf(yb).dim() == _leaf(_single(case, model, X[0], [a[0] for a in args])).dim() + 2
    eb, ea = [], []
    for i in range(case['n']):
        ar = [a[i] for a in args]
        b = _single(case, model, X[i], ar)
        if per_spacing:
            eb += [((i, s), b) for s in range(S)]
        else:
            eb.append(((i,), b))
        for s in range(S):
            xp = ersatz.multisubstitute(X[i:i + 1], motifs, list(spacing[s]), start=case['start'], alphabet=ALPHA)[0]
            ea.append(((i, s), _single(case, model, xp, ar)))
    _check_entries(out, 'before', yb, eb, tol)
    _check_entries(out, 'after', ya, ea, tol)
    return out


def _leaf(res):
    while not isinstance(res, torch.Tensor):
        res = res[0]
    return res


def check_marginalize_annotations(case):
    out = []
    rs, X0, args, model = _build(case)        # X0: backgrounds (n rows), args belong to the rows of X0
    Xsrc = _seqs(rs, case['n_src'], case['L'])
    ann = case['annotations']
    kw = dict(_fkw(case))
    if args:
        kw['args'] = tuple(args)
    try:
        yb, ya = marginalize_annotations(model, Xsrc, X0, torch.tensor(ann, dtype=torch.int64), start=case['start'],
                                         func=FUNCS[case['func']], **kw)
    except Exception as e:
        return ['marginalize_annotations raised %s (%s) on a valid request' % (type(e).__name__, str(e)[:80])]
    if not (_n_outputs_ok(out, 'before', yb, case) and _n_outputs_ok(out, 'after', ya, case)):
        return out
    tol = _tol(case)
    eb, ea = [], []
    for a_i, (idx, s, e) in enumerate(ann):
        motif = Xsrc[idx:idx + 1, :, s:e]
        for i in range(case['n']):
            ar = [a[i] for a in args]
            eb.append(((a_i, i), _single(case, model, X0[i], ar)))
            xp = ersatz.substitute(X0[i:i + 1], motif, start=case['start'], alphabet=ALPHA)[0]
            ea.append(((a_i, i), _single(case, model, xp, ar)))
    _check_entries(out, 'before', yb, eb, tol)
    _check_entries(out, 'after', ya, ea, tol)
    return out


def _drop_example_axis(res, exp, lead):
    """ablate_annotations works on X[idx:idx+1]: accept (A, 1, ...) as well as (A, ...).  `exp` is the
    expected value of one entry, `lead` the number of index axes of an entry"""
    if isinstance(res, torch.Tensor):
        if isinstance(exp, torch.Tensor) and res.dim() == exp.dim() + lead + 1 and res.shape[1] == 1:
            return res[:, 0]
        return res
    if isinstance(exp, (list, tuple)) and len(exp) == len(res):
        return [_drop_example_axis(r, e, lead) for r, e in zip(res, exp)]
    return res


def check_ablate_annotations(case):
    out = []
    rs, X, args, model = _build(case)
    ann, ns, seed = case['annotations'], case['n_shuf'], case['rseed']
    kw = {'batch_size': case['bs'], 'device': 'cpu'}
    if args:
        kw['args'] = tuple(args)
    if case['func'] == 'dls':
        kw['additional_func_kwargs'] = {'n_shuffles': 2}
    try:
        yb, ya = ablate_annotations(model, X, torch.tensor(ann, dtype=torch.int64), n=ns, random_state=seed,
                                    func=FUNCS[case['func']], **kw)
    except Exception as e:
        return ['ablate_annotations raised %s (%s) on a valid request' % (type(e).__name__, str(e)[:80])]
    if not (_n_outputs_ok(out, 'before', yb, case) and _n_outputs_ok(out, 'after', ya, case)):
        return out
    tol = _tol(case)
    extra = {'random_state': seed} if case['func'] == 'dls' else None
    eb, ea = [], []
    for a_i, (idx, s, e) in enumerate(ann):
        ar = [a[idx] for a in args]
        eb.append(((a_i,), _single(case, model, X[idx], ar, extra)))
        Xs = ersatz.shuffle(X[idx:idx + 1], start=s, end=e, n=ns, random_state=seed)[0]
        for j in range(ns):
            ea.append(((a_i, j), _single(case, model, Xs[j], ar, extra)))
    # the example axis of length 1 is dropped only if it is there: (A, 1, n, ...) -> (A, n, ...)
    _check_entries(out, 'before', _drop_example_axis(yb, eb[0][1], 1), eb, tol)
    _check_entries(out, 'after', _drop_example_axis(ya, ea[0][1], 2), ea, tol)
    return out


def check_product(case):
    """apply_pairwise (paired argument rows) / apply_product (cartesian product of argument rows)"""
    out = []
    pairwise = case['kind'] == 'pairwise'
    sizes = case['sizes']
    rs, X, sets, model = _build(case, arg_rows=sizes)
    fn = apply_pairwise if pairwise else apply_product
    name = 'apply_pairwise' if pairwise else 'apply_product'
    kw = {}
    if case['func'] == 'dls':
        kw['additional_func_kwargs'] = {'n_shuffles': 2, 'random_state': case.get('fseed', 3)}
    if case['func'] == 'marginalize':
        case = dict(case, pmotif=_motif(rs, 2))
        kw['motif'] = case['pmotif']
    try:
        y = fn(FUNCS[case['func']], model, X, list(sets), batch_size=case['bs'], device='cpu', **kw)
    except Exception as e:
        return ['%s raised %s (%s) on a valid request' % (name, type(e).__name__, str(e)[:80])]
    tol = _tol(case)
    import itertools
    if pairwise:
        combos = [((j,), [j] * len(sets)) for j in range(sizes[0])]
    else:
        combos = [(js, list(js)) for js in itertools.product(*[range(s) for s in sizes])]
    entries = []
    for i in range(case['n']):
        for lead, js in combos:
            ar = [sets[t][j] for t, j in enumerate(js)]
            entries.append(((i,) + tuple(lead), _single(case, model, X[i], ar)))
    # top-level structure
    exp0 = entries[0][1]
    if isinstance(exp0, torch.Tensor) != isinstance(y, torch.Tensor) or \
            (not isinstance(exp0, torch.Tensor) and len(exp0) != len(y)):
        return ['%s result has structure %s where func yields %s per input row' % (name, _shape_of(y), _shape_of(exp0))]
    lead_shape = (case['n'], sizes[0]) if pairwise else (case['n'],) + tuple(sizes)

    def lead_ok(r):
        if isinstance(r, torch.Tensor):
            return tuple(r.shape[:len(lead_shape)]) == lead_shape
        return all(lead_ok(x) for x in r)
    if not lead_ok(y):
        out.append('%s result shape %s does not start with %s' % (name, _shape_of(y), lead_shape))
        return out
    _check_entries(out, name, y, entries, tol)
    return out


CHECKS = {'marginalize': check_marginalize, 'ablate': check_ablate, 'space': check_space,
          'marginalize_annotations': check_marginalize_annotations, 'ablate_annotations': check_ablate_annotations,
          'pairwise': check_product, 'product': check_product}


def _finding(case, viol):
    """stable key of the input class"""
    k = case['kind']
    multi = _n_func_outputs(case) >= 2
    if k == 'ablate_annotations' and case['n_args'] > 0 and case['n'] > 1:
        return 'ablate-annotations-args-not-matched-to-example'
    if k in ('marginalize_annotations', 'ablate_annotations') and multi and len(case['annotations']) != _n_func_outputs(case):
        return k.replace('_', '-') + '-multi-output-stacking'
    return k.replace('_', '-') + '-entry-mismatch'


# ----------------------------------------------------------------------------------------------
# enumeration

def _evaluate(rep, case, sample=False):
    viol = CHECKS[case['kind']](case)
    rep.case(tuple(sorted((k, repr(v)) for k, v in case.items())), nontrivial=True, section=case['kind'],
             sample=case if rep.sections.get(case['kind'], 0) == 0 else None)
    for w in viol:
        rep.violation(w, case, finding=_finding(case, viol))


def _pick_func(rng, kind, n_out):
    r = rng.random()
    if kind in ('pairwise', 'product'):
        if r < 0.12:
            return 'dls'
        if r < 0.27:
            return 'marginalize'
        if r < 0.35 and n_out == 1:
            return 'two'
        return 'predict'
    if r < 0.12:
        return 'dls'
    if n_out == 1 and r < 0.20:
        return 'ism'
    if n_out == 1 and r < 0.30:
        return 'two'
    return 'predict'


def _annotations(rng, n_src, L, A, same_len=None):
    ann = []
    for _ in range(A):
        w = same_len or rng.randint(1, 3)
        s = rng.randint(0, L - w)
        ann.append([rng.randrange(n_src), s, s + w])
    return ann


def _random_case(rng, kind, thorough, k):
    n = rng.randint(1, 5 if thorough else 4)
    L = rng.randint(6, 12)
    n_out = rng.choice([1, 1, 2, 3])
    n_args = rng.choice([0, 1, 2])
    func = _pick_func(rng, kind, n_out)
    if func in ('dls', 'ism', 'two'):
        n_out = 1
    if func == 'ism' and kind in ('pairwise', 'product'):
        func = 'predict'
    bs = rng.choice([1, 2, 3, 4, 5, 7, 32])
    case = {'kind': kind, 'seed': rng.randrange(10 ** 6), 'n': n, 'L': L, 'n_out': n_out, 'n_args': n_args,
            'func': func, 'bs': bs}
    if kind == 'marginalize':
        w = rng.randint(1, 3)
        case.update(w=w, motif=rng.choice(['str', 'tensor1', 'tensorN']), start=rng.choice([None, rng.randint(0, L - w)]),
                    via_afk=rng.random() < 0.3)
    elif kind == 'ablate':
        st = rng.randint(0, L - 2)
        case.update(n_shuf=rng.randint(1, 5), start=st, end=rng.randint(st + 2, L), rseed=rng.randrange(1000))
        if case['end'] - st >= 6 and rng.random() < 0.5:
            case['shuffle_fn'] = 'dinuc'
    elif kind == 'space':
        m = rng.choice([2, 2, 3])
        ws = [rng.randint(1, 2) for _ in range(m)]
        room = L - sum(ws)
        S = rng.randint(1, 4)
        spacing = []
        for _ in range(S):
            left, row = room, []
            for _ in range(m - 1):
                g = rng.randint(0, max(0, min(left, 3)))
                row.append(g)
                left -= g
            spacing.append(row)
        total = sum(ws) + max(sum(r) for r in spacing)
        case.update(ws=ws, spacing=spacing, start=rng.choice([None, rng.randint(0, L - total)]),
                    motif_tensors=rng.random() < 0.3)
    elif kind == 'marginalize_annotations':
        n_src = rng.randint(1, 3)
        A = rng.randint(1, 6)
        ann = _annotations(rng, n_src, L, A)
        wmax = max(e - s for _, s, e in ann)
        case.update(n_src=n_src, annotations=ann, start=rng.choice([None, rng.randint(0, L - wmax)]))
    elif kind == 'ablate_annotations':
        A = rng.randint(1, 6)
        ann = []
        for _ in range(A):
            s = rng.randint(0, L - 2)
            ann.append([rng.randrange(n), s, rng.randint(s + 2, L)])
        case.update(annotations=ann, n_shuf=rng.randint(1, 4), rseed=rng.randrange(1000))
    elif kind == 'pairwise':
        na = rng.randint(1, 2)
        J = rng.randint(1, 4)
        case.update(sizes=[J] * na, n_args=na)
    elif kind == 'product':
        na = rng.randint(1, 3 if thorough else 2)
        case.update(sizes=[rng.randint(1, 4) for _ in range(na)], n_args=na)
    return case


def _grid(thorough):
    """deterministic corner cases of the quantifier"""
    cases = []
    base = {'seed': 7, 'n': 3, 'L': 8, 'bs': 2}
    funcs1 = ['predict', 'dls', 'ism', 'two'] if thorough else ['predict']
    for n_out in (1, 2, 3):
        for n_args in (0, 1, 2):
            for func in (funcs1 if n_out == 1 else ['predict']):
                c = dict(base, n_out=n_out, n_args=n_args, func=func)
                cases.append(dict(c, kind='marginalize', w=2, motif='str', start=3, via_afk=False))
                cases.append(dict(c, kind='ablate', n_shuf=3, start=1, end=6, rseed=5))
                cases.append(dict(c, kind='space', ws=[2, 1], spacing=[[0], [2], [1]], start=1, motif_tensors=False))
                for A in ((1, 2, 3, 4, 5, 6) if thorough or n_args == 0 else (1, 3)):
                    ann = [[(a * 2) % 3, a % 5, a % 5 + 1 + a % 3] for a in range(A)]
                    cases.append(dict(c, kind='marginalize_annotations', n_src=3, annotations=ann, start=None))
                    ann2 = [[(a * 2) % 3, a % 4, a % 4 + 2 + a % 3] for a in range(A)]
                    cases.append(dict(c, kind='ablate_annotations', annotations=ann2, n_shuf=2, rseed=5))
                    if n_args > 0:   # one example: the args need no slicing
                        ann1 = [[0, a % 4, a % 4 + 2 + a % 3] for a in range(A)]
                        cases.append(dict(c, n=1, kind='ablate_annotations', annotations=ann1, n_shuf=2, rseed=5))
            for func in (['predict', 'marginalize', 'dls', 'two'] if n_out == 1 else ['predict', 'marginalize']):
                c = dict(base, n_out=n_out, func=func)
                for sizes in ([1], [4], [3, 2], [2, 3]):
                    for bs in (4, 5, 32):
                        cases.append(dict(c, kind='product', sizes=sizes, n_args=len(sizes), bs=bs))
                for na, J in ((1, 3), (2, 4), (2, 1)):
                    for bs in (4, 5):
                        cases.append(dict(c, kind='pairwise', sizes=[J] * na, n_args=na, bs=bs))
    seen, uniq = set(), []
    for c in cases:
        key = repr(sorted(c.items()))
        if key not in seen:
            seen.add(key)
            uniq.append(c)
    return uniq


def run(rep):
    thorough = rep.tier == 'thorough'
    torch.manual_seed(rep.seed)
    numpy.random.seed(rep.seed)
    grid = _grid(thorough)
    for c in grid:
        if rep.out_of_time():
            rep.note('time budget reached inside the grid')
            return
        _evaluate(rep, c)
    rep.mark_exhaustive('grid of %d corner cases: 1-3 outputs x 0-2 args x annotations %s x product sizes' % (
        len(grid), '1-6' if thorough else '1-6 (no args) / 1,3 (args)'))
    n_rand = 1200 if thorough else 200
    kinds = ['marginalize', 'ablate', 'space', 'marginalize_annotations', 'ablate_annotations', 'pairwise', 'product']
    for k in range(n_rand):
        for kind in kinds:
            if rep.out_of_time():
                rep.note('time budget reached after %d random rounds' % k)
                return
            _evaluate(rep, _random_case(rep.rng, kind, thorough, k), sample=k == 0)


def replay(case):
    fn = CHECKS.get(case.get('kind'))
    if fn is None:
        return ['unknown replay kind']
    return fn(case)
