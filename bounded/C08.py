"""Bounded stand-in for C08 (perturbation wrappers evaluate exactly the input that each output index
denotes) - never counted as proved.

Oracle (from the statement): explicit loops.  For every index tuple of a wrapper's output the
oracle builds the ONE input row that the index denotes (ersatz.substitute / shuffle /
multisubstitute applied to the single example, the extra-argument row(s) of that example or of
that product index) and calls `func(model, row[None], args=rows[None])` on it alone; the wrapper's
entry must equal that value (for every model output, for every func output).  The 'before' output
must equal func on the unmodified rows: the oracle works on CLONES of X / args taken before the
wrapper is called, so a wrapper that perturbs its input in place before evaluating 'before' is seen.

Models are exact-integer float64 "recording" models without parameters: output o of example i is
(code(sequence_i) * (o+1) + o, code(arg_0[i]) * (o+2), code(arg_1[i]) * (o+3), ..., padding) with an
injective base-5 code of the sequence, and a different width for every output - a mix-up of rows,
of argument rows or of outputs can neither cancel nor go unnoticed.  The models REFUSE (TypeError)
an extra argument whose shape is not (rows of X,) + the trailing shape of the argument that was
handed to the wrapper (a flattened / mis-tiled argument is not silently re-read).  For
func=deep_lift_shap a tiny differentiable float64 model with integer weights is used (compared with
tolerance 1e-9; every mix-up changes an entry by >= 1e-3).

Shapes: every output tensor must have exactly the shape (index axes) + (shape of func's value for
one row) - no extra rows, no squeezed / added singleton axes.  Two layouts are tolerated because
the statement does not choose: space()'s 'before' may be (n, ...) or (n, S, ...); for
ablate_annotations (A, 1, n, ...) and (A, n, ...) are both accepted.

Input classes beyond the plain grid (all replayable through the case dict): non-default `alphabet`
(a permutation of ACGT) for string motifs in marginalize / space; X of dtype int8 / float32, motif
tensors of dtype int8; arguments with trailing shape () / (1,) / (2,) / (2, 2) and dtype int64, args
given as list or tuple; kwargs split between **kwargs and additional_func_kwargs; a user-defined
shuffle_fn ('rot') and dinucleotide_shuffle in ablate AND ablate_annotations; an explicit
random_state for func inside additional_func_kwargs that differs from ablate's; annotation lists
with duplicates, with the same span repeated on different examples in interleaved order (A,B,B,A),
whole-sequence spans, source sequences longer than the backgrounds; spacing given as int64 / int32
tensor, list or numpy array, spacing rows of different total width with start=None, duplicate rows,
motifs as strings / tensors / mixed / per-example tensors; start = 0 and start = last fitting
position; random_state = 0; a func that returns a LIST of a 1-d (scalar per row) and a 3-d output;
three argument sets in products.

POSSIBLE DEFECT (case kept, disabled by CHECK_AFK_REUSE = False)
    ablate() writes `random_state` into the caller's `additional_func_kwargs` dict when func has a
    `random_state` parameter.  A caller that re-uses one dict for two calls with different
    random_state gets, in the second call, the shuffles of the second seed evaluated by func with the
    FIRST seed (stale entry wins: "if 'random_state' not in additional_func_kwargs").
    Input: X = 2 sequences of length 10, afk = {'n_shuffles': 2};
           ablate(Diff, X, 1, 7, n=2, random_state=5, func=deep_lift_shap, additional_func_kwargs=afk)
           ablate(Diff, X, 1, 7, n=2, random_state=9, func=deep_lift_shap, additional_func_kwargs=afk)
    -> the second 'after' differs (max abs diff 18) from the same call with a fresh dict.  Whether the
    statement covers the keyword arguments func is called with is debatable (it speaks of the INPUT an
    index denotes), hence the flag; replay({'kind': 'ablate_reuse', ...}) reproduces it.
"""
import itertools

import torch
import numpy

from tangermeme import ersatz
from tangermeme.predict import predict
from tangermeme.deep_lift_shap import deep_lift_shap
from tangermeme.ism import saturation_mutagenesis
from tangermeme.marginalize import marginalize, marginalize_annotations
from tangermeme.ablate import ablate, ablate_annotations
from tangermeme.space import space
from tangermeme.product import apply_pairwise, apply_product

torch.set_num_threads(1)

CHECK_AFK_REUSE = False      # see POSSIBLE DEFECT above

SCOPE = {
    'quick': 'marginalize, ablate, space, marginalize_annotations, ablate_annotations, apply_pairwise, apply_product: '
             'a fixed grid (1-3 model outputs x 0-2 extra args x 1-6 annotations / 1-5 shuffles / 1-4 spacing rows / '
             'argument sets of sizes 1-4), a list of 162 targeted corner cases (start 0 / last / None with rows of different '
             'width, random_state 0, permuted alphabet, X int8/float32, int8 motifs, args of trailing shape ()/(1,)/(2,)/(2,2) '
             'and int64, list/tuple args, kwargs split over additional_func_kwargs, custom and dinucleotide shuffle_fn also '
             'in ablate_annotations, func-level random_state, duplicate / interleaved-span / whole-sequence annotations, '
             'longer source sequences, spacing as int32/list/numpy, mixed and per-example motif tensors, list-valued func '
             'with scalar and 3-d outputs, 3 argument sets) plus 200 seeded random cases per wrapper over the same '
             'dimensions with 1-4 examples of length 6-12, batch sizes 1-7 and 32, '
             'func in {predict, deep_lift_shap, saturation_mutagenesis, a two-output func, a list-output func, marginalize (products)}; '
             'every output entry compared with func on the single denoted input row (clones taken before the call), '
             'exact output shapes, models that refuse mis-shaped argument rows',
    'thorough': 'as quick (same targeted corner cases and input dimensions) with the full grid outputs x args x annotations x func and 1200 seeded random cases per wrapper, '
                '1-5 examples, up to 3 argument sets in products',
}

ALPHA = ['A', 'C', 'G', 'T']
DTYPES = {'float64': torch.float64, 'float32': torch.float32, 'int8': torch.int8, 'int64': torch.int64}

# ----------------------------------------------------------------------------------------------
# models


def _check_args(X, args, arg_shapes):
    if len(args) != len(arg_shapes):
        raise TypeError('model expects %d extra arguments, got %d' % (len(arg_shapes), len(args)))
    for t, (a, shp) in enumerate(zip(args, arg_shapes)):
        if shp is not None and tuple(a.shape) != (X.shape[0],) + tuple(shp):
            raise TypeError('model got extra argument %d of shape %s for %d sequences, expected rows of shape %s' % (
                t, tuple(a.shape), X.shape[0], tuple(shp)))


class Rec(torch.nn.Module):
    """parameter-free exact-integer recording model with n_out outputs; arg_shapes: the trailing shape of
    every extra argument (an int n_args = that many arguments of unchecked shape)"""

    def __init__(self, n_out, arg_shapes):
        super().__init__()
        if isinstance(arg_shapes, int):
            arg_shapes = [None] * arg_shapes
        self.n_out, self.arg_shapes = n_out, list(arg_shapes)

    def forward(self, X, *args):
        _check_args(X, args, self.arg_shapes)
        n, A, L = X.shape
        W = (torch.arange(1, A + 1, dtype=torch.float64)[:, None] * (5.0 ** torch.arange(L, dtype=torch.float64))[None, :])
        code = (X.type(torch.float64) * W).sum(dim=(1, 2))
        acodes = []
        for a in args:
            a = a.type(torch.float64).reshape(n, -1)
            acodes.append((a * (31.0 ** torch.arange(a.shape[1], dtype=torch.float64))[None, :]).sum(dim=1))
        outs = []
        for o in range(self.n_out):
            cols = [code * (o + 1) + o] + [ac * (o + 2 + t) for t, ac in enumerate(acodes)]
            cols += [torch.full((n,), 11.0 * (o + 1), dtype=torch.float64)] * o
            outs.append(torch.stack(cols, dim=1))
        return outs[0] if self.n_out == 1 else tuple(outs)


class Diff(torch.nn.Module):
    """tiny differentiable float64 model with integer weights (for func=deep_lift_shap)"""

    def __init__(self, arg_shapes, seed):
        super().__init__()
        rs = numpy.random.RandomState(seed)
        if isinstance(arg_shapes, int):
            arg_shapes = [None] * arg_shapes
        self.arg_shapes = list(arg_shapes)
        self.conv = torch.nn.Conv1d(4, 2, 3, padding=1).double()
        self.relu = torch.nn.ReLU()
        self.lin = torch.nn.Linear(2, 2).double()
        with torch.no_grad():
            self.conv.weight.copy_(torch.from_numpy(rs.randint(-2, 3, size=(2, 4, 3)).astype('float64')))
            self.conv.bias.copy_(torch.from_numpy(rs.randint(-1, 2, size=(2,)).astype('float64')))
            self.lin.weight.copy_(torch.tensor([[1.0, -2.0], [3.0, 1.0]], dtype=torch.float64))
            self.lin.bias.zero_()

    def forward(self, X, *args):
        _check_args(X, args, self.arg_shapes)
        pos = torch.arange(1, X.shape[-1] + 1, dtype=torch.float64)
        h = self.relu(self.conv(X.type(torch.float64)))
        y = self.lin((h * pos).sum(dim=-1))
        for t, a in enumerate(args):
            y = y + a.type(torch.float64).reshape(X.shape[0], -1).sum(dim=1, keepdim=True) * (t + 1)
        return y


def two_output_func(model, X, args=None, batch_size=32, device='cpu', **kwargs):
    """a func with two outputs of its own (single-output models only)"""
    y = predict(model, X, args=args, batch_size=batch_size, device=device)
    return y, X.type(torch.float64).sum(dim=1) * 3.0


def odd_func(model, X, args=None, batch_size=32, device='cpu', **kwargs):
    """a func that returns a LIST of a 1-d output (a scalar per row) and a 3-d output (single-output models
    only); both depend on the sequence and on the argument rows"""
    y = predict(model, X, args=args, batch_size=batch_size, device=device)
    s = y.sum(dim=1)
    return [s, X.type(torch.float64)[:, :2, :] * 2.0 + s[:, None, None]]


FUNCS = {'predict': predict, 'dls': deep_lift_shap, 'ism': saturation_mutagenesis, 'two': two_output_func,
         'odd': odd_func, 'marginalize': marginalize}


def rot_shuffle(X, start=0, end=-1, n=1, random_state=None):
    """a user-defined shuffle_fn: 'shuffle' j of every row rolls the region by j + 1 + random_state % 3"""
    start, end = int(start), int(end)
    out = []
    for j in range(n):
        Xj = torch.clone(X)
        Xj[:, :, start:end] = torch.roll(X[:, :, start:end], j + 1 + (random_state or 0) % 3, dims=-1)
        out.append(Xj)
    return torch.stack(out, dim=1)


SHUFFLE_FNS = {'dinuc': ersatz.dinucleotide_shuffle, 'rot': rot_shuffle}


# ----------------------------------------------------------------------------------------------
# inputs

def _seqs(rs, n, L):
    idx = rs.randint(0, 4, size=(n, L))
    X = torch.zeros(n, 4, L, dtype=torch.float64)
    for i in range(n):
        X[i, idx[i], numpy.arange(L)] = 1
    return X


def _argset(rs, rows, t, mode='std'):
    """rows x d tensor of per-row-distinct small integers; mode 'flat': argument 0 has no trailing axis,
    '3d': argument 0 has trailing shape (2, 2), 'int': dtype int64"""
    d = 1 + (t % 2)
    if mode == '3d' and t == 0:
        d = 4
    vals = rs.permutation(28)[:rows] + 1
    a = numpy.stack([vals] + [rs.randint(0, 30, size=rows) for _ in range(d - 1)], axis=1)
    a = torch.from_numpy(a.astype('float64'))
    if mode == '3d' and t == 0:
        a = a.reshape(rows, 2, 2)
    if mode == 'flat' and t == 0:
        a = a[:, 0]
    if mode == 'int':
        a = a.type(torch.int64)
    return a


def _build(case, arg_rows=None):
    rs = numpy.random.RandomState(case['seed'])
    X = _seqs(rs, case['n'], case['L'])
    rows = [case['n']] * case['n_args'] if arg_rows is None else arg_rows
    args = [_argset(rs, r, t, case.get('argmode', 'std')) for t, r in enumerate(rows)]
    shapes = [tuple(a.shape[1:]) for a in args]
    if case['func'] == 'dls':
        model = Diff(shapes, case['seed'])
    else:
        model = Rec(case['n_out'], shapes)
    X = X.type(DTYPES[case.get('xdtype', 'float64')])
    return rs, X, args, model


def _clones(X, args):
    return X.clone(), [a.clone() for a in args]


def _pack(case, args):
    """the args as handed to the wrapper"""
    if not args:
        return None
    return list(args) if case.get('args_list') else tuple(args)


def _fkw(case):
    kw = {'batch_size': case['bs'], 'device': 'cpu'}
    if case['func'] == 'dls':
        kw.update(n_shuffles=2, random_state=case.get('fseed', 3))
    return kw


def _motif(rs, w):
    return ''.join(ALPHA[c] for c in rs.randint(0, 4, size=w))


def _ohe(s, alphabet=None, dtype=torch.float64):
    """own one-hot encoding of a string: channel = position of the character in the alphabet"""
    alphabet = list(alphabet or ALPHA)
    m = torch.zeros(1, len(alphabet), len(s), dtype=dtype)
    for p, ch in enumerate(s):
        m[0, alphabet.index(ch), p] = 1
    return m


# ----------------------------------------------------------------------------------------------
# structural comparison

def _strip(res):
    if isinstance(res, torch.Tensor):
        return res[0]
    return [_strip(r) for r in res]


def _index(res, idx):
    if isinstance(res, torch.Tensor):
        return res[idx]
    return [_index(r, idx) for r in res]


def _shape_of(res):
    if isinstance(res, torch.Tensor):
        return tuple(res.shape)
    if isinstance(res, (list, tuple)):
        return [_shape_of(r) for r in res]
    return type(res).__name__


def _eq(got, exp, tol):
    """'' if equal else a short reason"""
    if isinstance(exp, torch.Tensor):
        if not isinstance(got, torch.Tensor):
            return 'a %s where a tensor is expected' % type(got).__name__
        if tuple(got.shape) != tuple(exp.shape):
            return 'shape %s, expected %s' % (tuple(got.shape), tuple(exp.shape))
        got, exp = got.type(torch.float64), exp.type(torch.float64)
        ok = torch.equal(got, exp) if tol == 0 else torch.allclose(got, exp, rtol=tol, atol=tol, equal_nan=True)
        return '' if ok else 'values differ (max abs diff %.4g)' % float((got - exp).abs().max())
    if not isinstance(got, (list, tuple)):
        return 'a %s where %d outputs are expected' % (type(got).__name__, len(exp))
    if len(got) != len(exp):
        return '%d outputs where %d are expected' % (len(got), len(exp))
    for o, (g, e) in enumerate(zip(got, exp)):
        r = _eq(g, e, tol)
        if r:
            return 'output %d: %s' % (o, r)
    return ''


def _tol(case):
    return 1e-9 if case['func'] in ('dls', 'ism') else 0


def _single(case, model, x, arg_rows, extra=None):
    """func on ONE input row (and its argument rows) -> result with the leading axis removed"""
    func = FUNCS[case['func']]
    kw = _fkw(case)
    kw.update(extra or {})
    a = tuple(r[None] for r in arg_rows) if arg_rows else None
    if case['func'] == 'marginalize':
        res = marginalize(model, x[None], case['pmotif'], args=a, **kw)
    else:
        res = func(model, x[None], args=a, **kw)
    return _strip(res)


def _shapes_ok(out, what, got, lead, exp):
    """every tensor of the wrapper's output has exactly the shape lead + shape(func's value for one row)"""
    if isinstance(exp, torch.Tensor):
        if not isinstance(got, torch.Tensor):
            out.append('%s holds a %s where a tensor is expected' % (what, type(got).__name__))
            return False
        if tuple(got.shape) != tuple(lead) + tuple(exp.shape):
            out.append('%s has shape %s where the index axes %s followed by the shape %s of func\'s value are expected' % (
                what, tuple(got.shape), tuple(lead), tuple(exp.shape)))
            return False
        return True
    if not isinstance(got, (list, tuple)) or len(got) != len(exp):
        out.append('%s has structure %s where func yields %s per input row' % (what, _shape_of(got), _shape_of(exp)))
        return False
    return all([_shapes_ok(out, '%s (output %d)' % (what, o), g, lead, e) for o, (g, e) in enumerate(zip(got, exp))])


def _check_entries(out, what, got_struct, entries, tol, limit=3):
    """entries: iterable of (index tuple, expected value)"""
    bad = 0
    for idx, exp in entries:
        try:
            got = _index(got_struct, idx)
        except (IndexError, TypeError) as e:
            out.append('%s: entry %s cannot be read from a result of shape %s (%s)' % (
                what, list(idx), _shape_of(got_struct), type(e).__name__))
            return
        r = _eq(got, exp, tol)
        if r:
            bad += 1
            if bad <= limit:
                out.append('%s[%s] is not func(the input that index denotes): %s' % (what, ','.join(map(str, idx)), r))
    if bad > limit:
        out.append('%s: %d entries differ in total' % (what, bad))


def _check(out, what, got, lead, entries, tol):
    """exact shape, then every entry"""
    if _shapes_ok(out, what, got, lead, entries[0][1]):
        _check_entries(out, what, got, entries, tol)


def _n_outputs_ok(out, what, res, case):
    """top-level structure: a tensor for a single output, else one element per output"""
    k = _n_func_outputs(case)
    if k == 1:
        if not isinstance(res, torch.Tensor):
            out.append('%s is a %s of length %s where a single tensor is expected' % (
                what, type(res).__name__, len(res) if hasattr(res, '__len__') else '?'))
            return False
    else:
        if isinstance(res, torch.Tensor) or len(res) != k:
            out.append('%s has %s top-level outputs where %d are expected (shapes %s)' % (
                what, 'a single tensor instead of' if isinstance(res, torch.Tensor) else len(res), k, _shape_of(res)))
            return False
    return True


def _n_func_outputs(case):
    if case['func'] in ('two', 'odd', 'marginalize'):
        return 2
    return 1 if case['func'] in ('dls', 'ism') else case['n_out']


# ----------------------------------------------------------------------------------------------
# checks

def check_marginalize(case):
    out = []
    rs, X, args, model = _build(case)
    w = case['w']
    alpha = list(case['alphabet']) if case.get('alphabet') else None
    mdt = DTYPES[case.get('mdtype', 'float64')]
    if case['motif'] == 'str':
        motif = _motif(rs, w)
        rows = [_ohe(motif, alpha)] * case['n']
    elif case['motif'] == 'tensor1':
        motif = _ohe(_motif(rs, w), dtype=mdt)        # an alphabet, if passed, is irrelevant for a tensor
        rows = [motif] * case['n']
    else:
        motif = torch.cat([_ohe(_motif(rs, w), dtype=mdt) for _ in range(case['n'])])
        rows = [motif[i:i + 1] for i in range(case['n'])]
    Xc, argsc = _clones(X, args)
    kw = dict(_fkw(case))
    if args:
        kw['args'] = _pack(case, args)
    own = {'start': case['start'], 'func': FUNCS[case['func']]}
    if alpha:
        own['alphabet'] = alpha
    try:
        if case.get('via_afk') == 'split':
            afk = {k: kw.pop(k) for k in list(kw) if k != 'args'}
            yb, ya = marginalize(model, X, motif, additional_func_kwargs=afk, **own, **kw)
        elif case.get('via_afk'):
            yb, ya = marginalize(model, X, motif, additional_func_kwargs=kw, **own)
        else:
            yb, ya = marginalize(model, X, motif, **own, **kw)
    except Exception as e:
        return ['marginalize raised %s (%s) on a valid request' % (type(e).__name__, str(e)[:80])]
    if not torch.equal(X, Xc):
        out.append('marginalize modified X')
    if not (_n_outputs_ok(out, 'before', yb, case) and _n_outputs_ok(out, 'after', ya, case)):
        return out
    tol = _tol(case)
    eb, ea = [], []
    for i in range(case['n']):
        ar = [a[i] for a in argsc]
        eb.append(((i,), _single(case, model, Xc[i], ar)))
        xp = ersatz.substitute(Xc[i:i + 1], rows[i], start=case['start'], alphabet=ALPHA)[0]
        ea.append(((i,), _single(case, model, xp, ar)))
    _check(out, 'before', yb, (case['n'],), eb, tol)
    _check(out, 'after', ya, (case['n'],), ea, tol)
    return out


def _ablate_call(case, model, X, args, seed, afk):
    kw = {'batch_size': case['bs'], 'device': 'cpu'}
    if case.get('shuffle_fn'):
        kw['shuffle_fn'] = SHUFFLE_FNS[case['shuffle_fn']]
    return ablate(model, X, case['start'], case['end'], n=case['n_shuf'], args=_pack(case, args), random_state=seed,
                  func=FUNCS[case['func']], additional_func_kwargs=afk, **kw)


def _shuffled(case, Xrow, st, en, ns, seed):
    """the ns denoted inputs of ONE example (1, 4, L) -> (ns, 4, L); None if the shuffle_fn refuses the region"""
    fn = case.get('shuffle_fn')
    if fn == 'rot':
        return torch.stack([torch.cat([Xrow[0, :, :st], torch.roll(Xrow[0, :, st:en], j + 1 + seed % 3, dims=-1),
                                       Xrow[0, :, en:]], dim=-1) for j in range(ns)])
    if fn == 'dinuc':
        try:
            return ersatz.dinucleotide_shuffle(Xrow, start=st, end=en, n=ns, random_state=seed)[0]
        except ValueError:
            return None
    return ersatz.shuffle(Xrow, start=st, end=en, n=ns, random_state=seed)[0]


def _ablate_afk(case):
    if case['func'] != 'dls':
        return None
    afk = {'n_shuffles': 2}
    if case.get('afk_rs') is not None:
        afk['random_state'] = case['afk_rs']     # the caller's own random_state for func wins
    return afk


def check_ablate(case, history=None):
    out = []
    rs, X, args, model = _build(case)
    ns, st, en, seed = case['n_shuf'], case['start'], case['end'], case['rseed']
    afk = _ablate_afk(case)
    dinuc = case.get('shuffle_fn') == 'dinuc'
    Xc, argsc = _clones(X, args)
    if dinuc:
        # dinucleotide_shuffle seeds row i of a batch with random_state + i: the denoted input is row
        # (i, j) of the shuffle of the whole batch.  It refuses regions without diversity: not a case.
        try:
            Xd = ersatz.dinucleotide_shuffle(Xc, start=st, end=en, n=ns, random_state=seed)
        except ValueError:
            return []
    try:
        if history is not None:
            # the SAME additional_func_kwargs dict was used by an earlier call with another random_state
            _ablate_call(case, model, X, args, history, afk)
        yb, ya = _ablate_call(case, model, X, args, seed, afk)
    except Exception as e:
        return ['ablate raised %s (%s) on a valid request' % (type(e).__name__, str(e)[:80])]
    if not (_n_outputs_ok(out, 'before', yb, case) and _n_outputs_ok(out, 'after', ya, case)):
        return out
    tol = _tol(case)
    extra = None
    if case['func'] == 'dls':
        extra = {'random_state': case['afk_rs'] if case.get('afk_rs') is not None else seed}
    eb, ea = [], []
    for i in range(case['n']):
        ar = [a[i] for a in argsc]
        eb.append(((i,), _single(case, model, Xc[i], ar, extra)))
        Xs = Xd[i] if dinuc else _shuffled(case, Xc[i:i + 1], st, en, ns, seed)
        for j in range(ns):
            ea.append(((i, j), _single(case, model, Xs[j], ar, extra)))
    _check(out, 'before', yb, (case['n'],), eb, tol)
    _check(out, 'after', ya, (case['n'], ns), ea, tol)
    return out


def check_ablate_reuse(case):
    """POSSIBLE DEFECT (CHECK_AFK_REUSE): a second call that re-uses the caller's additional_func_kwargs dict"""
    return ['[afk dict re-used after a call with random_state=%d] %s' % (case['rseed0'], w)
            for w in check_ablate(dict(case, kind='ablate'), history=case['rseed0'])]


def check_space(case):
    out = []
    rs, X, args, model = _build(case)
    n = case['n']
    alpha = list(case['alphabet']) if case.get('alphabet') else None
    mode = case.get('motif_tensors')
    motifs_in, rows = [], []          # rows[i]: the motif tensors of example i
    per = []
    for t, w in enumerate(case['ws']):
        as_tensor = mode in (True, 'perex') or (mode == 'mixed' and t % 2 == 1)
        if mode == 'perex':
            m = torch.cat([_ohe(_motif(rs, w)) for _ in range(n)])
            motifs_in.append(m)
            per.append([m[i:i + 1] for i in range(n)])
        else:
            s = _motif(rs, w)
            motifs_in.append(_ohe(s) if as_tensor else s)
            per.append([_ohe(s) if as_tensor else _ohe(s, alpha)] * n)
    rows = [[p[i] for p in per] for i in range(n)]
    spacing = case['spacing']
    m1 = len(case['ws']) - 1
    how = case.get('spacing_as', 'int64')
    if how == 'list':
        sp_in = [list(r) for r in spacing]
    elif how == 'numpy':
        sp_in = numpy.array(spacing, dtype='int64').reshape(len(spacing), m1)
    else:
        sp_in = torch.tensor(spacing, dtype=torch.int32 if how == 'int32' else torch.int64).reshape(len(spacing), m1)
    Xc, argsc = _clones(X, args)
    kw = dict(_fkw(case))
    if args:
        kw['args'] = _pack(case, args)
    if alpha:
        kw['alphabet'] = alpha
    try:
        yb, ya = space(model, X, motifs_in, sp_in, start=case['start'], func=FUNCS[case['func']], **kw)
    except Exception as e:
        return ['space raised %s (%s) on a valid request' % (type(e).__name__, str(e)[:80])]
    if not (_n_outputs_ok(out, 'before', yb, case) and _n_outputs_ok(out, 'after', ya, case)):
        return out
    tol = _tol(case)
    S = len(spacing)
    # 'before' may be laid out (n, S, ...) (one copy per spacing row) or (n, ...): both say the same thing
    per_spacing = _leaf(yb).dim() == _leaf(_single(case, model, Xc[0], [a[0] for a in argsc])).dim() + 2
    eb, ea = [], []
    for i in range(n):
        ar = [a[i] for a in argsc]
        b = _single(case, model, Xc[i], ar)
        if per_spacing:
            eb += [((i, s), b) for s in range(S)]
        else:
            eb.append(((i,), b))
        for s in range(S):
            xp = ersatz.multisubstitute(Xc[i:i + 1], rows[i], list(spacing[s]), start=case['start'], alphabet=ALPHA)[0]
            ea.append(((i, s), _single(case, model, xp, ar)))
    _check(out, 'before', yb, (n, S) if per_spacing else (n,), eb, tol)
    _check(out, 'after', ya, (n, S), ea, tol)
    return out


def _leaf(res):
    while not isinstance(res, torch.Tensor):
        res = res[0]
    return res


def check_marginalize_annotations(case):
    out = []
    rs, X0, args, model = _build(case)        # X0: backgrounds (n rows), args belong to the rows of X0
    Xsrc = _seqs(rs, case['n_src'], case.get('L_src', case['L'])).type(DTYPES[case.get('src_dtype', 'float64')])
    ann = case['annotations']
    X0c, argsc = _clones(X0, args)
    Xsrcc = Xsrc.clone()
    kw = dict(_fkw(case))
    if args:
        kw['args'] = _pack(case, args)
    try:
        yb, ya = marginalize_annotations(model, Xsrc, X0, torch.tensor(ann, dtype=torch.int64), start=case['start'],
                                         func=FUNCS[case['func']], **kw)
    except Exception as e:
        return ['marginalize_annotations raised %s (%s) on a valid request' % (type(e).__name__, str(e)[:80])]
    if not (_n_outputs_ok(out, 'before', yb, case) and _n_outputs_ok(out, 'after', ya, case)):
        return out
    tol = _tol(case)
    eb, ea = [], []
    for a_i, (idx, s, e) in enumerate(ann):
        motif = Xsrcc[idx:idx + 1, :, s:e]
        for i in range(case['n']):
            ar = [a[i] for a in argsc]
            eb.append(((a_i, i), _single(case, model, X0c[i], ar)))
            xp = ersatz.substitute(X0c[i:i + 1], motif, start=case['start'], alphabet=ALPHA)[0]
            ea.append(((a_i, i), _single(case, model, xp, ar)))
    _check(out, 'before', yb, (len(ann), case['n']), eb, tol)
    _check(out, 'after', ya, (len(ann), case['n']), ea, tol)
    return out


def _drop_example_axis(res, exp, lead):
    """ablate_annotations works on X[idx:idx+1]: accept (A, 1, ...) as well as (A, ...).  `exp` is the
    expected value of one entry, `lead` the number of index axes of an entry"""
    if isinstance(res, torch.Tensor):
        if isinstance(exp, torch.Tensor) and res.dim() == exp.dim() + lead + 1 and res.shape[1] == 1:
            return res[:, 0]
        return res
    if isinstance(exp, (list, tuple)) and len(exp) == len(res):
        return [_drop_example_axis(r, e, lead) for r, e in zip(res, exp)]
    return res


def check_ablate_annotations(case):
    out = []
    rs, X, args, model = _build(case)
    ann, ns, seed = case['annotations'], case['n_shuf'], case['rseed']
    Xc, argsc = _clones(X, args)
    kw = {'batch_size': case['bs'], 'device': 'cpu'}
    if args:
        kw['args'] = _pack(case, args)
    if case['func'] == 'dls':
        kw['additional_func_kwargs'] = {'n_shuffles': 2}
    if case.get('shuffle_fn'):
        kw['shuffle_fn'] = SHUFFLE_FNS[case['shuffle_fn']]
    # every annotation is ablated on its own: the denoted inputs are the shuffles of the single example
    shuf = [_shuffled(case, Xc[idx:idx + 1], s, e, ns, seed) for idx, s, e in ann]
    if any(x is None for x in shuf):
        return []                      # dinucleotide_shuffle refuses a region without diversity: not a case
    try:
        yb, ya = ablate_annotations(model, X, torch.tensor(ann, dtype=torch.int64), n=ns, random_state=seed,
                                    func=FUNCS[case['func']], **kw)
    except Exception as e:
        return ['ablate_annotations raised %s (%s) on a valid request' % (type(e).__name__, str(e)[:80])]
    if not (_n_outputs_ok(out, 'before', yb, case) and _n_outputs_ok(out, 'after', ya, case)):
        return out
    tol = _tol(case)
    extra = {'random_state': seed} if case['func'] == 'dls' else None
    eb, ea = [], []
    for a_i, (idx, s, e) in enumerate(ann):
        ar = [a[idx] for a in argsc]
        eb.append(((a_i,), _single(case, model, Xc[idx], ar, extra)))
        for j in range(ns):
            ea.append(((a_i, j), _single(case, model, shuf[a_i][j], ar, extra)))
    # the example axis of length 1 is dropped only if it is there: (A, 1, n, ...) -> (A, n, ...)
    _check(out, 'before', _drop_example_axis(yb, eb[0][1], 1), (len(ann),), eb, tol)
    _check(out, 'after', _drop_example_axis(ya, ea[0][1], 2), (len(ann), ns), ea, tol)
    return out


def check_product(case):
    """apply_pairwise (paired argument rows) / apply_product (cartesian product of argument rows)"""
    out = []
    pairwise = case['kind'] == 'pairwise'
    sizes = case['sizes']
    rs, X, sets, model = _build(case, arg_rows=sizes)
    fn = apply_pairwise if pairwise else apply_product
    name = 'apply_pairwise' if pairwise else 'apply_product'
    kw = {}
    if case['func'] == 'dls':
        kw['additional_func_kwargs'] = {'n_shuffles': 2, 'random_state': case.get('fseed', 3)}
    extra = None
    if case['func'] == 'marginalize':
        case = dict(case, pmotif=_motif(rs, 2))
        kw['motif'] = case['pmotif']
        if case.get('pstart') is not None:
            kw['additional_func_kwargs'] = {'start': case['pstart']}
            extra = {'start': case['pstart']}
    Xc, setsc = _clones(X, sets)
    try:
        y = fn(FUNCS[case['func']], model, X, tuple(sets) if case.get('args_tuple') else list(sets),
               batch_size=case['bs'], device='cpu', **kw)
    except Exception as e:
        return ['%s raised %s (%s) on a valid request' % (name, type(e).__name__, str(e)[:80])]
    tol = _tol(case)
    if pairwise:
        combos = [((j,), [j] * len(sets)) for j in range(sizes[0])]
    else:
        combos = [(js, list(js)) for js in itertools.product(*[range(s) for s in sizes])]
    entries = []
    for i in range(case['n']):
        for lead, js in combos:
            ar = [setsc[t][j] for t, j in enumerate(js)]
            entries.append(((i,) + tuple(lead), _single(case, model, Xc[i], ar, extra)))
    lead_shape = (case['n'], sizes[0]) if pairwise else (case['n'],) + tuple(sizes)
    _check(out, name, y, lead_shape, entries, tol)
    return out


CHECKS = {'marginalize': check_marginalize, 'ablate': check_ablate, 'space': check_space,
          'marginalize_annotations': check_marginalize_annotations, 'ablate_annotations': check_ablate_annotations,
          'pairwise': check_product, 'product': check_product, 'ablate_reuse': check_ablate_reuse}


def _finding(case, viol):
    """stable key of the input class"""
    k = case['kind']
    multi = _n_func_outputs(case) >= 2
    if k == 'ablate_reuse':
        return 'ablate-additional-func-kwargs-dict-reused'
    if k == 'ablate_annotations' and case['n_args'] > 0 and case['n'] > 1:
        return 'ablate-annotations-args-not-matched-to-example'
    if k in ('marginalize_annotations', 'ablate_annotations') and multi and len(case['annotations']) != _n_func_outputs(case):
        return k.replace('_', '-') + '-multi-output-stacking'
    return k.replace('_', '-') + '-entry-mismatch'


# ----------------------------------------------------------------------------------------------
# enumeration

def _evaluate(rep, case, sample=False):
    viol = CHECKS[case['kind']](case)
    rep.case(tuple(sorted((k, repr(v)) for k, v in case.items())), nontrivial=True, section=case['kind'],
             sample=case if rep.sections.get(case['kind'], 0) == 0 else None)
    for w in viol:
        rep.violation(w, case, finding=_finding(case, viol))


def _pick_func(rng, kind, n_out):
    r = rng.random()
    if kind in ('pairwise', 'product'):
        if r < 0.12:
            return 'dls'
        if r < 0.27:
            return 'marginalize'
        if r < 0.35 and n_out == 1:
            return 'two'
        if r < 0.43 and n_out == 1:
            return 'odd'
        return 'predict'
    if r < 0.12:
        return 'dls'
    if n_out == 1 and r < 0.20:
        return 'ism'
    if n_out == 1 and r < 0.30:
        return 'two'
    if n_out == 1 and r < 0.40:
        return 'odd'
    return 'predict'


def _annotations(rng, n_src, L, A, same_len=None):
    ann = []
    for _ in range(A):
        w = same_len or rng.randint(1, 3)
        s = rng.randint(0, L - w)
        ann.append([rng.randrange(n_src), s, s + w])
    return ann


def _pooled(rng, n_idx, spans, A):
    """annotations drawn from a small pool of spans: repeated spans on different examples in arbitrary
    (interleaved) order, exact duplicates"""
    return [[rng.randrange(n_idx)] + list(rng.choice(spans)) for _ in range(A)]


def _dinuc_accepts(case):
    """dinucleotide_shuffle refuses a region whose shuffles all coincide (data dependent)"""
    rs, X, args, model = _build(case)
    spans = [(slice(None), case['start'], case['end'])] if case['kind'] == 'ablate' else \
        [(slice(i, i + 1), s, e) for i, s, e in case['annotations']]
    try:
        for rows, s, e in spans:
            ersatz.dinucleotide_shuffle(X[rows], start=s, end=e, n=case['n_shuf'], random_state=case['rseed'])
    except ValueError:
        return False
    return True


def _settle_dinuc(case, tries=8):
    """move to the next data seed that dinucleotide_shuffle accepts (else fall back to the default shuffle_fn)"""
    if case.get('shuffle_fn') != 'dinuc':
        return case
    for _ in range(tries):
        if _dinuc_accepts(case):
            return case
        case['seed'] += 1
    del case['shuffle_fn']
    return case


def _random_case(rng, kind, thorough, k):
    n = rng.randint(1, 5 if thorough else 4)
    L = rng.randint(6, 12)
    n_out = rng.choice([1, 1, 2, 3])
    n_args = rng.choice([0, 1, 2])
    func = _pick_func(rng, kind, n_out)
    if func in ('dls', 'ism', 'two', 'odd'):
        n_out = 1
    if func == 'ism' and kind in ('pairwise', 'product'):
        func = 'predict'
    bs = rng.choice([1, 2, 3, 4, 5, 7, 32])
    case = {'kind': kind, 'seed': rng.randrange(10 ** 6), 'n': n, 'L': L, 'n_out': n_out, 'n_args': n_args,
            'func': func, 'bs': bs}
    plain = func in ('predict', 'two', 'odd', 'marginalize')
    # dimensions shared by the wrappers (default values are left out of the case)
    r = rng.random()
    if r < 0.30:
        case['argmode'] = rng.choice(['flat', '3d', 'int'])
    if rng.random() < 0.2:
        case['args_tuple' if kind in ('pairwise', 'product') else 'args_list'] = True
    if plain and rng.random() < 0.2:
        case['xdtype'] = rng.choice(['int8', 'float32'])
    if kind == 'marginalize':
        w = rng.randint(1, 3)
        case.update(w=w, motif=rng.choice(['str', 'tensor1', 'tensorN']),
                    start=rng.choice([None, rng.randint(0, L - w), rng.choice([0, L - w])]),
                    via_afk=rng.choice([False, False, True, 'split']))
        if rng.random() < 0.3:
            case['alphabet'] = ''.join(rng.sample(ALPHA, 4))
        if case['motif'] != 'str' and rng.random() < 0.3:
            case['mdtype'] = 'int8'
    elif kind == 'ablate':
        st = rng.choice([0, rng.randint(0, L - 2)])
        case.update(n_shuf=rng.randint(1, 5), start=st, end=rng.choice([L, rng.randint(st + 2, L)]),
                    rseed=rng.choice([0, rng.randrange(1000)]))
        r = rng.random()
        if case['end'] - st >= 6 and r < 0.4:
            case['shuffle_fn'] = 'dinuc'
        elif r > 0.8:
            case['shuffle_fn'] = 'rot'
        if func == 'dls' and rng.random() < 0.5:
            case['afk_rs'] = rng.randrange(1000)
    elif kind == 'space':
        m = rng.choice([2, 2, 3])
        ws = [rng.randint(1, 2) for _ in range(m)]
        room = L - sum(ws)
        S = rng.randint(1, 4)
        spacing = []
        for _ in range(S):
            left, row = room, []
            for _ in range(m - 1):
                g = rng.randint(0, max(0, min(left, 3)))
                row.append(g)
                left -= g
            spacing.append(row)
        if S > 1 and rng.random() < 0.2:
            spacing[-1] = list(spacing[0])          # a duplicate row
        total = sum(ws) + max(sum(r) for r in spacing)
        case.update(ws=ws, spacing=spacing, start=rng.choice([None, None, rng.randint(0, L - total), 0, L - total]),
                    motif_tensors=rng.choice([False, False, True, 'mixed', 'perex']))
        r = rng.random()
        if r < 0.4:
            case['spacing_as'] = rng.choice(['int32', 'list', 'numpy'])
        if case['motif_tensors'] in (False, 'mixed') and rng.random() < 0.3:
            case['alphabet'] = ''.join(rng.sample(ALPHA, 4))
    elif kind == 'marginalize_annotations':
        n_src = rng.randint(1, 3)
        A = rng.randint(1, 6)
        L_src = L if rng.random() < 0.6 else L + rng.randint(1, 5)
        if rng.random() < 0.3:
            spans = [(s, s + w) for s, w in ((rng.randint(0, L_src - 3), rng.randint(1, 3)) for _ in range(2))]
            ann = _pooled(rng, n_src, spans, A)
        else:
            ann = _annotations(rng, n_src, L_src, A)
        wmax = max(e - s for _, s, e in ann)
        case.update(n_src=n_src, annotations=ann, start=rng.choice([None, rng.randint(0, L - wmax), 0, L - wmax]))
        if L_src != L:
            case['L_src'] = L_src
        if rng.random() < 0.2:
            case['src_dtype'] = 'int8'
    elif kind == 'ablate_annotations':
        A = rng.randint(1, 6)
        r = rng.random()
        if r < 0.35:
            spans = []
            for _ in range(rng.randint(2, 3)):
                s = rng.randint(0, L - 2)
                spans.append((s, rng.randint(s + 2, L)))
            ann = _pooled(rng, n, spans, A)
        else:
            ann = []
            for _ in range(A):
                s = rng.randint(0, L - 2)
                ann.append([rng.randrange(n), s, rng.randint(s + 2, L)])
            if r > 0.9:
                ann[-1] = [ann[-1][0], 0, L]
        case.update(annotations=ann, n_shuf=rng.randint(1, 4), rseed=rng.choice([0, rng.randrange(1000)]))
        r = rng.random()
        if r < 0.2:
            case['shuffle_fn'] = 'rot'
        elif r < 0.4 and L >= 10:
            # long spans only: dinucleotide_shuffle needs some diversity
            case['annotations'] = [[i, s % 3, L - (e % 3)] for i, s, e in ann]
            case['shuffle_fn'] = 'dinuc'
    elif kind == 'pairwise':
        na = rng.randint(1, 2)
        J = rng.randint(1, 4)
        case.update(sizes=[J] * na, n_args=na)
    elif kind == 'product':
        na = rng.randint(1, 3 if thorough else 2)
        sizes = [rng.randint(1, 4) for _ in range(na)]
        if not thorough and rng.random() < 0.12:
            sizes = [rng.randint(1, 3) for _ in range(3)]
        case.update(sizes=sizes, n_args=len(sizes))
    if kind in ('pairwise', 'product') and func == 'marginalize' and rng.random() < 0.5:
        case['pstart'] = rng.randint(0, L - 2)
    return _settle_dinuc(case)


def _grid(thorough):
    """deterministic corner cases of the quantifier"""
    cases = []
    base = {'seed': 7, 'n': 3, 'L': 8, 'bs': 2}
    funcs1 = ['predict', 'dls', 'ism', 'two'] if thorough else ['predict']
    for n_out in (1, 2, 3):
        for n_args in (0, 1, 2):
            for func in (funcs1 if n_out == 1 else ['predict']):
                c = dict(base, n_out=n_out, n_args=n_args, func=func)
                cases.append(dict(c, kind='marginalize', w=2, motif='str', start=3, via_afk=False))
                cases.append(dict(c, kind='ablate', n_shuf=3, start=1, end=6, rseed=5))
                cases.append(dict(c, kind='space', ws=[2, 1], spacing=[[0], [2], [1]], start=1, motif_tensors=False))
                for A in ((1, 2, 3, 4, 5, 6) if thorough or n_args == 0 else (1, 3)):
                    ann = [[(a * 2) % 3, a % 5, a % 5 + 1 + a % 3] for a in range(A)]
                    cases.append(dict(c, kind='marginalize_annotations', n_src=3, annotations=ann, start=None))
                    ann2 = [[(a * 2) % 3, a % 4, a % 4 + 2 + a % 3] for a in range(A)]
                    cases.append(dict(c, kind='ablate_annotations', annotations=ann2, n_shuf=2, rseed=5))
                    if n_args > 0:   # one example: the args need no slicing
                        ann1 = [[0, a % 4, a % 4 + 2 + a % 3] for a in range(A)]
                        cases.append(dict(c, n=1, kind='ablate_annotations', annotations=ann1, n_shuf=2, rseed=5))
            for func in (['predict', 'marginalize', 'dls', 'two'] if n_out == 1 else ['predict', 'marginalize']):
                c = dict(base, n_out=n_out, func=func)
                for sizes in ([1], [4], [3, 2], [2, 3]):
                    for bs in (4, 5, 32):
                        cases.append(dict(c, kind='product', sizes=sizes, n_args=len(sizes), bs=bs))
                for na, J in ((1, 3), (2, 4), (2, 1)):
                    for bs in (4, 5):
                        cases.append(dict(c, kind='pairwise', sizes=[J] * na, n_args=na, bs=bs))
    return _uniq(cases)


def _uniq(cases):
    seen, uniq = set(), []
    for c in cases:
        key = repr(sorted(c.items()))
        if key not in seen:
            seen.add(key)
            uniq.append(c)
    return uniq


def _corners(thorough):
    """targeted cases: options, boundary values and input classes the plain grid never passes"""
    cases = []
    b = {'seed': 11, 'n': 3, 'L': 9, 'bs': 2, 'n_out': 1, 'n_args': 1, 'func': 'predict'}
    b2 = dict(b, n_out=2, n_args=2)

    # -- marginalize
    m = dict(b, kind='marginalize', w=2, motif='str', start=3, via_afk=False)
    for L, w in ((8, 2), (8, 3), (9, 2), (9, 3)):          # centred start: all parities
        cases.append(dict(m, L=L, w=w, start=None))
    for st in (0, 7):                                       # first / last fitting position (0 is not "None")
        cases.append(dict(m, start=st))
        cases.append(dict(m, start=st, motif='tensorN'))
    for al in ('TGCA', 'CATG'):
        cases.append(dict(m, alphabet=al))
        cases.append(dict(m, alphabet=al, start=None, w=3, n_out=2))
        cases.append(dict(m, alphabet=al, motif='tensor1'))
    for xd in ('int8', 'float32'):
        cases.append(dict(m, xdtype=xd))
        cases.append(dict(m, xdtype=xd, motif='tensorN', mdtype='int8'))
    cases.append(dict(m, motif='tensor1', mdtype='int8'))
    for via in (True, 'split'):
        cases.append(dict(m, via_afk=via))
        cases.append(dict(b2, kind='marginalize', w=2, motif='tensorN', start=None, via_afk=via))
    for am in ('flat', '3d', 'int'):
        cases.append(dict(m, argmode=am, args_list=am == 'flat'))
    cases.append(dict(m, func='odd'))
    cases.append(dict(m, func='odd', n=1, n_args=2, start=None))
    cases.append(dict(m, n=1, w=9, start=None))             # the motif replaces the whole sequence
    cases.append(dict(m, n=1, w=9, start=0))

    # -- ablate
    a = dict(b, kind='ablate', n_shuf=3, start=1, end=6, rseed=5)
    cases.append(dict(a, start=0, end=9))
    cases.append(dict(a, rseed=0))
    cases.append(dict(a, rseed=0, n_out=3, n_args=2))
    for ns in (1, 5):
        cases.append(dict(a, n_shuf=ns))
        cases.append(dict(b2, kind='ablate', n_shuf=ns, start=2, end=9, rseed=1, bs=3))
    for am in ('flat', '3d', 'int'):
        cases.append(dict(a, argmode=am))
        cases.append(dict(a, argmode=am, n_args=2, args_list=True, n_shuf=2, n=2))
    for fn in ('rot', 'dinuc'):
        cases.append(dict(a, shuffle_fn=fn, L=12, start=1, end=11, seed=3))
        cases.append(dict(b2, kind='ablate', shuffle_fn=fn, L=12, start=0, end=12, n_shuf=2, rseed=0, seed=4))
    for xd in ('int8', 'float32'):
        cases.append(dict(a, xdtype=xd))
    cases.append(dict(a, xdtype='int8', shuffle_fn='dinuc', L=12, start=1, end=11, seed=3))
    cases.append(dict(a, func='odd'))
    cases.append(dict(a, func='odd', n_args=0, n_shuf=1))
    cases.append(dict(a, func='two', n_args=2, n_shuf=4))
    cases.append(dict(a, func='dls', afk_rs=17, n=2, n_shuf=2))
    cases.append(dict(a, func='dls', n=2, n_shuf=2, rseed=0))

    # -- space
    s = dict(b, kind='space', ws=[2, 1], spacing=[[0], [3], [1]], start=None, motif_tensors=False)
    cases.append(s)                                          # rows of different width, each centred on its own
    cases.append(dict(s, L=8))
    cases.append(dict(s, ws=[1, 2, 1], spacing=[[0, 0], [2, 1], [1, 3], [0, 4]]))
    cases.append(dict(b2, kind='space', ws=[1, 2, 1], spacing=[[3, 2], [0, 0]], start=None, motif_tensors=False, L=10))
    cases.append(dict(s, start=0))
    cases.append(dict(s, start=3))                           # the widest row ends at the last position
    cases.append(dict(s, spacing=[[2]]))                     # a single row
    cases.append(dict(s, spacing=[[1], [1], [0], [1]]))      # duplicate rows
    cases.append(dict(s, spacing=[[3], [2], [1], [0]], n=4))   # n == S: a missing transpose keeps the shape
    for how in ('int32', 'list', 'numpy'):
        cases.append(dict(s, spacing_as=how))
        cases.append(dict(s, spacing_as=how, ws=[1, 1, 2], spacing=[[1, 0], [0, 2]], start=1))
    for mt in (True, 'mixed', 'perex'):
        cases.append(dict(s, motif_tensors=mt))
        cases.append(dict(b2, kind='space', ws=[2, 2, 1], spacing=[[0, 1], [1, 0], [2, 2]], start=0, motif_tensors=mt))
    for al in ('TGCA', 'GATC'):
        cases.append(dict(s, alphabet=al))
        cases.append(dict(s, alphabet=al, motif_tensors='mixed', ws=[2, 2], start=1))
    for am in ('flat', '3d', 'int'):
        cases.append(dict(s, argmode=am, args_list=am == '3d'))
    cases.append(dict(s, xdtype='int8'))
    cases.append(dict(s, xdtype='float32', motif_tensors='perex'))
    cases.append(dict(s, func='odd'))
    cases.append(dict(s, func='two', n_args=2, spacing=[[4], [0]]))

    # -- marginalize_annotations
    ma = dict(b, kind='marginalize_annotations', n_src=3, start=None)
    cases.append(dict(ma, annotations=[[0, 1, 3], [1, 4, 6], [2, 4, 6], [0, 1, 3]]))           # A,B,B,A
    cases.append(dict(ma, annotations=[[2, 0, 2], [2, 0, 2], [0, 3, 6], [2, 0, 2], [1, 3, 6]]))  # duplicates
    cases.append(dict(b2, kind='marginalize_annotations', n_src=2, start=0,
                      annotations=[[1, 6, 9], [0, 0, 1], [1, 6, 9], [0, 2, 4], [0, 0, 1]]))
    cases.append(dict(ma, annotations=[[1, 0, 9]]))                                            # a whole sequence
    cases.append(dict(ma, annotations=[[1, 0, 9], [0, 0, 9], [2, 1, 2]], n_out=2))
    cases.append(dict(ma, L_src=14, annotations=[[0, 10, 14], [2, 9, 11], [1, 0, 4], [2, 12, 14]]))
    cases.append(dict(ma, L_src=14, annotations=[[0, 3, 12]], start=0))
    for st in (0, 6):
        cases.append(dict(ma, annotations=[[2, 5, 8], [0, 1, 4], [1, 3, 6]], start=st))
    cases.append(dict(ma, src_dtype='int8', annotations=[[2, 5, 8], [0, 1, 3]]))
    cases.append(dict(ma, xdtype='int8', annotations=[[2, 5, 8], [0, 1, 3], [1, 1, 2]]))
    for am in ('flat', '3d', 'int'):
        cases.append(dict(ma, argmode=am, args_list=am == 'int', annotations=[[2, 5, 8], [0, 1, 3], [1, 7, 8]]))
    cases.append(dict(ma, func='odd', annotations=[[2, 5, 8], [0, 1, 3], [1, 7, 8]]))
    cases.append(dict(ma, func='odd', annotations=[[2, 5, 8]], n_args=0))
    cases.append(dict(ma, func='two', annotations=[[2, 5, 8], [0, 1, 3], [1, 7, 8], [1, 7, 9]], n_args=2))
    cases.append(dict(ma, n=1, annotations=[[2, 5, 8], [0, 1, 3], [1, 7, 8]]))
    cases.append(dict(ma, n_src=1, annotations=[[0, 5, 8], [0, 1, 3]], n_out=3))

    # -- ablate_annotations
    aa = dict(b, kind='ablate_annotations', n=4, n_shuf=2, rseed=5)
    inter = [[0, 1, 5], [1, 3, 8], [2, 3, 8], [3, 1, 5]]                                       # spans A,B,B,A
    cyc = [[0, 1, 5], [1, 3, 8], [2, 0, 4], [3, 1, 5], [1, 0, 4]]                              # spans A,B,C,A,C
    dup = [[2, 1, 5], [0, 2, 7], [2, 1, 5], [2, 1, 5], [0, 2, 7]]                              # exact duplicates
    for ann in (inter, cyc, dup):
        cases.append(dict(aa, annotations=ann))
        cases.append(dict(aa, annotations=ann, n_args=0))
        cases.append(dict(aa, annotations=ann, n_out=2, n_args=2, n_shuf=3, rseed=0))
    cases.append(dict(aa, annotations=[[3, 0, 9], [0, 0, 9], [1, 7, 9]]))                      # whole sequences, last two
    cases.append(dict(aa, annotations=[[3, 2, 6], [2, 2, 6], [1, 2, 6], [0, 2, 6]]))           # descending examples
    cases.append(dict(aa, annotations=inter, n_shuf=1))
    cases.append(dict(aa, annotations=cyc, n_shuf=1, n_out=3))
    for fn in ('rot', 'dinuc'):
        long_ = [[0, 0, 11], [1, 1, 12], [2, 1, 12], [3, 0, 11], [1, 0, 12]]
        cases.append(dict(aa, L=12, annotations=long_, shuffle_fn=fn, seed=5))
        cases.append(dict(aa, L=12, annotations=long_, shuffle_fn=fn, seed=6, n_out=2, n_args=2, rseed=0))
    for am in ('flat', '3d', 'int'):
        cases.append(dict(aa, argmode=am, args_list=am == 'flat', annotations=inter))
    cases.append(dict(aa, xdtype='int8', annotations=dup))
    cases.append(dict(aa, func='odd', annotations=inter))
    cases.append(dict(aa, func='odd', annotations=[[1, 2, 6]], n_args=0))
    cases.append(dict(aa, func='two', annotations=cyc, n_args=2))
    cases.append(dict(aa, func='dls', annotations=inter, n=4))

    # -- products
    p = dict(b, kind='product')
    for sizes, bs in (([2, 1, 3], 5), ([2, 2, 2], 3), ([1, 3, 2], 32), ([3, 1, 1], 4), ([4, 4], 7), ([1, 1], 2)):
        cases.append(dict(p, sizes=sizes, n_args=len(sizes), bs=bs))
        cases.append(dict(p, sizes=sizes, n_args=len(sizes), bs=bs, n_out=2, args_tuple=True))
    for am in ('flat', '3d', 'int'):
        cases.append(dict(p, sizes=[3, 2], n_args=2, bs=4, argmode=am))
        cases.append(dict(p, kind='pairwise', sizes=[4, 4], n_args=2, bs=5, argmode=am, args_tuple=am == '3d'))
    for func in ('odd', 'two', 'marginalize'):
        cases.append(dict(p, sizes=[2, 3], n_args=2, bs=4, func=func, pstart=1 if func == 'marginalize' else None))
        cases.append(dict(p, kind='pairwise', sizes=[3, 3], n_args=2, bs=4, func=func, pstart=0 if func == 'marginalize' else None))
    cases.append(dict(p, sizes=[2, 3], n_args=2, bs=5, func='marginalize', n_out=2, pstart=7))
    cases.append(dict(p, sizes=[3, 2], n_args=2, bs=4, xdtype='int8'))
    cases.append(dict(p, kind='pairwise', sizes=[3], n_args=1, bs=2, xdtype='float32'))
    cases.append(dict(p, sizes=[4, 2], n_args=2, bs=3, n=1))
    cases.append(dict(p, kind='pairwise', sizes=[4, 4], n_args=2, bs=3, n=1, n_out=3))
    cases.append(dict(p, sizes=[2, 3], n_args=2, bs=18))            # batch_size == size of the product
    cases.append(dict(p, sizes=[2, 3], n_args=2, bs=1))
    for c in cases:
        for k in [k for k, v in c.items() if v is None and k != 'start']:
            del c[k]
        _settle_dinuc(c)
    return _uniq(cases)


def _reuse_cases():
    return [{'kind': 'ablate_reuse', 'seed': 1, 'n': 2, 'L': 10, 'bs': 2, 'n_out': 1, 'n_args': 0, 'func': 'dls',
             'n_shuf': 2, 'start': 1, 'end': 7, 'rseed0': 5, 'rseed': 9}]


def run(rep):
    thorough = rep.tier == 'thorough'
    torch.set_num_threads(1)
    torch.manual_seed(rep.seed)
    numpy.random.seed(rep.seed)
    corners = _corners(thorough)
    for c in corners:
        if rep.out_of_time():
            rep.note('time budget reached inside the corner cases')
            return
        _evaluate(rep, c)
    rep.mark_exhaustive('list of %d targeted corner cases (options, boundary values, annotation / spacing / argument '
                        'layouts)' % len(corners))
    if CHECK_AFK_REUSE:
        for c in _reuse_cases():
            _evaluate(rep, c)
    else:
        rep.note('POSSIBLE DEFECT not asserted (CHECK_AFK_REUSE = False): ablate() stores random_state in the '
                 "caller's additional_func_kwargs dict; a re-used dict makes func run with the stale seed")
    grid = _grid(thorough)
    for c in grid:
        if rep.out_of_time():
            rep.note('time budget reached inside the grid')
            return
        _evaluate(rep, c)
    rep.mark_exhaustive('grid of %d corner cases: 1-3 outputs x 0-2 args x annotations %s x product sizes' % (
        len(grid), '1-6' if thorough else '1-6 (no args) / 1,3 (args)'))
    n_rand = 1200 if thorough else 200
    kinds = ['marginalize', 'ablate', 'space', 'marginalize_annotations', 'ablate_annotations', 'pairwise', 'product']
    for k in range(n_rand):
        for kind in kinds:
            if rep.out_of_time():
                rep.note('time budget reached after %d random rounds' % k)
                return
            _evaluate(rep, _random_case(rep.rng, kind, thorough, k), sample=k == 0)


def replay(case):
    fn = CHECKS.get(case.get('kind'))
    if fn is None:
        return ['unknown replay kind']
    return fn(case)
