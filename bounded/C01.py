"""Bounded stand-in for C01 (edit primitives) — never counted as proved.

Three kinds of checks, all against the REAL functions:
 (a) the deductive contracts of substitute / insert / delete evaluated in the concrete
     interpretation (same contract text the verifier discharges), on the property's own small
     scope; this is also the replay harness of solver counter-models;
 (b) an independent string-level oracle for multisubstitute and randomize, and the conformance
     of the assumed call-site contract of utils._validate_input with the real function;
 (c) the same string-level oracle (own encoder, strict one-hot decoder - no argmax) for ALL five
     primitives over the input classes (a)/(b) never pass: X of 8 dtypes (int8 float16/32/64 int32/64
     uint8 bool) x 4 memory layouts (contiguous, slice of a longer tensor, stride-0 expanded batch,
     permuted), batch 1-6, sequence length 1-150, motif length up to L+1, motif dtype different from
     X, motif that is a view of X itself, permuted alphabets, default alphabet left out, start
     omitted / None / numpy integer; requests that must be REJECTED rather than broadcast or encoded
     loosely: motif batch neither 1 nor len(X) (also when it divides len(X)), other alphabet size,
     unknown character ('N', 'Z', all-zero tensor column); multisubstitute with tensor / per-example
     / mixed motifs, int spacing, 1-5 motifs, caller-owned motif tensors compared before/after;
     randomize with default / list / numpy / float32 / float64 probs, shared or per-example,
     uniform / skewed / degenerate, seed as int / RandomState / None, start and end over [-3, L+3].

Tolerated on purpose (DESIGN 2.3, not tightened here): insert refusing start in (L-n, L] and
randomize refusing end == L (an error there is never a wrong result; the exact edit is accepted as
well); multisubstitute refusing spacing >= L; the empty motif (statement silent: an error, or the
exact - empty - edit).  Nothing is asserted about output dtype, aliasing of the result with the
input, or the distribution of randomize's draws: the statement does not speak of them.
"""
import itertools

import numpy
import torch

from tangermeme import ersatz
from tangermeme.utils import one_hot_encode, characters, _validate_input

from vf.concrete import check_concrete, to_json, from_json, LETTERS

SCOPE = {
    'quick': 'contracts: alphabets 2-4; every sequence of length <= 4 (sampled per length to 12) x motif length <= 3 x start in [-3, L+3] x {str, tensor shared, tensor per-example} motifs; delete: every (start, end) in [-2, L+2]^2; 300 seeded random larger cases. '
             'string oracle: 8 dtypes x 4 memory layouts x 5 primitives grid at boundary positions; must-reject grid (motif batch not in {1, B} incl. divisors/multiples, other alphabet size, unknown character) for batch 1,2,3,4,6; multisubstitute exhaustively for L <= 4 x 1-3 motifs (len 1-2, str/tensor/per-example, int or list spacing in [-1, 2], 3 motifs [-1, 1]) x start in [-3, L+3] + None; '
             'randomize exhaustively for alphabets 2,4 x L <= 4 x (start, end) in [-3, L+3]^2 x seed int/RandomState/None; 2000 + 800 + 600 seeded random variant cases (dtype, layout, batch 1-6, L <= 150, permuted/default alphabet, numpy indices, '
             'must-reject motifs: wrong batch / alphabet size / unknown character; probs forms) + 250 plain multisubstitute/randomize cases; _validate_input conformance on int8/float32/bool/int64 tensors',
    'thorough': 'contracts: alphabets 2-6; every sequence of length <= 5 x motif length <= 3 x every start in [-3, L+3]; 5000 seeded random larger cases. '
                'string oracle: same grids; multisubstitute exhaustively for L <= 5 (spacings [-1, 2]); randomize exhaustively for alphabets 2,3,4,6 x L <= 5; 15000 + 6000 + 5000 seeded random variant cases + 1500 plain ones; _validate_input conformance',
}


def _contracts():
    from vf.world import World
    import contracts.utils_c as U
    import contracts.ersatz_c as E
    w = World()
    U.register(w)
    E.register(w)
    return w


def ohe(s, alphabet):
    return one_hot_encode(s, alphabet=alphabet).unsqueeze(0)


def dec(t, alphabet):
    return [characters(x, alphabet=alphabet, allow_N=True) for x in t]


def _check(rep, w, qual, fn, args, kwargs, cfg, key, sample=None):
    c = w.contracts[qual]
    outcome, viol = check_concrete(c, cfg, fn, args, kwargs)
    rep.case(key, nontrivial=True, sample=sample, section=qual.split('.')[-1])
    for v in viol:
        rep.violation('%s: %s (%s)' % (qual, v['label'], v['detail']),
                      {'kind': 'contract', 'function': qual, 'cfg': cfg, 'args': to_json(args), 'kwargs': to_json(kwargs)},
                      finding=None)


def run(rep):
    torch.set_num_threads(1)
    w = _contracts()
    thorough = rep.tier == 'thorough'
    rng = rep.rng
    # cheap, direct-oracle sections first (a few seconds in the quick tier)
    _variants_grid(rep)
    _reject_grid(rep)
    _small_multisub(rep, thorough)
    _small_randomize(rep, thorough)
    _variants_random(rep, rng, thorough)
    _multisub_and_randomize(rep, rng, thorough)
    _validate_conformance(rep)
    # contracts in the concrete interpretation (about 1 ms per evaluation)
    alph_sizes = range(2, 7) if thorough else range(2, 5)
    maxL = 5 if thorough else 4
    per_len = None if thorough else 12
    for A in alph_sizes:
        alphabet = list(LETTERS[:A])
        for L in range(1, maxL + 1):
            seqs = [''.join(s) for s in itertools.product(alphabet, repeat=L)]
            if per_len is not None and len(seqs) > per_len:
                seqs = rng.sample(seqs, per_len)
            for s in seqs:
                if rep.out_of_time():
                    rep.note('time budget reached inside the exhaustive part')
                    return
                X = torch.cat([ohe(s, alphabet), ohe(s[::-1], alphabet)])
                for n in range(1, 4):
                    motif = ''.join(rng.choice(alphabet) for _ in range(n))
                    Mt = ohe(motif, alphabet)
                    Mt2 = torch.cat([Mt, ohe(motif[::-1], alphabet)])
                    for start in list(range(-3, L + 4)) + [None]:
                        for form, m in (('str', motif), ('tensor', Mt), ('tensor', Mt2)):
                            cfg = dict(motif=form, start='none' if start is None else 'int')
                            kw = dict(start=start, alphabet=alphabet)
                            _check(rep, w, 'tangermeme.ersatz.substitute', ersatz.substitute, [X, m], kw, cfg,
                                   ('sub', A, s, motif, start, form, m.shape[0] if form == 'tensor' else 0),
                                   sample={'fn': 'substitute', 'X': dec(X, alphabet), 'motif': motif, 'start': start, 'form': form})
                            _check(rep, w, 'tangermeme.ersatz.insert', ersatz.insert, [X, m], kw, cfg,
                                   ('ins', A, s, motif, start, form, m.shape[0] if form == 'tensor' else 0),
                                   sample={'fn': 'insert', 'X': dec(X, alphabet), 'motif': motif, 'start': start, 'form': form})
                for st in range(-2, L + 3):
                    for en in range(-2, L + 3):
                        _check(rep, w, 'tangermeme.ersatz.delete', ersatz.delete, [X, st, en], {}, {},
                               ('del', A, s, st, en), sample={'fn': 'delete', 'X': dec(X, alphabet), 'start': st, 'end': en})
    rep.mark_exhaustive('substitute/insert/delete on the listed small scope' + ('' if thorough else ' (sequences sampled per length)'))
    # seeded random larger cases
    n_rand = 5000 if thorough else 300
    for k in range(n_rand):
        if rep.out_of_time():
            break
        A = rng.randint(2, 6)
        alphabet = list(LETTERS[:A])
        L = rng.randint(6, 40)
        B = rng.randint(1, 4)
        X = torch.cat([ohe(''.join(rng.choice(alphabet) for _ in range(L)), alphabet) for _ in range(B)])
        n = rng.randint(1, 8)
        per_ex = rng.random() < 0.4
        motif = ''.join(rng.choice(alphabet) for _ in range(n))
        start = rng.choice([None, rng.randint(-3, L + 3), L - n, L - n + 1, 0])
        if per_ex:
            m = torch.cat([ohe(''.join(rng.choice(alphabet) for _ in range(n)), alphabet) for _ in range(B)])
            form = 'tensor'
        else:
            m, form = (motif, 'str') if rng.random() < 0.5 else (ohe(motif, alphabet), 'tensor')
        cfg = dict(motif=form, start='none' if start is None else 'int')
        kw = dict(start=start, alphabet=alphabet)
        _check(rep, w, 'tangermeme.ersatz.substitute', ersatz.substitute, [X, m], kw, cfg, ('rsub', k))
        _check(rep, w, 'tangermeme.ersatz.insert', ersatz.insert, [X, m], kw, cfg, ('rins', k))
        st, en = rng.randint(-2, L + 2), rng.randint(-2, L + 2)
        _check(rep, w, 'tangermeme.ersatz.delete', ersatz.delete, [X, st, en], {}, {}, ('rdel', k))


def _str_sub(s, m, p):
    return s[:p] + m + s[p + len(m):]


# ---------------------------------------------------------------------------------------------
# (c) direct string-level oracle: own encoder / strict decoder, no contract machinery
# ---------------------------------------------------------------------------------------------
DTYPES = ('int8', 'float32', 'float64', 'int64', 'bool', 'uint8', 'float16', 'int32')
LAYOUTS = ('contig', 'view', 'expanded', 'noncontig')


def enc(rows, alphabet, dtype='int8'):
    """own encoder (independent of utils.one_hot_encode): equal-length strings -> (B, A, n);
    a character outside the alphabet gives an all-zero column"""
    alphabet = list(alphabet)
    T = torch.zeros(len(rows), len(alphabet), len(rows[0]), dtype=torch.int8)
    for b, r in enumerate(rows):
        for p, ch in enumerate(r):
            if ch in alphabet:
                T[b, alphabet.index(ch), p] = 1
    return T.to(getattr(torch, dtype))


def strict_dec(T, alphabet):
    """(B, A, n) -> list of strings, or None when T is not a valid one-hot encoding (every entry
    0 or 1, every column summing to exactly 1) - unlike characters(), which takes an argmax"""
    if not isinstance(T, torch.Tensor) or T.dim() != 3 or T.shape[1] != len(alphabet):
        return None
    T64 = T.detach().to(torch.float64)
    if not bool(((T64 == 0) | (T64 == 1)).all()) or not bool((T64.sum(dim=1) == 1).all()):
        return None
    if T64.shape[2] == 0:
        return ['' for _ in range(T64.shape[0])]
    return [''.join(alphabet[i] for i in row) for row in T64.argmax(dim=1).tolist()]


def build_X(seqs, alphabet, dtype='int8', layout='contig'):
    """-> (X handed to the function, tensor owning X's storage).  layouts: a slice of a longer
    tensor, a stride-0 batch expansion of one row (any write through it hits every row), a
    permuted (non-contiguous) tensor"""
    if layout == 'expanded':
        base = enc(seqs[:1], alphabet, dtype)
        return base.expand(len(seqs), -1, -1), base
    if layout == 'view':
        base = enc([alphabet[0] + alphabet[1] + s + alphabet[-1] for s in seqs], alphabet, dtype)
        return base[:, :, 2:2 + len(seqs[0])], base
    if layout == 'noncontig':
        base = enc(seqs, alphabet, dtype).permute(0, 2, 1).contiguous()
        return base.permute(0, 2, 1), base
    X = enc(seqs, alphabet, dtype)
    return X, X


def _idx(v, kind):
    if v is None:
        return None
    return numpy.int64(v) if kind == 'numpy' else int(v)


def motif_info(m, alphabet, seqs):
    """-> (rows: the motif string(s), one shared or one per example; valid: True / False / None).
    valid is False when the motif has no one-hot encoding over the alphabet (unknown character,
    other alphabet size) or its batch is neither 1 nor len(X) - such a request must be rejected,
    not broadcast; None for the empty motif, on which the statement is silent"""
    if isinstance(m, str):
        m = {'form': 'str', 's': m}
    if m['form'] == 'str':
        rows = [m['s']]
    elif m['form'] == 'xview':
        rows = [s[m['offset']:m['offset'] + m['n']] for s in seqs]
    else:
        rows = list(m['rows'])
    if len(rows[0]) == 0:
        return rows, None
    valid = all(ch in alphabet for r in rows for ch in r) and len(rows) in (1, len(seqs))
    if m['form'] == 'tensor' and m.get('alphabet') is not None and len(m['alphabet']) != len(alphabet):
        valid = False
    return rows, valid


def motif_arg(m, alphabet, X):
    if isinstance(m, str):
        return m
    if m['form'] == 'str':
        return m['s']
    if m['form'] == 'xview':          # the motif is itself a view of the caller's X
        return X[:, :, m['offset']:m['offset'] + m['n']]
    return enc(m['rows'], m.get('alphabet') or alphabet, m.get('dtype', 'int8'))


def _frame(out, name, base, base0, margs, margs0):
    if not torch.equal(base, base0):
        out.append('%s modified its input X (or the tensor X is a view of)' % name)
    for a, a0 in zip(margs, margs0):
        if isinstance(a, torch.Tensor) and not torch.equal(a, a0):
            out.append('%s modified a caller-owned motif tensor' % name)


def check_edit(case):
    """substitute / insert / delete against string slicing"""
    out = []
    fn, alphabet, seqs = case['fn'], list(case['alphabet']), case['seqs']
    B, L = len(seqs), len(seqs[0])
    X, base = build_X(seqs, alphabet, case.get('dtype', 'int8'), case.get('layout', 'contig'))
    base0 = base.clone()
    ik = case.get('index_kind', 'int')
    margs = []
    if fn == 'delete':
        st, en = case['start'], case['end']
        args, kw = [X, _idx(st, ik), _idx(en, ik)], {}
        must_raise = not (0 <= st < en <= L)
        must_return = not must_raise
        exp = [s[:st] + s[en:] for s in seqs]
    else:
        m = case['motif']
        rows, valid = motif_info(m, alphabet, seqs)
        n = len(rows[0])
        marg = motif_arg(m, alphabet, X)
        margs = [marg]
        start = case['start']
        args, kw = [X, marg], {}
        if case.get('pass_alphabet', True):
            kw['alphabet'] = list(alphabet)
        if not (start is None and case.get('omit_start')):
            kw['start'] = _idx(start, ik)
        if fn == 'substitute':
            p = start if start is not None else L // 2 - n // 2
            inside = 0 <= p and p + n <= L
            accept = inside
        else:
            p = start if start is not None else L // 2
            inside = 0 <= p <= L
            # the pinned guard refuses start in (L-n, L]: an error or the exact edit are both fine there
            accept = inside and (start is None or p <= L - n)
        must_raise = (not inside) or valid is False
        must_return = accept and valid is True
        exp = None
        if not must_raise:
            exp = []
            for b, s in enumerate(seqs):
                mb = rows[b] if len(rows) > 1 else rows[0]
                exp.append(s[:p] + mb + (s[p + n:] if fn == 'substitute' else s[p:]))
    margs0 = [a.clone() if isinstance(a, torch.Tensor) else a for a in margs]
    try:
        Y = getattr(ersatz, fn)(*args, **kw)
    except Exception as e:
        if must_return:
            out.append('%s raised %s (%s) on a valid request' % (fn, type(e).__name__, str(e)[:60]))
    else:
        if must_raise:
            out.append('%s returned although the position/span is not inside the sequence or the motif is not a one-hot motif for this batch' % fn)
        else:
            got = strict_dec(Y, alphabet)
            if got is None or Y.shape[0] != B:
                out.append('%s output is not a valid one-hot encoding of shape (batch, alphabet, *)' % fn)
            elif got != exp:
                out.append('%s result is not exactly the requested string edit (and nothing else) of the input batch: got %s expected %s' % (fn, got[:3], exp[:3]))
    _frame(out, fn, base, base0, margs, margs0)
    return out


def check_multisub(case):
    out = []
    alphabet, seqs, motifs, spacing, start = list(case['alphabet']), case['seqs'], case['motifs'], case['spacing'], case['start']
    B, L, nm = len(seqs), len(seqs[0]), len(motifs)
    X, base = build_X(seqs, alphabet, case.get('dtype', 'int8'), case.get('layout', 'contig'))
    base0 = base.clone()
    sp = [spacing] * (nm - 1) if isinstance(spacing, int) else list(spacing)
    rowss, margs, valid = [], [], True
    for m in motifs:
        rows, v = motif_info(m, alphabet, seqs)
        valid = valid and v is True
        rowss.append(rows)
        margs.append(motif_arg(m, alphabet, X))
    margs0 = [a.clone() if isinstance(a, torch.Tensor) else a for a in margs]
    lens = [len(r[0]) for r in rowss]
    total = sum(lens) + sum(sp)
    s0 = (L // 2 - total // 2) if start is None else start
    # expected: sequential substitution; every span must lie inside, spacings non-negative
    pos, ok, p = [], valid and all(0 <= x for x in sp), s0
    for i in range(nm):
        pos.append(p)
        if p < 0 or p + lens[i] > L:
            ok = False
        p += lens[i] + (sp[i] if i < nm - 1 else 0)
    kw = {}
    if case.get('pass_alphabet', True):
        kw['alphabet'] = list(alphabet)
    if not (start is None and case.get('omit_start')):
        kw['start'] = _idx(start, case.get('index_kind', 'int'))
    try:
        Y = ersatz.multisubstitute(X, margs, spacing, **kw)
    except Exception as e:
        # the pinned guard also refuses spacing >= L; that never returns a wrong result
        if ok and all(x < L for x in sp):
            out.append('multisubstitute raised %s (%s) on a valid request' % (type(e).__name__, str(e)[:60]))
    else:
        if not ok:
            out.append('multisubstitute returned although a span is not inside the sequence / a spacing is negative / a motif is not a one-hot motif for this batch')
        else:
            exp = []
            for b, s in enumerate(seqs):
                for rows, q in zip(rowss, pos):
                    s = _str_sub(s, rows[b] if len(rows) > 1 else rows[0], q)
                exp.append(s)
            got = strict_dec(Y, alphabet)
            if got is None or tuple(Y.shape) != tuple(X.shape):
                out.append('multisubstitute output is not a valid one-hot encoding of the input shape')
            elif got != exp:
                out.append('multisubstitute result differs from the sequential substitution of the motifs at the requested positions: got %s expected %s' % (got[:3], exp[:3]))
    _frame(out, 'multisubstitute', base, base0, margs, margs0)
    return out


def build_probs(spec, A):
    """-> kwargs for randomize.  legacy cases (no spec): shared uniform float64 tensor"""
    if spec is None:
        return {'probs': torch.full((1, A), 1.0 / A, dtype=torch.float64)}
    form, rows = spec['form'], spec.get('rows')
    if form == 'default':
        return {}
    if form == 'list':
        return {'probs': [list(r) for r in rows]}
    if form == 'numpy':
        return {'probs': numpy.array(rows, dtype=numpy.float64)}
    return {'probs': torch.tensor(rows, dtype=torch.float32 if form == 'tensor32' else torch.float64)}


def check_randomize(case):
    out = []
    alphabet, seqs, st, en, n, seed = list(case['alphabet']), case['seqs'], case['start'], case['end'], case['n'], case['seed']
    A, L, B = len(alphabet), len(seqs[0]), len(seqs)
    X, base = build_X(seqs, alphabet, case.get('dtype', 'int8'), case.get('layout', 'contig'))
    base0 = base.clone()
    inside = 0 <= st < en <= L
    kw = build_probs(case.get('probs'), A)
    rs = case.get('rs', 'int')
    kw['random_state'] = seed if rs == 'int' else numpy.random.RandomState(seed) if rs == 'obj' else None
    pr0 = kw['probs'].clone() if isinstance(kw.get('probs'), torch.Tensor) else None
    ik = case.get('index_kind', 'int')
    try:
        R = ersatz.randomize(X, _idx(st, ik), _idx(en, ik), n=n, **kw)
    except Exception as e:
        # observation (DESIGN 2.3): the pinned guard refuses end == L; an error is never a wrong result
        if inside and en < L:
            out.append('randomize raised %s (%s) on a valid span' % (type(e).__name__, str(e)[:60]))
    else:
        if not inside:
            out.append('randomize returned for a span not inside the sequence')
        elif not isinstance(R, torch.Tensor) or tuple(R.shape) != (B, n, A, L):
            out.append('randomize shape %s' % (tuple(getattr(R, 'shape', ())),))
        else:
            R64, X64 = R.to(torch.float64), X.to(torch.float64)
            for b in range(B):
                for j in range(n):
                    row = R64[b, j]
                    if not torch.equal(row[:, :st], X64[b][:, :st]) or not torch.equal(row[:, en:], X64[b][:, en:]):
                        out.append('randomize altered a position outside [start, end)')
                    if not bool(((row.sum(dim=0) == 1) & ((row == 0) | (row == 1)).all(dim=0)).all()):
                        out.append('randomize output is not one-hot')
    _frame(out, 'randomize', base, base0, [], [])
    if pr0 is not None and not torch.equal(kw['probs'], pr0):
        out.append('randomize modified the caller-owned probs tensor')
    return out


# ------------------------------------------------------------------ case generators (seeded)
def _word(rng, alphabet, n):
    return ''.join(rng.choice(alphabet) for _ in range(n))


def _gen_common(rng, maxB=6, lens=None):
    A = rng.randint(2, 6)
    alphabet = list(LETTERS[:A])
    if rng.random() < 0.35:
        rng.shuffle(alphabet)          # the index order of the alphabet is the caller's choice
    B = rng.randint(1, maxB)
    L = rng.choice(lens or [1, 2, 3, rng.randint(4, 12), rng.randint(4, 12), rng.randint(13, 40), rng.randint(41, 150)])
    layout, dtype = rng.choice(LAYOUTS), rng.choice(DTYPES)
    seqs = [_word(rng, alphabet, L) for _ in range(B)]
    if layout == 'expanded':
        seqs = [seqs[0]] * B
    return {'alphabet': alphabet, 'seqs': seqs, 'dtype': dtype, 'layout': layout, 'index_kind': rng.choice(['int', 'int', 'numpy'])}


def _gen_motif(rng, alphabet, B, L, n, xdtype, bad=True):
    A, r = len(alphabet), rng.random()
    mdt = rng.choice(['int8', xdtype, 'float32'])
    if not bad:
        r *= 0.70
    if r < 0.25:
        return {'form': 'str', 's': _word(rng, alphabet, n)}
    if r < 0.40:
        return {'form': 'tensor', 'rows': [_word(rng, alphabet, n)], 'dtype': mdt}
    if r < 0.62:
        return {'form': 'tensor', 'rows': [_word(rng, alphabet, n) for _ in range(B)], 'dtype': mdt}
    if r < 0.70:
        if n <= L:
            return {'form': 'xview', 'offset': rng.randint(0, L - n), 'n': n}
        return {'form': 'str', 's': _word(rng, alphabet, n)}
    if r < 0.79:      # batch neither 1 nor B: must be rejected, not broadcast (also when it divides B)
        ks = [x for x in (2, 3, 4, 6, 8, 10) if x != B]
        div = [x for x in ks if B % x == 0 or x % B == 0]
        k = rng.choice(div if div and rng.random() < 0.6 else ks)
        return {'form': 'tensor', 'rows': [_word(rng, alphabet, n) for _ in range(k)], 'dtype': mdt}
    if r < 0.85:      # other alphabet size
        A2 = A + 1 if (A == 2 or rng.random() < 0.5) else A - 1
        al2 = list(LETTERS[:A2])
        return {'form': 'tensor', 'rows': [_word(rng, al2, n)], 'dtype': mdt, 'alphabet': al2}
    q = rng.randrange(n)
    w = _word(rng, alphabet, n)
    if r < 0.91:      # unknown character: no one-hot column exists for it
        return {'form': 'str', 's': w[:q] + 'N' + w[q + 1:]}
    if r < 0.94:
        return {'form': 'str', 's': w[:q] + 'Z' + w[q + 1:]}
    if r < 0.98:
        return {'form': 'tensor', 'rows': [w[:q] + 'N' + w[q + 1:]], 'dtype': mdt}
    return {'form': 'str', 's': ''}


def _gen_edit(rng):
    c = _gen_common(rng)
    c['kind'] = 'edit'
    alphabet, B, L = c['alphabet'], len(c['seqs']), len(c['seqs'][0])
    fn = c['fn'] = rng.choice(['substitute', 'substitute', 'insert', 'insert', 'delete'])
    if fn == 'delete':
        st = c['start'] = rng.choice([-1, 0, 0, 1, L - 1, L, rng.randint(-3, L + 3), rng.randint(0, L), rng.randint(0, L), rng.randint(0, L)])
        c['end'] = rng.choice([0, L, L, L + 1, st, st + 1, st + 1, rng.randint(-3, L + 3),
                               rng.randint(st + 1, max(st + 1, L)), rng.randint(st + 1, max(st + 1, L)), rng.randint(st + 1, max(st + 1, L))])
        return c
    n = rng.choice([1, 1, 2, min(3, L), rng.randint(1, max(1, min(8, L))), rng.randint(1, max(1, min(8, L))), L, L + 1])
    c['motif'] = m = _gen_motif(rng, alphabet, B, L, n, c['dtype'])
    n = len(motif_info(m, alphabet, c['seqs'])[0][0])
    c['start'] = rng.choice([None, None, rng.randint(-3, L + 3), 0, L - n, L - n + 1, L, -1,
                             rng.randint(0, max(0, L - n)), rng.randint(0, max(0, L - n)), rng.randint(0, max(0, L - n))])
    c['omit_start'] = rng.random() < 0.5
    c['pass_alphabet'] = not (alphabet == list('ACGT') and rng.random() < 0.6)
    return c


def _gen_multisub(rng):
    c = _gen_common(rng, maxB=4, lens=[rng.randint(3, 14), rng.randint(8, 30), rng.randint(15, 60)])
    c['kind'] = 'multisub'
    alphabet, B, L = c['alphabet'], len(c['seqs']), len(c['seqs'][0])
    nm = rng.choice([1, 1, 2, 2, 3, 3, 4, 5])
    bad = rng.random() < 0.15
    c['motifs'] = []
    for i in range(nm):
        m = _gen_motif(rng, alphabet, B, L, rng.randint(1, 3), c['dtype'], bad=bad and i == nm - 1)
        if m['form'] == 'str':
            m = m['s'] or _word(rng, alphabet, 1)     # plain strings; the empty motif is not generated here
        c['motifs'].append(m)
    if rng.random() < 0.4:
        c['spacing'] = rng.choice([0, 0, 1, 2, 3, -1]) if nm > 1 else rng.randint(0, 3)
    else:
        c['spacing'] = [rng.choice([0, 0, 1, 2, 3, 4, -1]) for _ in range(nm - 1)]
    c['start'] = rng.choice([None, None, 0, 0, rng.randint(-2, L + 1), rng.randint(0, L // 2), rng.randint(0, L // 4)])
    c['omit_start'] = rng.random() < 0.5
    c['pass_alphabet'] = not (alphabet == list('ACGT') and rng.random() < 0.6)
    return c


def _dyadic(rng, A):
    row = [2.0 ** -(i + 1) for i in range(A - 1)]
    row.append(2.0 ** -(A - 1))
    rng.shuffle(row)
    return row


def _gen_randomize(rng, k):
    c = _gen_common(rng, maxB=5, lens=[2, 3, rng.randint(4, 14), rng.randint(4, 14), rng.randint(15, 60)])
    c['kind'] = 'randomize'
    A, B, L = len(c['alphabet']), len(c['seqs']), len(c['seqs'][0])
    st = c['start'] = rng.choice([0, 0, 1, -1, -2, rng.randint(-3, L + 3), rng.randint(0, L - 1), rng.randint(0, L - 1), rng.randint(0, L - 1)])
    c['end'] = rng.choice([L - 1, L, L + 1, -1, -2, rng.randint(-3, L + 3), st, st + 1, st + 1,
                           rng.randint(st + 1, max(st + 1, L - 1)), rng.randint(st + 1, max(st + 1, L - 1)), rng.randint(st + 1, max(st + 1, L - 1))])
    c['n'] = rng.choice([1, 1, 2, 3, 5])
    c['seed'] = k
    c['rs'] = rng.choice(['int', 'int', 'obj', 'none'])
    form = rng.choice(['list', 'numpy', 'tensor32', 'tensor64'] + (['default', 'default'] if A == 4 else []))
    rows = []
    for _ in range(1 if rng.random() < 0.5 else B):
        r = rng.random()
        if r < 0.3 and (A in (2, 4) or form in ('numpy', 'tensor64')):
            rows.append([1.0 / A] * A)      # exact in float32 only for A = 2, 4
        elif r < 0.6:
            j = rng.randrange(A)
            rows.append([1.0 if i == j else 0.0 for i in range(A)])
        else:
            rows.append(_dyadic(rng, A))
    c['probs'] = {'form': form, 'rows': rows}
    return c


# ------------------------------------------------------------------ sections
def _variants_grid(rep):
    """every dtype x memory layout x primitive on one fixed batch, boundary positions"""
    alphabet = list('ACGT')
    L, n = 6, 2
    for dtype in DTYPES:
        for layout in LAYOUTS:
            seqs = ['ACGTAC', 'TTGACA', 'GGGCAT'] if layout != 'expanded' else ['ACGTAC'] * 3
            base = {'kind': 'edit', 'alphabet': alphabet, 'seqs': seqs, 'dtype': dtype, 'layout': layout}
            motifs = ({'form': 'str', 's': 'GT'}, {'form': 'tensor', 'rows': ['CA'], 'dtype': 'int8'},
                      {'form': 'tensor', 'rows': ['CA', 'TG', 'AA'], 'dtype': dtype})
            for fn in ('substitute', 'insert'):
                for mi, m in enumerate(motifs):
                    for start in (-1, 0, 2, L - n, L - n + 1, L, L + 1, None):
                        case = dict(base, fn=fn, motif=m, start=start, pass_alphabet=(mi != 0))
                        for what in check_edit(case):
                            rep.violation(what, case)
                        rep.case(('vg', fn, dtype, layout, mi, start), sample=case if (dtype, layout, mi, start) == ('float32', 'view', 2, 2) else None,
                                 section='variants:' + fn)
            for st, en in ((-1, 2), (0, 1), (0, L), (2, 5), (3, 3), (4, 2), (4, L), (4, L + 1)):
                case = dict(base, fn='delete', start=st, end=en)
                for what in check_edit(case):
                    rep.violation(what, case)
                rep.case(('vg', 'delete', dtype, layout, st, en), section='variants:delete')
            case = {'kind': 'multisub', 'alphabet': alphabet, 'seqs': seqs, 'dtype': dtype, 'layout': layout,
                    'motifs': ['G', motifs[1], motifs[2]], 'spacing': 0, 'start': 0}
            for sp in (0, 1, 2, [0, 1], [1, 0]):
                for start in (0, 1, None):
                    c2 = dict(case, spacing=sp, start=start)
                    for what in check_multisub(c2):
                        rep.violation(what, c2)
                    rep.case(('vg', 'ms', dtype, layout, repr(sp), start), section='variants:multisubstitute')
            for st, en in ((0, 1), (0, L - 1), (2, 4), (4, L), (-2, 3), (2, -1), (3, L + 1)):
                c2 = {'kind': 'randomize', 'alphabet': alphabet, 'seqs': seqs, 'dtype': dtype, 'layout': layout, 'start': st, 'end': en,
                      'n': 2, 'seed': 7, 'probs': {'form': 'default'}}
                for what in check_randomize(c2):
                    rep.violation(what, c2)
                rep.case(('vg', 'rz', dtype, layout, st, en), section='variants:randomize')
    rep.mark_exhaustive('dtype x layout grid (8 dtypes x 4 memory layouts x 5 primitives, boundary positions, one fixed batch)')


def _reject_grid(rep):
    """requests every primitive must refuse (never broadcast, clip or encode loosely), at an
    otherwise valid position: motif batch k not in {1, B} - including k dividing B and k a multiple
    of B -, motif over another alphabet size, unknown character in a string motif, all-zero column in
    a tensor motif; plus the matching accepted request (k = 1, k = B) as a control"""
    alphabet = list('ACGT')
    words = ['GT', 'CA', 'TG', 'AA', 'CC', 'GA', 'TC', 'AG']
    for B in (1, 2, 3, 4, 6):
        seqs = [('ACGTTGCA' * 2)[i:i + 7] for i in range(B)]
        bad = [{'form': 'tensor', 'rows': words[:k], 'dtype': 'int8'} for k in (1, 2, 3, 4, 6, 8)]
        bad += [{'form': 'tensor', 'rows': ['AC'], 'dtype': 'int8', 'alphabet': list('ACG')},
                {'form': 'tensor', 'rows': ['AB'], 'dtype': 'int8', 'alphabet': list('ACGTB')},
                {'form': 'tensor', 'rows': ['AN'], 'dtype': 'int8'}, {'form': 'tensor', 'rows': ['NA'] * B, 'dtype': 'float32'},
                {'form': 'str', 's': 'AN'}, {'form': 'str', 's': 'NA'}, {'form': 'str', 's': 'N'}, {'form': 'str', 's': 'AZ'}, {'form': 'str', 's': 'a'}]
        for mi, m in enumerate(bad):
            for start in (0, 1, None):
                for fn in ('substitute', 'insert'):
                    case = {'kind': 'edit', 'fn': fn, 'alphabet': alphabet, 'seqs': seqs, 'motif': m, 'start': start, 'pass_alphabet': bool(mi % 2)}
                    for what in check_edit(case):
                        rep.violation(what, case)
                    rep.case(('rg', fn, B, mi, start), nontrivial=motif_info(m, alphabet, seqs)[1] is False, section='reject:' + fn)
                for others in (0, 1, 2):
                    ms = ['C'] * others + [m if m['form'] != 'str' else m['s']]
                    case = {'kind': 'multisub', 'alphabet': alphabet, 'seqs': seqs, 'motifs': ms, 'spacing': 1 if others != 1 else [0], 'start': start}
                    for what in check_multisub(case):
                        rep.violation(what, case)
                    rep.case(('rg', 'ms', B, mi, start, others), nontrivial=motif_info(m, alphabet, seqs)[1] is False, section='reject:multisubstitute')
    rep.mark_exhaustive('must-reject grid: batch 1,2,3,4,6 x motif batch 1,2,3,4,6,8 / other alphabet size / unknown character x substitute, insert, multisubstitute')


def _small_multisub(rep, thorough):
    """exhaustive small scope for multisubstitute: every L <= maxL, 1-3 motifs of length 1-2, every
    spacing vector over [-1, smax], every start in [-3, L+3] and None; the motif form cycles through
    str / shared tensor / per-example tensor and the spacing is passed as an int when constant"""
    alphabet = list('ACG')
    maxL = 5 if thorough else 4
    k = 0
    for L in range(1, maxL + 1):
        seqs = [('ACGCA' * 2)[:L], ('GGACA' * 2)[:L]]
        for nm in (1, 2, 3):
            smax = 2 if (nm < 3 or thorough) else 1
            for lens in itertools.product((1, 2), repeat=nm):
                for sp in itertools.product(range(-1, smax + 1), repeat=nm - 1):
                    for start in list(range(-3, L + 4)) + [None]:
                        if rep.out_of_time():
                            rep.note('time budget reached inside the small multisubstitute scope')
                            return
                        k += 1
                        motifs = []
                        for i, n in enumerate(lens):
                            w = ('CA', 'GC', 'AG')[i][:n]
                            form = (k + i) % 3
                            motifs.append(w if form == 0 else {'form': 'tensor', 'rows': [w] if form == 1 else [w, w[::-1] if n > 1 else 'G'], 'dtype': 'int8'})
                        spacing = list(sp)
                        if nm == 1:
                            spacing = [] if k % 2 else 0
                        elif len(set(sp)) == 1 and k % 2:
                            spacing = sp[0]
                        case = {'kind': 'multisub', 'alphabet': alphabet, 'seqs': seqs, 'motifs': motifs, 'spacing': spacing, 'start': start,
                                'omit_start': bool(k % 2)}
                        for what in check_multisub(case):
                            rep.violation(what, case)
                        rep.case(('sms', L, lens, sp, start), sample=case if k == 40 else None, section='small:multisubstitute')
    rep.mark_exhaustive('multisubstitute: L <= %d x 1-3 motifs of length 1-2 x spacings in [-1, 2] (3 motifs: [-1, %d]) x start in [-3, L+3] + None' % (maxL, 2 if thorough else 1))


def _small_randomize(rep, thorough):
    """exhaustive small scope for randomize: every L <= maxL, every (start, end) in [-3, L+3]^2"""
    maxL = 5 if thorough else 4
    for A in ((2, 3, 4, 6) if thorough else (2, 4)):
        alphabet = list(LETTERS[:A])
        for L in range(1, maxL + 1):
            seqs = [(''.join(alphabet) * 3)[:L], (''.join(reversed(alphabet)) * 3)[1:L + 1]]
            for st in range(-3, L + 4):
                for en in range(-3, L + 4):
                    if rep.out_of_time():
                        rep.note('time budget reached inside the small randomize scope')
                        return
                    case = {'kind': 'randomize', 'alphabet': alphabet, 'seqs': seqs, 'start': st, 'end': en, 'n': 2, 'seed': 16 * (st + 3) + (en + 3),
                            'rs': ('int', 'obj', 'none')[(st + en) % 3]}
                    for what in check_randomize(case):
                        rep.violation(what, case)
                    rep.case(('srz', A, L, st, en), nontrivial=0 <= st < en <= L, section='small:randomize')
    rep.mark_exhaustive('randomize: alphabets %s x L <= %d x every (start, end) in [-3, L+3]^2' % ('2,3,4,6' if thorough else '2,4', maxL))


def _variants_random(rep, rng, thorough):
    n_edit, n_ms, n_rz = (15000, 6000, 5000) if thorough else (2000, 800, 600)
    for k in range(n_edit):
        if rep.out_of_time():
            return
        case = _gen_edit(rng)
        for what in check_edit(case):
            rep.violation(what, case)
        rep.case(('ve', k), sample=case if k < 1 else None, section='variants:' + case['fn'])
    for k in range(n_ms):
        if rep.out_of_time():
            return
        case = _gen_multisub(rng)
        for what in check_multisub(case):
            rep.violation(what, case)
        rep.case(('vms', k), section='variants:multisubstitute')
    for k in range(n_rz):
        if rep.out_of_time():
            return
        case = _gen_randomize(rng, k)
        for what in check_randomize(case):
            rep.violation(what, case)
        rep.case(('vrz', k), section='variants:randomize')


def _multisub_and_randomize(rep, rng, thorough):
    """independent string-level oracle, plain inputs (int8, contiguous, string motifs, list spacing)"""
    n_cases = 1500 if thorough else 250
    for k in range(n_cases):
        if rep.out_of_time():
            return
        A = rng.randint(2, 6)
        alphabet = list(LETTERS[:A])
        L = rng.randint(3, 14)
        B = rng.randint(1, 3)
        seqs = [''.join(rng.choice(alphabet) for _ in range(L)) for _ in range(B)]
        nm = rng.randint(1, 3)
        motifs = [''.join(rng.choice(alphabet) for _ in range(rng.randint(1, 3))) for _ in range(nm)]
        spacing = [rng.randint(-1, 4) for _ in range(nm - 1)]
        start = rng.choice([None, rng.randint(-2, L + 1)])
        case = {'kind': 'multisub', 'alphabet': alphabet, 'seqs': seqs, 'motifs': motifs, 'spacing': spacing, 'start': start}
        for what in check_multisub(case):
            rep.violation(what, case)
        rep.case(('ms', k), sample=case if k < 2 else None, section='multisubstitute')
        st, en = rng.randint(-3, L + 1), rng.randint(-3, L + 2)
        case = {'kind': 'randomize', 'alphabet': alphabet, 'seqs': seqs, 'start': st, 'end': en, 'n': rng.randint(1, 3), 'seed': k}
        for what in check_randomize(case):
            rep.violation(what, case)
        rep.case(('rz', k), section='randomize')


def _validate_expect(X):
    """assumed contract of _validate_input(ohe=True): returns iff every entry is 0 or 1, every
    column along dim 1 sums to exactly 1, and there are at least two channels (both values present)"""
    X64 = X.to(torch.float64)
    return bool(((X64 == 0) | (X64 == 1)).all()) and bool((X64.sum(dim=1) == 1).all()) and X.shape[1] >= 2


def _validate_got(X):
    try:
        _validate_input(X, 'X', ohe=True)
        return True
    except ValueError:
        return False


def _validate_conformance(rep):
    """assumed contract of _validate_input(ohe=True): returns iff one-hot along dim 1, no all-zero
    column, both values present. Exhaustive over int8 tensors with entries in {0,1,2} of shape <= (1,3,2)
    and (2,2,1); float32 tensors with entries in {0, 1, 0.5, -1}, bool and int64 tensors on three shapes."""
    n = 0
    plans = [('int8', (0, 1, 2), ((1, 2, 1), (1, 2, 2), (1, 3, 2), (2, 2, 1), (1, 1, 2))),
             ('float32', (0, 1, 0.5, -1), ((1, 2, 2), (1, 3, 1), (2, 2, 1))),
             ('int64', (0, 1, -1), ((1, 2, 2), (1, 3, 1))),
             ('bool', (0, 1), ((1, 2, 2), (1, 3, 2), (2, 2, 1), (1, 1, 2)))]
    for dtype, values, shapes in plans:
        for shape in shapes:
            numel = shape[0] * shape[1] * shape[2]
            for vals in itertools.product(values, repeat=numel):
                X = torch.tensor(vals, dtype=torch.float64).to(getattr(torch, dtype)).reshape(shape)
                expect_ok = _validate_expect(X)
                n += 1
                if _validate_got(X) != expect_ok:
                    rep.violation('assumed contract of _validate_input disagrees with the real function',
                                  {'kind': 'validate', 'X': X.to(torch.float64).tolist(), 'dtype': dtype})
                rep.case(('vi', dtype, shape, vals), nontrivial=expect_ok, section='_validate_input-conformance')
    rep.mark_exhaustive('_validate_input(ohe=True) on %d small tensors' % n)


def replay(case):
    k = case.get('kind')
    if k == 'contract':
        w = _contracts()
        c = w.contracts[case['function']]
        fn = getattr(ersatz, case['function'].split('.')[-1])
        _, viol = check_concrete(c, case['cfg'], fn, from_json(case['args']), from_json(case['kwargs']))
        return ['%s: %s' % (v['label'], v['detail']) for v in viol]
    if k == 'edit':
        return check_edit(case)
    if k == 'multisub':
        return check_multisub(case)
    if k == 'randomize':
        return check_randomize(case)
    if k == 'validate':
        X = torch.tensor(case['X'], dtype=torch.float64).to(getattr(torch, case.get('dtype', 'int8')))
        return [] if _validate_got(X) == _validate_expect(X) else ['assumed contract of _validate_input disagrees with the real function']
    return ['unknown replay kind']
