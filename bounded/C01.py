"""Bounded stand-in for C01 (edit primitives) — never counted as proved.

Two kinds of checks, both against the REAL functions:
 (a) the deductive contracts of substitute / insert / delete evaluated in the concrete
     interpretation (same contract text the verifier discharges), on the property's own small
     scope; this is also the replay harness of solver counter-models;
 (b) an independent string-level oracle for multisubstitute and randomize, and the conformance
     of the assumed call-site contract of utils._validate_input with the real function.
"""
import itertools

import torch

from tangermeme import ersatz
from tangermeme.utils import one_hot_encode, characters, _validate_input

from vf.concrete import check_concrete, to_json, from_json, LETTERS

SCOPE = {
    'quick': 'alphabets 2-4; every sequence of length <= 4 (sampled per length to 12) x motif length <= 3 x start in [-3, L+3] x {str, tensor shared, tensor per-example} motifs; delete: every (start, end) in [-2, L+2]^2; 300 seeded random larger cases',
    'thorough': 'alphabets 2-6; every sequence of length <= 5 x motif length <= 3 x every start in [-3, L+3]; 5000 seeded random larger cases',
}


def _contracts():
    from vf.world import World
    import contracts.utils_c as U
    import contracts.ersatz_c as E
    w = World()
    U.register(w)
    E.register(w)
    return w


def ohe(s, alphabet):
    return one_hot_encode(s, alphabet=alphabet).unsqueeze(0)


def dec(t, alphabet):
    return [characters(x, alphabet=alphabet, allow_N=True) for x in t]


def _check(rep, w, qual, fn, args, kwargs, cfg, key, sample=None):
    c = w.contracts[qual]
    outcome, viol = check_concrete(c, cfg, fn, args, kwargs)
    rep.case(key, nontrivial=True, sample=sample, section=qual.split('.')[-1])
    for v in viol:
        rep.violation('%s: %s (%s)' % (qual, v['label'], v['detail']),
                      {'kind': 'contract', 'function': qual, 'cfg': cfg, 'args': to_json(args), 'kwargs': to_json(kwargs)},
                      finding=None)


def run(rep):
    w = _contracts()
    thorough = rep.tier == 'thorough'
    rng = rep.rng
    alph_sizes = range(2, 7) if thorough else range(2, 5)
    maxL = 5 if thorough else 4
    per_len = None if thorough else 12
    for A in alph_sizes:
        alphabet = list(LETTERS[:A])
        for L in range(1, maxL + 1):
            seqs = [''.join(s) for s in itertools.product(alphabet, repeat=L)]
            if per_len is not None and len(seqs) > per_len:
                seqs = rng.sample(seqs, per_len)
            for s in seqs:
                if rep.out_of_time():
                    rep.note('time budget reached inside the exhaustive part')
                    return
                X = torch.cat([ohe(s, alphabet), ohe(s[::-1], alphabet)])
                for n in range(1, 4):
                    motif = ''.join(rng.choice(alphabet) for _ in range(n))
                    Mt = ohe(motif, alphabet)
                    Mt2 = torch.cat([Mt, ohe(motif[::-1], alphabet)])
                    for start in list(range(-3, L + 4)) + [None]:
                        for form, m in (('str', motif), ('tensor', Mt), ('tensor', Mt2)):
                            cfg = dict(motif=form, start='none' if start is None else 'int')
                            kw = dict(start=start, alphabet=alphabet)
                            _check(rep, w, 'tangermeme.ersatz.substitute', ersatz.substitute, [X, m], kw, cfg,
                                   ('sub', A, s, motif, start, form, m.shape[0] if form == 'tensor' else 0),
                                   sample={'fn': 'substitute', 'X': dec(X, alphabet), 'motif': motif, 'start': start, 'form': form})
                            _check(rep, w, 'tangermeme.ersatz.insert', ersatz.insert, [X, m], kw, cfg,
                                   ('ins', A, s, motif, start, form, m.shape[0] if form == 'tensor' else 0),
                                   sample={'fn': 'insert', 'X': dec(X, alphabet), 'motif': motif, 'start': start, 'form': form})
                for st in range(-2, L + 3):
                    for en in range(-2, L + 3):
                        _check(rep, w, 'tangermeme.ersatz.delete', ersatz.delete, [X, st, en], {}, {},
                               ('del', A, s, st, en), sample={'fn': 'delete', 'X': dec(X, alphabet), 'start': st, 'end': en})
    rep.mark_exhaustive('substitute/insert/delete on the listed small scope' + ('' if thorough else ' (sequences sampled per length)'))
    _multisub_and_randomize(rep, rng, thorough)
    _validate_conformance(rep)
    # seeded random larger cases
    n_rand = 5000 if thorough else 300
    for k in range(n_rand):
        if rep.out_of_time():
            break
        A = rng.randint(2, 6)
        alphabet = list(LETTERS[:A])
        L = rng.randint(6, 40)
        B = rng.randint(1, 4)
        X = torch.cat([ohe(''.join(rng.choice(alphabet) for _ in range(L)), alphabet) for _ in range(B)])
        n = rng.randint(1, 8)
        per_ex = rng.random() < 0.4
        motif = ''.join(rng.choice(alphabet) for _ in range(n))
        start = rng.choice([None, rng.randint(-3, L + 3), L - n, L - n + 1, 0])
        if per_ex:
            m = torch.cat([ohe(''.join(rng.choice(alphabet) for _ in range(n)), alphabet) for _ in range(B)])
            form = 'tensor'
        else:
            m, form = (motif, 'str') if rng.random() < 0.5 else (ohe(motif, alphabet), 'tensor')
        cfg = dict(motif=form, start='none' if start is None else 'int')
        kw = dict(start=start, alphabet=alphabet)
        _check(rep, w, 'tangermeme.ersatz.substitute', ersatz.substitute, [X, m], kw, cfg, ('rsub', k))
        _check(rep, w, 'tangermeme.ersatz.insert', ersatz.insert, [X, m], kw, cfg, ('rins', k))
        st, en = rng.randint(-2, L + 2), rng.randint(-2, L + 2)
        _check(rep, w, 'tangermeme.ersatz.delete', ersatz.delete, [X, st, en], {}, {}, ('rdel', k))


def _str_sub(s, m, p):
    return s[:p] + m + s[p + len(m):]


def check_multisub(case):
    out = []
    alphabet, seqs, motifs, spacing, start = case['alphabet'], case['seqs'], case['motifs'], case['spacing'], case['start']
    L, nm = len(seqs[0]), len(motifs)
    X = torch.cat([ohe(s, alphabet) for s in seqs])
    X0 = X.clone()
    total = sum(len(m) for m in motifs) + sum(spacing)
    s0 = (L // 2 - total // 2) if start is None else start
    # expected: sequential substitution; every span must lie inside, spacings non-negative
    pos, ok, p = [], all(0 <= sp for sp in spacing), s0
    for i, m in enumerate(motifs):
        pos.append(p)
        if p < 0 or p + len(m) > L:
            ok = False
        p += len(m) + (spacing[i] if i < nm - 1 else 0)
    try:
        Y = ersatz.multisubstitute(X, motifs, spacing, start=start, alphabet=alphabet)
        got = dec(Y, alphabet)
        if not ok:
            out.append('multisubstitute returned although a span is not inside the sequence / a spacing is negative')
        else:
            exp = []
            for s in seqs:
                for m, q in zip(motifs, pos):
                    s = _str_sub(s, m, q)
                exp.append(s)
            if got != exp or Y.shape != X.shape:
                out.append('multisubstitute != sequential substitution: got %s expected %s' % (got, exp))
    except Exception as e:
        # the pinned guard also refuses spacing >= L; that never returns a wrong result
        if ok and all(sp < L for sp in spacing):
            out.append('multisubstitute raised %s on a valid request' % type(e).__name__)
    if not torch.equal(X, X0):
        out.append('multisubstitute modified its input')
    return out


def check_randomize(case):
    out = []
    alphabet, seqs, st, en, n, seed = case['alphabet'], case['seqs'], case['start'], case['end'], case['n'], case['seed']
    A, L, B = len(alphabet), len(seqs[0]), len(seqs)
    X = torch.cat([ohe(s, alphabet) for s in seqs])
    X0 = X.clone()
    inside = 0 <= st < en <= L
    try:
        probs = torch.full((1, A), 1.0 / A, dtype=torch.float64)
        R = ersatz.randomize(X, st, en, probs=probs, n=n, random_state=seed)
        if not inside:
            out.append('randomize returned for a span not inside the sequence')
        elif tuple(R.shape) != (B, n, A, L):
            out.append('randomize shape %s' % (tuple(R.shape),))
        else:
            for b in range(B):
                for j in range(n):
                    row = R[b, j]
                    if not torch.equal(row[:, :st], X[b][:, :st]) or not torch.equal(row[:, en:], X[b][:, en:]):
                        out.append('randomize altered a position outside [start, end)')
                    if not bool(((row.sum(dim=0) == 1) & ((row == 0) | (row == 1)).all(dim=0)).all()):
                        out.append('randomize output is not one-hot')
    except Exception as e:
        # observation (DESIGN 2.3): the pinned guard refuses end == L; an error is never a wrong result
        if inside and en < L:
            out.append('randomize raised %s (%s) on a valid span' % (type(e).__name__, str(e)[:60]))
    if not torch.equal(X, X0):
        out.append('randomize modified its input')
    return out


def _multisub_and_randomize(rep, rng, thorough):
    """independent string-level oracle"""
    n_cases = 1500 if thorough else 250
    for k in range(n_cases):
        if rep.out_of_time():
            return
        A = rng.randint(2, 6)
        alphabet = list(LETTERS[:A])
        L = rng.randint(3, 14)
        B = rng.randint(1, 3)
        seqs = [''.join(rng.choice(alphabet) for _ in range(L)) for _ in range(B)]
        nm = rng.randint(1, 3)
        motifs = [''.join(rng.choice(alphabet) for _ in range(rng.randint(1, 3))) for _ in range(nm)]
        spacing = [rng.randint(-1, 4) for _ in range(nm - 1)]
        start = rng.choice([None, rng.randint(-2, L + 1)])
        case = {'kind': 'multisub', 'alphabet': alphabet, 'seqs': seqs, 'motifs': motifs, 'spacing': spacing, 'start': start}
        for what in check_multisub(case):
            rep.violation(what, case)
        rep.case(('ms', k), sample=case if k < 2 else None, section='multisubstitute')
        st, en = rng.randint(-1, L), rng.randint(-1, L + 1)
        case = {'kind': 'randomize', 'alphabet': alphabet, 'seqs': seqs, 'start': st, 'end': en, 'n': rng.randint(1, 3), 'seed': k}
        for what in check_randomize(case):
            rep.violation(what, case)
        rep.case(('rz', k), section='randomize')


def _validate_conformance(rep):
    """assumed contract of _validate_input(ohe=True): returns iff one-hot along dim 1, no all-zero
    column, both values present. Exhaustive over tensors with entries in {0,1,2} of shape <= (1,3,2)
    and (2,2,1)."""
    n = 0
    for shape in ((1, 2, 1), (1, 2, 2), (1, 3, 2), (2, 2, 1), (1, 1, 2)):
        numel = shape[0] * shape[1] * shape[2]
        for vals in itertools.product((0, 1, 2), repeat=numel):
            X = torch.tensor(vals, dtype=torch.int8).reshape(shape)
            col_ok = bool((((X == 0) | (X == 1)).all()) and (X.sum(dim=1) == 1).all())
            expect_ok = col_ok and shape[1] >= 2
            try:
                _validate_input(X, 'X', ohe=True)
                got_ok = True
            except ValueError:
                got_ok = False
            n += 1
            if got_ok != expect_ok:
                rep.violation('assumed contract of _validate_input disagrees with the real function', {'kind': 'validate', 'X': X.tolist()})
            rep.case(('vi', shape, vals), nontrivial=col_ok, section='_validate_input-conformance')
    rep.mark_exhaustive('_validate_input(ohe=True) on %d small tensors' % n)


def replay(case):
    k = case.get('kind')
    if k == 'contract':
        w = _contracts()
        c = w.contracts[case['function']]
        fn = getattr(ersatz, case['function'].split('.')[-1])
        _, viol = check_concrete(c, case['cfg'], fn, from_json(case['args']), from_json(case['kwargs']))
        return ['%s: %s' % (v['label'], v['detail']) for v in viol]
    if k == 'multisub':
        return check_multisub(case)
    if k == 'randomize':
        return check_randomize(case)
    if k == 'validate':
        X = torch.tensor(case['X'], dtype=torch.int8)
        col_ok = bool((((X == 0) | (X == 1)).all()) and (X.sum(dim=1) == 1).all()) and X.shape[1] >= 2
        try:
            _validate_input(X, 'X', ohe=True)
            got = True
        except ValueError:
            got = False
        return [] if got == col_ok else ['assumed contract of _validate_input disagrees with the real function']
    return ['unknown replay kind']
