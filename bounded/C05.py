"""Bounded stand-in for C05 (multipliers equal an independent rescale-rule computation) -- never
counted as proved.

Oracle (written from the statement, shares no code with tangermeme and does not use hooks):
the model is an nn.Sequential (possibly with nested nn.Sequential containers, flattened by the oracle)
built by the C04 generator without max-pooling.  For every example-reference pair the oracle runs the
layers one by one on x and on ref, and walks back from the unit vector of the target:
  * affine layer (Conv1d / Linear / AvgPool1d / Flatten / Unflatten / Transpose / Dropout in eval mode):
    its matrix is measured by pushing the unit vectors through the layer (J[d, :] = layer(e_d) -
    layer(0)); the multiplier goes through the TRANSPOSE of that matrix (no autograd involved);
  * element-wise activation f: multiplier *= (f(in_x) - f(in_ref)) / (in_x - in_ref) where the inputs
    differ, and f'(in_x) where they coincide exactly (f' by autograd on a fresh copy of the activation
    alone; where the one-sided difference quotients disagree -- a kink, e.g. ReLU at exactly 0 -- the
    oracle is evaluated with the left AND the right derivative and only those ENTRIES of the multipliers /
    attributions are compared for which both give the same value).
Differences of at most 1e-13 (round-off of sums that are equal in exact arithmetic) count as "the inputs
coincide".  Cases in which some activation input has 1e-13 < |in_x - in_ref| < BAND = 1e-5 are excluded (the statement
excludes the ambiguous band around the implementation's 1e-6 switch; a difference of 1e-5 and more is
ten times the switch and clearly "inputs that differ": the quotient is demanded there).

Clauses checked against the REAL deep_lift_shap:
  (M) raw_outputs=True multipliers == oracle multipliers, pair by pair
  (A) hypothetical=False: attr[e, c, p] == X[e, c, p] * mean_j sum_c' (x_e - ref_j)[c', p] * m_j[c', p]
  (H) hypothetical=True:  attr[e, k, p] == mean_j sum_c (e_k - ref_j)[c, p] * m_j[c, p]   for EVERY character k
  (L) affine model: attribution of the observed character at p == mean_j sum_c W[c, p] (x - ref_j)[c, p]
      with W measured by forward passes of unit vectors, zero elsewhere; unchanged when every bias of
      the model is replaced; raw multipliers of every pair == W; hypothetical=True == the formula of (H)
      with m = W
  (F) the public helper hypothetical_attributions on arbitrary real tensors == the formula of (H)
Tolerance 1e-9 relative to 1 + max |expected| (float64; observed ~1e-16).

For a reference TENSOR the oracle pairs multipliers with the tensor that was GIVEN (pair j of example e
is (x_e, references[e, j])), not with what return_references hands back; for generated references
(dinucleotide_shuffle / shuffle with an int seed) it uses the returned ones.

Sections (beyond the original random nets / affine nets / helper calls)
  small-delta   the first weight layer has DYADIC weights k * 2^-15 (or 2^-16) and bias (2j+1) * 2^-16
                (2^-17), one-hot / zero references: every first-activation input is an exact dyadic number
                that is never 0, and the example-reference differences are EXACTLY 0 or integer multiples
                of 3.05e-5 (1.5e-5), i.e. many lie in [1.5e-5, 1e-4) -- far above the 1e-6 switch, outside
                the excluded band -- and frequently straddle the kink of ReLU-like activations; the next
                weight layer is scaled by 2^14 so that everything downstream is of order one
  extra-act     element-wise activations outside the built-in table (Hardtanh, Softsign, Tanhshrink,
                Hardswish, Hardsigmoid, Hardshrink, Threshold, user module x*x) registered through
                additional_nonlinear_ops (library rule _nonlinear, or a rule written in bounded/C04)
  nested        layers grouped into nested nn.Sequential containers (also 12% of the main nets)
  tiny          sequence length 1-5 (reference tensors), incl. a single example-reference pair
  many          5-9 examples x 1-6 references with the DEFAULT batch_size (argument not passed), and the
                documented defaults n_shuffles=20 / batch_size=32 with dinucleotide_shuffle
  train         the model is handed over in TRAINING mode, containing RReLU (random slope when training)
                and/or Dropout; deep_lift_shap puts the model into eval mode itself (anchored code, L373)
                so the result must be that of the eval-mode function (flag ENABLE_TRAIN_MODE)
  history       call histories on shared state, run LAST so that a leak cannot contaminate the other
                sections: a preceding call (other model / the same model) whose additional_nonlinear_ops
                overrides the rule of every activation class of the model with the plain gradient; a
                preceding call on the same model that raised after the hooks were registered
Options mixed into the random sections: negative target index (12%), return_references=False with a
reference tensor (25%), an n_shuffles argument contradicting the reference tensor (20%; documented:
ignored), raw_outputs=True together with hypothetical=True (15%; still the multipliers), references at
distance 3e-4 / 1e-3 / 1e-2 from x, x itself as a reference, duplicate references.
"""
import warnings

import numpy
import torch

from tangermeme.deep_lift_shap import deep_lift_shap, hypothetical_attributions, _nonlinear

from bounded.C04 import (ACT_CLASSES, ACT_NAMES, EXTRA_NAMES, EXTRA_CLASSES, REF_KINDS, NEAR_EPS, Square,
                         gen_spec, nestify, flat_layers, make_layer, init_weights, make_X, make_refs,
                         _own_rescale, _passthrough, nn)

torch.set_num_threads(1)

# the anchored code calls model.eval() itself; a model handed over in training mode (RReLU / Dropout) must
# therefore be evaluated as its eval-mode function.  Holds on the unchanged tree; switch off if the eval-mode
# obligation is to be treated as a precondition of the caller instead.
ENABLE_TRAIN_MODE = True

SCOPE = {
    'quick': 'seeded random sequential float64 nets from the C04 generator without max-pooling (depth 1-4 weight layers: Conv1d stride/dilation/padding, Linear, AvgPool1d, Flatten/Unflatten/Transpose, 16 element-wise activations; 12% nested nn.Sequential containers), alphabet 2-5, length 6-14, 1-3 examples x 1-4 references (tensor one-hot/zeros/uniform/real/x itself/duplicates/x + 3e-4..1e-2 noise; generated dinucleotide_shuffle / shuffle with int seed), every target incl. negative indices, batch sizes 1..n*S+2, options return_references=False / contradicting n_shuffles / raw_outputs+hypothetical; oracle paired with the GIVEN reference tensor: 1000 nets for clauses M/A/H, 300 affine nets for clause L (bias replacement, raw multipliers == W, hypothetical=True), 120 direct calls of hypothetical_attributions (incl. non-contiguous arguments); + 80 small-delta nets (dyadic first layer: activation-input differences exactly 0 or k*3.05e-5 / k*1.5e-5, straddling kinks) + 8 extra activations x 2 and 24 random nets registered through additional_nonlinear_ops + 40 nested + 40 length 1-5 + 12 many-example nets with the default batch_size + 2 with the defaults n_shuffles=20/batch_size=32 + 30 nets handed over in training mode (RReLU / Dropout) + 24 call histories (rule overrides in a preceding call on another / the same model; a preceding failing call), run last; excluded: nets with an activation-input difference in the band 0<|delta_in|<1e-5, and the entries that depend on the one-sided derivative chosen at a kink',
    'thorough': 'same, up to 15000 nets (time budget), 1500 affine nets, 1000 direct helper calls, 800 small-delta nets, 200 extra-activation nets, 300 nested, 300 tiny, 100 many-example, 10 defaults, 200 training-mode nets, 96 call histories',
}

REL = 1e-9
BAND = 1e-5
COINCIDE = 1e-13     # round-off of sums that are equal in exact arithmetic (e.g. averages of the same one-hot entries): the inputs coincide


# ---------------------------------------------------------------------------------------------
# models

def _mk(l):
    if l[0] == 'drop':
        return nn.Dropout(l[1])
    if l[0] == 'seq':
        return nn.Sequential(*[_mk(x) for x in l[1]])
    return make_layer(l)


def _dyadic(model, case):
    """first weight layer: weights k * 2^-e (k in -3..3), bias (2j+1) * 2^-(e+1) (never cancels to 0);
    second weight layer scaled by 2^(e-1).  All sums of these numbers are exact in float64."""
    e = case.get('dy_exp', 15)
    g = torch.Generator().manual_seed(case['wseed'] + 17)
    ws = [m for m in model.modules() if isinstance(m, (nn.Conv1d, nn.Linear))]
    first = ws[0]
    first.weight.data = torch.randint(-3, 4, first.weight.shape, generator=g).double() * 2.0 ** -e
    first.bias.data = (2 * torch.randint(-2, 2, first.bias.shape, generator=g).double() + 1) * 2.0 ** -(e + 1)
    if len(ws) > 1:
        ws[1].weight.data = ws[1].weight.data * 2.0 ** (e - 1)


def build(spec, wseed, gain, case=None):
    m = init_weights(nn.Sequential(*[_mk(l) for l in spec]), wseed, gain)
    if case is not None and case.get('dyadic'):
        _dyadic(m, case)
    return m


def _flat(seq):
    for c in seq:
        if isinstance(c, nn.Sequential):
            yield from _flat(c)
        else:
            yield c


# ---------------------------------------------------------------------------------------------
# the oracle

def _jac(layer, shp):
    D = int(numpy.prod(shp))
    with torch.no_grad():
        basis = torch.eye(D, dtype=torch.float64).reshape(D, *shp)
        J = layer(basis) - layer(torch.zeros(1, *shp, dtype=torch.float64))
    return J.reshape(D, -1)


def _deriv(f, x, side):
    """ordinary derivative of the element-wise f at x; `side` (-1 / +1) picks the one-sided derivative
    where the two one-sided difference quotients disagree.  -> (derivative, kink mask)"""
    z = x.clone().requires_grad_()
    with torch.enable_grad():
        d = torch.autograd.grad(f(z).sum(), z)[0]
    h = 1e-7
    with torch.no_grad():
        fl = (f(x) - f(x - h)) / h
        fr = (f(x + h) - f(x)) / h
    kink = (fl - fr).abs() > 1e-3
    return torch.where(kink, fl if side < 0 else fr, d), kink


def oracle(layers, Xp, Rp, target, side):
    """Xp, Rp: (P, A, L) example and reference of each pair.  -> (multipliers (P, A, L), band flag)"""
    hx, hr, tape, band = Xp, Rp, [], False
    with torch.no_grad():
        for layer in layers:
            if isinstance(layer, ACT_CLASSES):
                ox, orr = layer(hx), layer(hr)
                tape.append(('act', layer, hx, hr, ox, orr))
                d = (hx - hr).abs()
                if bool(((d > COINCIDE) & (d < BAND)).any()):
                    band = True
            else:
                tape.append(('lin', _jac(layer, tuple(hx.shape[1:])), tuple(hx.shape[1:])))
                ox, orr = layer(hx), layer(hr)
            hx, hr = ox, orr
        m = torch.zeros_like(hx)
        m[:, target] = 1.0
        for rec in reversed(tape):
            if rec[0] == 'lin':
                _, J, shp = rec
                m = (m.reshape(m.shape[0], -1) @ J.T).reshape(m.shape[0], *shp)
            else:
                _, f, ix, ir, ox, orr = rec
                din = ix - ir
                same = din.abs() <= COINCIDE
                dv, _ = _deriv(f, ix, side)
                ratio = torch.where(same, dv, (ox - orr) / torch.where(same, torch.ones_like(din), din))
                m = m * ratio
    return m, band


def _small_delta_stats(layers, Xp, Rp):
    """number of first-activation inputs whose example-reference difference lies in [BAND, 1e-4), and how many
    of those straddle 0"""
    hx, hr = Xp, Rp
    with torch.no_grad():
        for layer in layers:
            if isinstance(layer, ACT_CLASSES):
                d = (hx - hr).abs()
                sel = (d >= BAND) & (d < 1e-4)
                return int(sel.sum()), int((sel & (hx * hr < 0)).sum())
            hx, hr = layer(hx), layer(hr)
    return 0, 0


# ---------------------------------------------------------------------------------------------
# calling the real function

def _history(case, model, X):
    """calls that precede the measured ones (call histories on shared state)"""
    pre = case.get('pre')
    if not pre:
        return
    A, L = case['A'], case['L']
    zero = torch.zeros(1, 1, A, L, dtype=torch.float64)
    with warnings.catch_warnings():
        warnings.simplefilter('ignore')
        if pre in ('override-other', 'override-same'):
            # user rules (the plain gradient) that override the built-in rule of every activation class of the model,
            # for THAT call only
            other = model if pre == 'override-same' else build(case['spec'], case['wseed'] + 5, case['gain'])
            ops = {type(m): _passthrough for m in other.modules() if isinstance(m, ACT_CLASSES)}
            ops[nn.ReLU] = _passthrough
            deep_lift_shap(other, X[:1], references=zero, device='cpu', additional_nonlinear_ops=ops)
        elif pre == 'raise':
            # the SAME model, a call that fails after the hooks were registered
            try:
                deep_lift_shap(model, X[:1], target=10 ** 6, references=zero, device='cpu')
            except Exception:
                pass
        else:
            raise ValueError(pre)


def _call(model, X, refs_arg, kw, case, **mode):
    numpy.random.seed(case['xseed'] % (2 ** 31))
    kw = dict(kw)
    if isinstance(refs_arg, torch.Tensor) and case.get('nshuf_arg') is not None:
        kw['n_shuffles'] = case['nshuf_arg']          # documented: ignored when a tensor is given
    if case.get('batch_size') is not None:
        kw['batch_size'] = case['batch_size']         # None: the default (32)
    xops = {type(m): (_own_rescale if isinstance(m, (Square, nn.Softsign)) else _nonlinear) for m in model.modules() if isinstance(m, EXTRA_CLASSES)}
    if xops:
        kw['additional_nonlinear_ops'] = xops
    with warnings.catch_warnings():
        warnings.simplefilter('ignore')
        return deep_lift_shap(model, X, target=case['target'], references=refs_arg, device='cpu', **kw, **mode)


def _setup(case):
    model = build(case['spec'], case['wseed'], case['gain'], case)       # handed to deep_lift_shap
    clean = build(case['spec'], case['wseed'], case['gain'], case)       # never handed over: the oracle's copy (eval mode)
    if case.get('train'):
        model.train()
    X = make_X(case)
    refs_arg, kw = make_refs(case, X)
    given = refs_arg.clone() if isinstance(refs_arg, torch.Tensor) else None
    return model, clean, X, X.clone(), refs_arg, kw, given


def _refs_of(case, X, given, returned):
    """the references the oracle uses; a string if the shape is wrong"""
    n, S, A, L = case['n'], case['S'], case['A'], case['L']
    if returned is not None and tuple(returned.shape) != (n, S, A, L):
        return 'returned references have shape %s, expected %s' % (tuple(returned.shape), (n, S, A, L))
    return given if given is not None else returned.double()


def _cmp(got, exp, what, out, mask=None):
    """mask: entries that are compared (None: all)"""
    if not isinstance(got, torch.Tensor):
        out.append('%s: a %s was returned, not a tensor' % (what, type(got).__name__))
        return
    if tuple(got.shape) != tuple(exp.shape):
        out.append('%s: shape %s, expected %s' % (what, tuple(got.shape), tuple(exp.shape)))
        return
    if not bool(torch.isfinite(got).all()):
        out.append('%s: non-finite values returned' % what)
        return
    err = (got - exp).abs()
    if mask is not None:
        err = torch.where(mask, err, torch.zeros_like(err))
    tol = REL * (1 + float(exp.abs().max()))
    if float(err.max()) > tol:
        i = numpy.unravel_index(int(err.argmax()), tuple(err.shape))
        out.append('%s: at index %s got %.12g, independent evaluation gives %.12g' % (what, tuple(int(v) for v in i), got[i], exp[i]))


def check_rescale(case, info=None):
    """clauses M, A, H"""
    out = []
    n, S, A, L, t = case['n'], case['S'], case['A'], case['L'], case['target']
    if case['refs'] == 'dinuc-noseed':
        raise ValueError('unseeded references cannot be compared across three calls')
    model, clean, Xarg, X, refs_arg, kw, given = _setup(case)
    ret = not (case.get('noret') and given is not None)     # return_references=False only with a reference tensor
    rawmode = {'hypothetical': True} if case.get('rawhyp') else {}
    try:
        _history(case, model, Xarg)
        if ret:
            mult, refs = _call(model, Xarg, refs_arg, kw, case, raw_outputs=True, return_references=True, **rawmode)
        else:
            mult, refs = _call(model, Xarg, refs_arg, kw, case, raw_outputs=True, **rawmode), None
        attr = _call(model, Xarg, refs_arg, kw, case)
        hyp = _call(model, Xarg, refs_arg, kw, case, hypothetical=True)
    except Exception as e:
        return ['deep_lift_shap raised %s: %s' % (type(e).__name__, str(e)[:100])]
    refs = _refs_of(case, X, given, refs)
    if isinstance(refs, str):
        return [refs]
    Xp, Rp = X.repeat_interleave(S, 0), refs.reshape(n * S, A, L)
    layers = list(_flat(clean))
    m_lo, band = oracle(layers, Xp, Rp, t, -1)
    m_hi, _ = oracle(layers, Xp, Rp, t, +1)
    eye = torch.eye(A, dtype=torch.float64)

    def expected(mm):
        m = mm.reshape(n, S, A, L)
        per_pos = ((X[:, None] - refs) * m).sum(dim=2).mean(dim=1)              # (n, L)
        exp_h = torch.stack([((eye[k][None, None, :, None] - refs) * m).sum(dim=2).mean(dim=1) for k in range(A)], dim=1)
        return m, X * per_pos[:, None, :], exp_h

    lo, hi = expected(m_lo), expected(m_hi)
    # an entry of a clause is compared only if the choice of one-sided derivative at kinks does not affect it
    masks = [(a - b).abs() <= 1e-12 * (1 + float(a.abs().max())) for a, b in zip(lo, hi)]
    decided = [not band and bool(mk.any()) for mk in masks]
    if info is not None:
        info['excluded'] = not any(decided)
        info['partly'] = band or not all(bool(mk.all()) for mk in masks)
        info['band'] = band
    names = ('clause M (raw multipliers of every example-reference pair vs layer-by-layer rescale rule)         ',
             'clause A (attributions, hypothetical=False, vs X * mean_j sum_c (x-ref_j)*m_j)               ',
             'clause H (hypothetical=True vs mean_j sum_c (e_k-ref_j)*m_j for every character k)              ')
    for ok, mk, got, exp, name in zip(decided, masks, (mult, attr, hyp), lo, names):
        if ok:
            _cmp(got, exp, name, out, mk)
    if info is not None:
        # non-trivial: the rescale rule differs from the plain gradient somewhere
        Xg = Xp.clone().requires_grad_()
        g = torch.autograd.grad(clean(Xg)[:, t].sum(), Xg)[0]
        info['nontrivial'] = bool(((g - m_lo).abs() > 1e-6).any())
        if case.get('dyadic'):
            info['small'], info['straddle'] = _small_delta_stats(layers, Xp, Rp)
    return out


def _affine_W(model, A, L, t):
    with torch.no_grad():
        basis = torch.eye(A * L, dtype=torch.float64).reshape(A * L, A, L)
        return (model(basis)[:, t] - model(torch.zeros(1, A, L, dtype=torch.float64))[:, t]).reshape(A, L)


def check_affine(case):
    """clause L"""
    out = []
    n, S, A, L, t = case['n'], case['S'], case['A'], case['L'], case['target']
    model, clean, Xarg, X, refs_arg, kw, given = _setup(case)
    try:
        attr, refs = _call(model, Xarg, refs_arg, kw, case, return_references=True)
        mult = _call(model, Xarg, refs_arg, kw, case, raw_outputs=True)
        hyp = _call(model, Xarg, refs_arg, kw, case, hypothetical=True)
    except Exception as e:
        return ['deep_lift_shap raised %s: %s' % (type(e).__name__, str(e)[:100])]
    returned = refs.double()
    refs = _refs_of(case, X, given, refs)
    if isinstance(refs, str):
        return [refs]
    W = _affine_W(clean, A, L, t)
    per_pos = (W[None, None] * (X[:, None] - refs)).sum(dim=2).mean(dim=1)
    exp = X * per_pos[:, None, :]
    _cmp(attr, exp, 'clause L (affine model: observed character gets mean_j sum_c W[c,p]*(x-ref_j)[c,p], others zero)', out)
    _cmp(mult, W[None, None].expand(n, S, A, L), 'clause L (affine model: the raw multipliers of every pair are the weights W[c,p])              ', out)
    eye = torch.eye(A, dtype=torch.float64)
    exp_h = torch.stack([((eye[k][None, None, :, None] - refs) * W[None, None]).sum(dim=2).mean(dim=1) for k in range(A)], dim=1)
    _cmp(hyp, exp_h, 'clause L (affine model, hypothetical=True: mean_j sum_c (e_k-ref_j)[c,p]*W[c,p] for every k)        ', out)
    # the same weights with every bias replaced
    other = build(case['spec'], case['wseed'], case['gain'])
    g = torch.Generator().manual_seed(case['wseed'] + 1)
    nb = 0
    for mod in other.modules():
        if getattr(mod, 'bias', None) is not None:
            mod.bias.data = torch.randn(mod.bias.shape, generator=g, dtype=torch.float64) * 5 + 3
            nb += 1
    attr2, refs2 = _call(other, Xarg, refs_arg, kw, case, return_references=True)
    if not torch.equal(refs2.double(), returned):
        out.append('clause L: references differ between two identical seeded calls')
    _cmp(attr2, exp, 'clause L (affine model, every bias replaced: attributions must not depend on the bias)          ', out)
    return out


def check_hypo(case):
    """clause F: hypothetical_attributions(multipliers, X, references) on arbitrary real tensors"""
    g = torch.Generator().manual_seed(case['seed'])
    B, A, L = case['B'], case['A'], case['L']
    m = torch.randn(B, A, L, generator=g, dtype=torch.float64)
    X = torch.randn(B, A, L, generator=g, dtype=torch.float64) if case['realX'] else torch.eye(A, dtype=torch.float64)[torch.randint(0, A, (B, L), generator=g)].permute(0, 2, 1).contiguous()
    R = torch.randn(B, A, L, generator=g, dtype=torch.float64)
    if case.get('noncontig'):
        # the same values held in (B, L, A) memory order: non-contiguous views
        m, X, R = (v.permute(0, 2, 1).contiguous().permute(0, 2, 1) for v in (m, X, R))
    m0, X0, R0 = m.clone(), X.clone(), R.clone()
    try:
        got = hypothetical_attributions((m,), (X,), (R,))
    except Exception as e:
        return ['hypothetical_attributions raised %s: %s' % (type(e).__name__, str(e)[:80])]
    out = []
    if not isinstance(got, tuple) or len(got) != 1:
        return ['hypothetical_attributions did not return a one-element tuple']
    mn, Rn = m0.contiguous().numpy(), R0.contiguous().numpy()
    exp = numpy.zeros((B, A, L))
    for b in range(B):
        for k in range(A):
            for p in range(L):
                exp[b, k, p] = sum(((1.0 if c == k else 0.0) - Rn[b, c, p]) * mn[b, c, p] for c in range(A))
    _cmp(got[0], torch.from_numpy(exp), 'clause F (hypothetical_attributions helper vs sum_c (e_k - ref)[c]*m[c])                        ', out)
    if not (torch.equal(m, m0) and torch.equal(X, X0) and torch.equal(R, R0)):
        out.append('hypothetical_attributions modified an argument')
    return out


# ---------------------------------------------------------------------------------------------

REFS = [r for r in REF_KINDS if r != 'dinuc-noseed']
TENSOR_REFS = ['onehot', 'onehot', 'zeros', 'uniform', 'real', 'self', 'dup']
# activations with a kink at 0 (the quotient across the kink differs from both one-sided derivatives) first
KINKED = ['ReLU', 'ReLU', 'LeakyReLU', 'PReLU', 'RReLU', 'ELU', 'SELU', 'CELU', 'ReLU6']


def _options(rng, case, nt, nest=0.12):
    """rarely used options / argument forms"""
    if case['refs'] == 'near':
        case['eps'] = rng.choice(NEAR_EPS)
    if rng.random() < 0.12:
        case['target'] -= nt                  # negative index into the last dimension
    if rng.random() < 0.25:
        case['noret'] = 1                     # return_references=False (takes effect with a reference tensor)
    if rng.random() < 0.2:
        case['nshuf_arg'] = rng.choice([1, 7, 20])     # contradicts the reference tensor: must be ignored
    if rng.random() < 0.15:
        case['rawhyp'] = 1                    # raw_outputs=True together with hypothetical=True
    if rng.random() < nest:
        case['spec'] = nestify(rng, case['spec'])
    return case


def _new_case(rng, kind, depth, acts=None, L_range=(6, 14), n_range=(1, 3), S_range=(1, 4), refs=None, nest=0.12):
    A = rng.choice([4, 4, 4, 2, 3, 5])
    L = rng.randint(*L_range)
    n, S = rng.randint(*n_range), rng.randint(*S_range)
    nt = rng.randint(1, 3)
    case = {'kind': kind, 'A': A, 'L': L, 'n': n, 'S': S, 'target': rng.randrange(nt), 'wseed': rng.randrange(10 ** 6),
            'gain': rng.choice([0.7, 1.5, 3.0]), 'xseed': rng.randrange(10 ** 6), 'refs': rng.choice(refs or REFS), 'rs': rng.randrange(1000),
            'batch_size': rng.randint(1, n * S + 2)}
    case['spec'] = gen_spec(rng, A, L, depth, nt, maxpool=None, acts=acts)
    return _options(rng, case, nt, nest)


def _shape_after(spec, A, L):
    cur = torch.zeros(1, A, L, dtype=torch.float64)
    for l in spec:
        cur = _mk(l).double()(cur)
    return cur.shape


def _small_delta_case(rng, k):
    A = rng.choice([4, 4, 2, 3, 5])
    L = rng.randint(6, 12)
    n, S = rng.randint(1, 3), rng.randint(1, 4)
    nt = rng.randint(1, 2)
    while True:
        C, ks = rng.randint(2, 4), rng.randint(1, 3)
        spec = [['conv', A, C, ks, rng.randint(1, 2), 1, rng.randint(0, 1), 1], ['act', rng.choice(KINKED if k % 4 else ACT_NAMES), rng.randint(0, 5)]]
        if rng.random() < 0.3:
            spec.append(['avg', 2, 2, 0, 0, 1])
        spec.append(['flat'])
        try:
            F = _shape_after(spec, A, L)[1]
        except Exception:
            continue
        if F < 1 or F > 60:
            continue
        if k % 3 == 0:
            spec += [['lin', F, nt, 1]]
        else:
            H = rng.randint(2, 5)
            spec += [['lin', F, H, 1], ['act', rng.choice(ACT_NAMES), rng.randint(0, 5)], ['lin', H, nt, 1]]
        break
    case = {'kind': 'rescale', 'dyadic': 1, 'dy_exp': (15, 16)[k % 2], 'A': A, 'L': L, 'n': n, 'S': S, 'target': rng.randrange(nt),
            'wseed': rng.randrange(10 ** 6), 'gain': rng.choice([0.7, 1.5, 3.0]), 'xseed': rng.randrange(10 ** 6),
            'refs': rng.choice(['onehot', 'onehot', 'zeros', 'dinuc', 'shuffle']), 'rs': rng.randrange(1000), 'batch_size': rng.randint(1, n * S + 2),
            'spec': spec}
    return case


def _with_dropout(rng, spec):
    """insert a Dropout layer somewhere before the head (identity in eval mode)"""
    flat = [l for l in spec]
    i = rng.randint(0, len(flat) - 1)
    return flat[:i] + [['drop', rng.choice([0.2, 0.5])]] + flat[i:]


def _run_rescale(rep, case, key, section, counters, finding='rescale-rule', sample=None):
    info = {}
    try:
        res = check_rescale(case, info)
    except Exception as e:
        rep.note('harness error (%s %s): %s %s' % (section, key, type(e).__name__, str(e)[:100]))
        return info
    counters['excl'] += bool(info.get('excluded'))
    counters['part'] += bool(info.get('partly')) and not info.get('excluded')
    for what in res:
        rep.violation(what, case, finding=finding)
    rep.case((section, key), nontrivial=bool(info.get('nontrivial')) and not info.get('excluded'), section=section, sample=sample)
    return info


def run(rep):
    thorough = rep.tier == 'thorough'
    rng = rep.rng
    cnt = {'excl': 0, 'part': 0}
    # clause F
    for k in range(1000 if thorough else 120):
        case = {'kind': 'hypo', 'seed': rng.randrange(10 ** 6), 'B': rng.randint(1, 3), 'A': rng.randint(2, 5), 'L': rng.randint(1, 6), 'realX': k % 2,
                'noncontig': int(k % 5 == 4)}
        for what in check_hypo(case):
            rep.violation(what, case, finding='hypothetical-projection')
        rep.case(('hypo', k), section='hypothetical_attributions', sample=case if k < 1 else None)
    # small differences between example and reference at an activation, outside the excluded band
    n_small = n_straddle = n_sd_excl = 0
    for k in range(800 if thorough else 80):
        case = _small_delta_case(rng, k)
        info = _run_rescale(rep, case, k, 'small-delta', cnt, finding='small-delta', sample={'spec': case['spec'], 'refs': case['refs'], 'dy_exp': case['dy_exp']} if k < 1 else None)
        n_small += info.get('small', 0)
        n_straddle += info.get('straddle', 0)
        n_sd_excl += bool(info.get('excluded') or info.get('partly'))
    rep.note('small-delta: %d first-activation inputs with %g <= |in_x - in_ref| < 1e-4 (%d of them with in_x, in_ref of opposite sign); %d of the nets not fully compared' % (n_small, BAND, n_straddle, n_sd_excl))
    # activations outside the built-in table, through additional_nonlinear_ops
    for name in EXTRA_NAMES:
        for q in range(6 if thorough else 2):
            spec = [['conv', 4, 3, 3, 2, 2, 2, 1], ['act', name, q], ['avg', 2, 2, 0, 0, 1], ['flat'], ['lin', 9, 3, 1], ['act', name, q + 1], ['lin', 3, 2, 1]]
            case = {'kind': 'rescale', 'A': 4, 'L': 12, 'n': 2, 'S': 3, 'target': q % 2, 'wseed': 200 + q, 'gain': (1.5, 4.0)[q % 2],
                    'xseed': q, 'refs': ('onehot', 'dinuc', 'real')[q % 3], 'rs': q, 'batch_size': 4, 'spec': spec}
            _run_rescale(rep, case, (name, q), 'extra-act', cnt)
    for k in range(200 if thorough else 24):
        case = _new_case(rng, 'rescale', rng.randint(2, 4), acts=EXTRA_NAMES + ['ReLU', 'Tanh'])
        _run_rescale(rep, case, k, 'extra-act', cnt, sample={'spec': case['spec']} if k < 1 else None)
    # nested containers
    for k in range(300 if thorough else 40):
        case = _new_case(rng, 'rescale', rng.randint(2, 4), nest=1.0)
        _run_rescale(rep, case, k, 'nested', cnt, sample={'spec': case['spec']} if k < 1 else None)
    # very short sequences, single pairs
    for k in range(300 if thorough else 40):
        case = _new_case(rng, 'rescale', 1 + k % 3, L_range=(1, 5), refs=TENSOR_REFS, n_range=(1, 2), S_range=(1, 3))
        if k % 4 == 0:
            case.update(n=1, S=1, batch_size=(1, 32)[k % 8 == 0], refs=rng.choice(['onehot', 'zeros', 'real']))
        _run_rescale(rep, case, k, 'tiny', cnt, sample={'spec': case['spec'], 'L': case['L']} if k < 1 else None)
    # many examples with the default batch size; the documented defaults
    for k in range(100 if thorough else 12):
        case = _new_case(rng, 'rescale', 1 + k % 3, n_range=(5, 9), S_range=(1, 6))
        case['batch_size'] = None if k % 3 else rng.choice([5, 7, 11])
        _run_rescale(rep, case, k, 'many', cnt)
    for sd in range(10 if thorough else 2):
        case = {'kind': 'rescale', 'A': 4, 'L': 16, 'n': 3, 'S': 20, 'target': sd % 2, 'wseed': sd, 'gain': 1.5, 'xseed': 50 + sd, 'refs': 'dinuc', 'rs': sd,
                'batch_size': None, 'spec': gen_spec(rng, 4, 16, 3, 2, maxpool=None)}
        _run_rescale(rep, case, sd, 'defaults', cnt)
    # model handed over in training mode
    if ENABLE_TRAIN_MODE:
        for k in range(200 if thorough else 30):
            case = _new_case(rng, 'rescale', rng.randint(2, 4), acts=['RReLU', 'RReLU', 'ReLU', 'Tanh', 'ELU'] if k % 2 else None, nest=0.0)
            if k % 2 == 0 or k % 3 == 0:
                case['spec'] = _with_dropout(rng, case['spec'])
            case['train'] = 1
            _run_rescale(rep, case, k, 'train', cnt, finding='train-mode', sample={'spec': case['spec']} if k < 1 else None)
    # clause L
    for k in range(1500 if thorough else 300):
        if rep.out_of_time():
            break
        case = _new_case(rng, 'affine', 1 + k % 4, acts='none')
        case.pop('rawhyp', None)
        case.pop('noret', None)
        try:
            res = check_affine(case)
        except Exception as e:
            rep.note('harness error (affine %d): %s %s' % (k, type(e).__name__, str(e)[:100]))
            continue
        for what in res:
            rep.violation(what, case, finding='affine')
        rep.case(('affine', k), section='affine', sample={'spec': case['spec'], 'refs': case['refs']} if k < 1 else None)
    # clauses M, A, H
    n_main = 15000 if thorough else 1000
    reserve = 40 if thorough else 4          # for the call histories
    for k in range(n_main):
        if rep.left() < reserve:
            rep.note('rescale section cut at %d of %d (time budget)' % (k, n_main))
            break
        case = _new_case(rng, 'rescale', (1, 2, 3, 4, 2, 3, 4, 3)[k % 8])
        _run_rescale(rep, case, k, 'rescale', cnt,
                     sample={'spec': case['spec'], 'refs': case['refs'], 'n': case['n'], 'S': case['S'], 'batch_size': case['batch_size']} if k < 2 else None)
    # call histories (last: a leaked rule must not contaminate the sections above)
    for k in range(96 if thorough else 24):
        case = _new_case(rng, 'rescale', 2 + k % 3, acts=ACT_NAMES if k % 2 else ['ReLU', 'Tanh', 'Sigmoid', 'GELU', 'ELU', 'Softplus'], nest=0.1)
        case['pre'] = ('override-other', 'override-same', 'raise')[k % 3]
        _run_rescale(rep, case, k, 'history', cnt, finding='call-history', sample={'spec': case['spec'], 'pre': case['pre']} if k < 1 else None)
    rep.note('%d rescale-type cases excluded entirely (band 0<|delta_in|<%g, or the one-sided derivative at a kink affects every entry); %d more compared on a subset of the entries of M/A/H only (entries that do not depend on the one-sided derivative chosen at a kink)' % (cnt['excl'], BAND, cnt['part']))


def replay(case):
    k = case.get('kind')
    if k == 'rescale':
        return check_rescale(case)
    if k == 'affine':
        return check_affine(case)
    if k == 'hypo':
        return check_hypo(case)
    return ['unknown replay kind']
