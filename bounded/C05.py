"""Bounded stand-in for C05 (multipliers equal an independent rescale-rule computation) -- never
counted as proved.

Oracle (written from the statement, shares no code with tangermeme and does not use hooks):
the model is an nn.Sequential built by the C04 generator without max-pooling.  For every
example-reference pair the oracle runs the layers one by one on x and on ref, and walks back from
the unit vector of the target:
  * affine layer (Conv1d / Linear / AvgPool1d / Flatten / Unflatten / Transpose): its matrix is
    measured by pushing the unit vectors through the layer (J[d, :] = layer(e_d) - layer(0)); the
    multiplier goes through the TRANSPOSE of that matrix (no autograd involved);
  * element-wise activation f: multiplier *= (f(in_x) - f(in_ref)) / (in_x - in_ref) where the inputs
    differ, and f'(in_x) where they coincide exactly (f' by autograd on a fresh copy of the activation
    alone; where the one-sided difference quotients disagree -- a kink, e.g. ReLU at exactly 0 -- the
    oracle is evaluated with the left AND the right derivative and the case is only compared when both
    give the same multipliers).
Cases in which some activation input has 0 < |in_x - in_ref| < 1e-4 are excluded (the statement
excludes the ambiguous band around the implementation's 1e-6 switch).

Clauses checked against the REAL deep_lift_shap:
  (M) raw_outputs=True multipliers == oracle multipliers, pair by pair
  (A) hypothetical=False: attr[e, c, p] == X[e, c, p] * mean_j sum_c' (x_e - ref_j)[c', p] * m_j[c', p]
  (H) hypothetical=True:  attr[e, k, p] == mean_j sum_c (e_k - ref_j)[c, p] * m_j[c, p]   for EVERY character k
  (L) affine model: attribution of the observed character at p == mean_j sum_c W[c, p] (x - ref_j)[c, p]
      with W measured by forward passes of unit vectors, zero elsewhere; unchanged when every bias of
      the model is replaced
  (F) the public helper hypothetical_attributions on arbitrary real tensors == the formula of (H)
Tolerance 1e-9 relative to 1 + max |expected| (float64; observed ~1e-16).
"""
import warnings

import numpy
import torch

from tangermeme.deep_lift_shap import deep_lift_shap, hypothetical_attributions

from bounded.C04 import (ACT_CLASSES, REF_KINDS, gen_spec, build, make_X, make_refs, nn)

SCOPE = {
    'quick': 'seeded random sequential float64 nets from the C04 generator without max-pooling (depth 1-4 weight layers: Conv1d stride/dilation/padding, Linear, AvgPool1d, Flatten/Unflatten/Transpose, 16 element-wise activations), alphabet 2-5, length 6-14, 1-3 examples x 1-4 references (tensor one-hot/zeros/uniform/real; generated dinucleotide_shuffle / shuffle), every target, batch sizes 1..n*S+2: 1000 nets for clauses M/A/H, 300 affine nets for clause L (incl. bias replacement), 100 direct calls of hypothetical_attributions; band 0<|delta_in|<1e-4 and kink-ambiguous cases excluded',
    'thorough': 'same, up to 15000 nets (time budget), 1500 affine nets, 1000 direct calls',
}

REL = 1e-9


# ---------------------------------------------------------------------------------------------
# the oracle

def _jac(layer, shp):
    D = int(numpy.prod(shp))
    with torch.no_grad():
        basis = torch.eye(D, dtype=torch.float64).reshape(D, *shp)
        J = layer(basis) - layer(torch.zeros(1, *shp, dtype=torch.float64))
    return J.reshape(D, -1)


def _deriv(f, x, side):
    """ordinary derivative of the element-wise f at x; `side` (-1 / +1) picks the one-sided derivative
    where the two one-sided difference quotients disagree.  -> (derivative, kink mask)"""
    z = x.clone().requires_grad_()
    with torch.enable_grad():
        d = torch.autograd.grad(f(z).sum(), z)[0]
    h = 1e-7
    with torch.no_grad():
        fl = (f(x) - f(x - h)) / h
        fr = (f(x + h) - f(x)) / h
    kink = (fl - fr).abs() > 1e-3
    return torch.where(kink, fl if side < 0 else fr, d), kink


def oracle(layers, Xp, Rp, target, side):
    """Xp, Rp: (P, A, L) example and reference of each pair.  -> (multipliers (P, A, L), band flag)"""
    hx, hr, tape, band = Xp, Rp, [], False
    with torch.no_grad():
        for layer in layers:
            if isinstance(layer, ACT_CLASSES):
                ox, orr = layer(hx), layer(hr)
                tape.append(('act', layer, hx, hr, ox, orr))
                d = (hx - hr).abs()
                if bool(((d > 0) & (d < 1e-4)).any()):
                    band = True
            else:
                tape.append(('lin', _jac(layer, tuple(hx.shape[1:])), tuple(hx.shape[1:])))
                ox, orr = layer(hx), layer(hr)
            hx, hr = ox, orr
        m = torch.zeros_like(hx)
        m[:, target] = 1.0
        for rec in reversed(tape):
            if rec[0] == 'lin':
                _, J, shp = rec
                m = (m.reshape(m.shape[0], -1) @ J.T).reshape(m.shape[0], *shp)
            else:
                _, f, ix, ir, ox, orr = rec
                din = ix - ir
                same = din == 0
                dv, _ = _deriv(f, ix, side)
                ratio = torch.where(same, dv, (ox - orr) / torch.where(same, torch.ones_like(din), din))
                m = m * ratio
    return m, band


def _call(model, X, refs_arg, kw, case, **mode):
    numpy.random.seed(case['xseed'] % (2 ** 31))
    with warnings.catch_warnings():
        warnings.simplefilter('ignore')
        return deep_lift_shap(model, X, target=case['target'], batch_size=case['batch_size'], references=refs_arg,
                              device='cpu', **kw, **mode)


def _cmp(got, exp, what, out):
    if tuple(got.shape) != tuple(exp.shape):
        out.append('%s: shape %s, expected %s' % (what, tuple(got.shape), tuple(exp.shape)))
        return
    if not bool(torch.isfinite(got).all()):
        out.append('%s: non-finite values returned' % what)
        return
    err = (got - exp).abs()
    tol = REL * (1 + float(exp.abs().max()))
    if float(err.max()) > tol:
        i = numpy.unravel_index(int(err.argmax()), tuple(err.shape))
        out.append('%s: at index %s got %.12g, independent evaluation gives %.12g' % (what, tuple(int(v) for v in i), got[i], exp[i]))


def check_rescale(case, info=None):
    """clauses M, A, H"""
    out = []
    n, S, A, L, t = case['n'], case['S'], case['A'], case['L'], case['target']
    model = build(case['spec'], case['wseed'], case['gain'])
    clean = build(case['spec'], case['wseed'], case['gain'])
    X = make_X(case)
    refs_arg, kw = make_refs(case, X)
    if case['refs'] == 'dinuc-noseed':
        raise ValueError('unseeded references cannot be compared across three calls')
    try:
        mult, refs = _call(model, X, refs_arg, kw, case, raw_outputs=True, return_references=True)
        attr = _call(model, X, refs_arg, kw, case)
        hyp = _call(model, X, refs_arg, kw, case, hypothetical=True)
    except Exception as e:
        return ['deep_lift_shap raised %s: %s' % (type(e).__name__, str(e)[:100])]
    refs = refs.double()
    Xp, Rp = X.repeat_interleave(S, 0), refs.reshape(n * S, A, L)
    layers = list(clean)
    m_lo, band = oracle(layers, Xp, Rp, t, -1)
    m_hi, _ = oracle(layers, Xp, Rp, t, +1)
    eye = torch.eye(A, dtype=torch.float64)

    def expected(mm):
        m = mm.reshape(n, S, A, L)
        per_pos = ((X[:, None] - refs) * m).sum(dim=2).mean(dim=1)              # (n, L)
        exp_h = torch.stack([((eye[k][None, None, :, None] - refs) * m).sum(dim=2).mean(dim=1) for k in range(A)], dim=1)
        return m, X * per_pos[:, None, :], exp_h

    lo, hi = expected(m_lo), expected(m_hi)
    # a clause is compared only if the choice of one-sided derivative at kinks does not affect it
    decided = [not band and float((a - b).abs().max()) <= 1e-12 * (1 + float(a.abs().max())) for a, b in zip(lo, hi)]
    if info is not None:
        info['excluded'] = not any(decided)
        info['partly'] = not all(decided)
    names = ('clause M (raw multipliers of every example-reference pair vs layer-by-layer rescale rule)         ',
             'clause A (attributions, hypothetical=False, vs X * mean_j sum_c (x-ref_j)*m_j)               ',
             'clause H (hypothetical=True vs mean_j sum_c (e_k-ref_j)*m_j for every character k)              ')
    for ok, got, exp, name in zip(decided, (mult, attr, hyp), lo, names):
        if ok:
            _cmp(got, exp, name, out)
    if info is not None:
        # non-trivial: the rescale rule differs from the plain gradient somewhere
        Xg = Xp.clone().requires_grad_()
        g = torch.autograd.grad(clean(Xg)[:, t].sum(), Xg)[0]
        info['nontrivial'] = bool(((g - m_lo).abs() > 1e-6).any())
    return out


def _affine_W(model, A, L, t):
    with torch.no_grad():
        basis = torch.eye(A * L, dtype=torch.float64).reshape(A * L, A, L)
        return (model(basis)[:, t] - model(torch.zeros(1, A, L, dtype=torch.float64))[:, t]).reshape(A, L)


def check_affine(case):
    """clause L"""
    out = []
    n, S, A, L, t = case['n'], case['S'], case['A'], case['L'], case['target']
    model = build(case['spec'], case['wseed'], case['gain'])
    clean = build(case['spec'], case['wseed'], case['gain'])
    X = make_X(case)
    refs_arg, kw = make_refs(case, X)
    try:
        attr, refs = _call(model, X, refs_arg, kw, case, return_references=True)
    except Exception as e:
        return ['deep_lift_shap raised %s: %s' % (type(e).__name__, str(e)[:100])]
    refs = refs.double()
    W = _affine_W(clean, A, L, t)
    per_pos = (W[None, None] * (X[:, None] - refs)).sum(dim=2).mean(dim=1)
    exp = X * per_pos[:, None, :]
    _cmp(attr, exp, 'clause L (affine model: observed character gets mean_j sum_c W[c,p]*(x-ref_j)[c,p], others zero)', out)
    # the same weights with every bias replaced
    other = build(case['spec'], case['wseed'], case['gain'])
    g = torch.Generator().manual_seed(case['wseed'] + 1)
    nb = 0
    for mod in other.modules():
        if getattr(mod, 'bias', None) is not None:
            mod.bias.data = torch.randn(mod.bias.shape, generator=g, dtype=torch.float64) * 5 + 3
            nb += 1
    attr2, refs2 = _call(other, X, refs_arg, kw, case, return_references=True)
    if not torch.equal(refs2.double(), refs):
        out.append('clause L: references differ between two identical seeded calls')
    _cmp(attr2, exp, 'clause L (affine model, every bias replaced: attributions must not depend on the bias)          ', out)
    return out


def check_hypo(case):
    """clause F: hypothetical_attributions(multipliers, X, references) on arbitrary real tensors"""
    g = torch.Generator().manual_seed(case['seed'])
    B, A, L = case['B'], case['A'], case['L']
    m = torch.randn(B, A, L, generator=g, dtype=torch.float64)
    X = torch.randn(B, A, L, generator=g, dtype=torch.float64) if case['realX'] else torch.eye(A, dtype=torch.float64)[torch.randint(0, A, (B, L), generator=g)].permute(0, 2, 1).contiguous()
    R = torch.randn(B, A, L, generator=g, dtype=torch.float64)
    m0, X0, R0 = m.clone(), X.clone(), R.clone()
    try:
        got = hypothetical_attributions((m,), (X,), (R,))
    except Exception as e:
        return ['hypothetical_attributions raised %s: %s' % (type(e).__name__, str(e)[:80])]
    out = []
    if not isinstance(got, tuple) or len(got) != 1:
        return ['hypothetical_attributions did not return a one-element tuple']
    mn, Rn = m.numpy(), R.numpy()
    exp = numpy.zeros((B, A, L))
    for b in range(B):
        for k in range(A):
            for p in range(L):
                exp[b, k, p] = sum(((1.0 if c == k else 0.0) - Rn[b, c, p]) * mn[b, c, p] for c in range(A))
    _cmp(got[0], torch.from_numpy(exp), 'clause F (hypothetical_attributions helper vs sum_c (e_k - ref)[c]*m[c])                        ', out)
    if not (torch.equal(m, m0) and torch.equal(X, X0) and torch.equal(R, R0)):
        out.append('hypothetical_attributions modified an argument')
    return out


# ---------------------------------------------------------------------------------------------

REFS = [r for r in REF_KINDS if r != 'dinuc-noseed']


def _new_case(rng, kind, depth, acts=None):
    A = rng.choice([4, 4, 4, 2, 3, 5])
    L = rng.randint(6, 14)
    n, S = rng.randint(1, 3), rng.randint(1, 4)
    nt = rng.randint(1, 3)
    case = {'kind': kind, 'A': A, 'L': L, 'n': n, 'S': S, 'target': rng.randrange(nt), 'wseed': rng.randrange(10 ** 6),
            'gain': rng.choice([0.7, 1.5, 3.0]), 'xseed': rng.randrange(10 ** 6), 'refs': rng.choice(REFS), 'rs': rng.randrange(1000),
            'batch_size': rng.randint(1, n * S + 2)}
    case['spec'] = gen_spec(rng, A, L, depth, nt, maxpool=None, acts=acts)
    return case


def run(rep):
    thorough = rep.tier == 'thorough'
    rng = rep.rng
    # clause F
    for k in range(1000 if thorough else 100):
        case = {'kind': 'hypo', 'seed': rng.randrange(10 ** 6), 'B': rng.randint(1, 3), 'A': rng.randint(2, 5), 'L': rng.randint(1, 6), 'realX': k % 2}
        for what in check_hypo(case):
            rep.violation(what, case, finding='hypothetical-projection')
        rep.case(('hypo', k), section='hypothetical_attributions', sample=case if k < 1 else None)
    # clause L
    for k in range(1500 if thorough else 300):
        if rep.out_of_time():
            break
        case = _new_case(rng, 'affine', 1 + k % 4, acts='none')
        try:
            res = check_affine(case)
        except Exception as e:
            rep.note('harness error (affine %d): %s %s' % (k, type(e).__name__, str(e)[:100]))
            continue
        for what in res:
            rep.violation(what, case, finding='affine')
        rep.case(('affine', k), section='affine', sample={'spec': case['spec'], 'refs': case['refs']} if k < 1 else None)
    # clauses M, A, H
    n_excl = n_part = 0
    n_main = 15000 if thorough else 1000
    for k in range(n_main):
        if rep.out_of_time():
            rep.note('rescale section cut at %d of %d (time budget)' % (k, n_main))
            break
        case = _new_case(rng, 'rescale', 1 + k % 4)
        info = {}
        try:
            res = check_rescale(case, info)
        except Exception as e:
            rep.note('harness error (rescale %d): %s %s' % (k, type(e).__name__, str(e)[:100]))
            continue
        n_excl += bool(info.get('excluded'))
        n_part += bool(info.get('partly')) and not info.get('excluded')
        for what in res:
            rep.violation(what, case, finding='rescale-rule')
        rep.case(('rescale', k), nontrivial=bool(info.get('nontrivial')) and not info.get('excluded'), section='rescale',
                 sample={'spec': case['spec'], 'refs': case['refs'], 'n': case['n'], 'S': case['S'], 'batch_size': case['batch_size']} if k < 2 else None)
    rep.note('%d rescale cases excluded entirely (band 0<|delta_in|<1e-4, or the one-sided derivative at a kink affects every clause); %d more compared on a subset of the clauses M/A/H only' % (n_excl, n_part))


def replay(case):
    k = case.get('kind')
    if k == 'rescale':
        return check_rescale(case)
    if k == 'affine':
        return check_affine(case)
    if k == 'hypo':
        return check_hypo(case)
    return ['unknown replay kind']
